#!/usr/bin/env python3
"""Generates spec/CompilerSchema.tla from the Slice files shipped in <repo>/slice/Compiler: the structs (fields in
declaration order, optional / tagged flags, compactness), the enums (enumerators with discriminants and fields), the type
aliases (expanded) and the operations of the CodeGenerator interface (parameter and return lists).  The request decoder
of Schema.tla is driven by this data only.  usage: gen_schema.py <repo> <out.tla>"""
import glob
import os
import re
import sys

PRIMS = {"bool", "int8", "uint8", "int16", "uint16", "int32", "uint32", "varint32", "varuint32", "int64", "uint64",
         "varint62", "varuint62", "float32", "float64", "string"}


def strip(text):
    text = re.sub(r"//[^\n]*", "", text)
    text = re.sub(r"/\*.*?\*/", "", text, flags=re.S)
    # attributes: [[...]] and [...] (no nesting in the shipped files; string arguments may contain brackets)
    out, i, depth, instr = [], 0, 0, False
    while i < len(text):
        c = text[i]
        if depth > 0:
            if instr:
                if c == "\\":
                    i += 1
                elif c == '"':
                    instr = False
            elif c == '"':
                instr = True
            elif c == "[":
                depth += 1
            elif c == "]":
                depth -= 1
        elif c == "[":
            depth = 1
        else:
            out.append(c)
        i += 1
    return "".join(out)


def tokens(text):
    return re.findall(r"::|->|[A-Za-z_\\][A-Za-z0-9_]*|-?\d+|[{}()<>,:?=]", text)


class P:
    def __init__(self, toks):
        self.t, self.i = toks, 0

    def peek(self, k=0):
        return self.t[self.i + k] if self.i + k < len(self.t) else None

    def next(self):
        self.i += 1
        return self.t[self.i - 1]

    def expect(self, x):
        got = self.next()
        if got != x:
            raise SystemExit("gen_schema: expected %r, got %r at token %d" % (x, got, self.i))

    def ident(self):
        return self.next().lstrip("\\")

    def scoped(self):
        parts = []
        if self.peek() == "::":
            self.next()
        parts.append(self.ident())
        while self.peek() == "::":
            self.next()
            parts.append(self.ident())
        return parts[-1]

    def type(self):
        n = self.peek()
        if n == "Sequence":
            self.next(); self.expect("<"); e = self.type(); self.expect(">")
            t = ("seq", e)
        elif n == "Dictionary":
            self.next(); self.expect("<"); k = self.type(); self.expect(","); v = self.type(); self.expect(">")
            t = ("dict", k, v)
        elif n == "Result":
            self.next(); self.expect("<"); s = self.type(); self.expect(","); f = self.type(); self.expect(">")
            t = ("res", s, f)
        else:
            t = ("name", self.scoped())
        opt = False
        if self.peek() == "?":
            self.next()
            opt = True
        return (t, opt)

    def member(self):
        tag = None
        if self.peek() == "tag" and self.peek(1) == "(":
            self.next(); self.next(); tag = int(self.next()); self.expect(")")
        stream = False
        name = self.ident()
        self.expect(":")
        if self.peek() == "stream":
            self.next()
            stream = True
        t, opt = self.type()
        return dict(name=name, type=t, opt=opt, tag=tag, stream=stream)

    def members(self, close):
        ms = []
        while self.peek() != close:
            ms.append(self.member())
            if self.peek() == ",":
                self.next()
        self.expect(close)
        return ms


def parse(text, schema):
    p = P(tokens(strip(text)))
    while p.peek() is not None:
        t = p.next()
        if t == "module":
            p.scoped()
        elif t == "typealias":
            n = p.ident(); p.expect("="); ty, opt = p.type()
            schema["aliases"][n] = ty
        elif t in ("compact", "unchecked", "struct", "enum"):
            mods = set()
            while t in ("compact", "unchecked"):
                mods.add(t)
                t = p.next()
            n = p.ident()
            if t == "struct":
                p.expect("{")
                schema["structs"][n] = dict(compact="compact" in mods, fields=p.members("}"))
            else:
                under = None
                if p.peek() == ":":
                    p.next(); under, _ = p.type()
                p.expect("{")
                ens, nextv = [], 0
                while p.peek() != "}":
                    en = p.ident()
                    fields = None
                    if p.peek() == "(":
                        p.next(); fields = p.members(")")
                    if p.peek() == "=":
                        p.next(); nextv = int(p.next())
                    ens.append(dict(name=en, disc=nextv, fields=fields))
                    nextv += 1
                    if p.peek() == ",":
                        p.next()
                p.expect("}")
                schema["enums"][n] = dict(compact="compact" in mods, unchecked="unchecked" in mods, underlying=under, ens=ens)
        elif t == "interface":
            n = p.ident()
            if p.peek() == ":":
                p.next(); p.scoped()
                while p.peek() == ",":
                    p.next(); p.scoped()
            p.expect("{")
            ops = []
            while p.peek() != "}":
                if p.peek() == "idempotent":
                    p.next()
                on = p.ident(); p.expect("(")
                params = p.members(")")
                rets = []
                if p.peek() == "->":
                    p.next()
                    if p.peek() == "(":
                        p.next(); rets = p.members(")")
                    else:
                        ty, opt = p.type()
                        rets = [dict(name="returnValue", type=ty, opt=opt, tag=None, stream=False)]
                ops.append(dict(name=on, params=params, rets=rets))
            p.expect("}")
            schema["interfaces"][n] = ops
        else:
            raise SystemExit("gen_schema: unexpected token %r" % t)


def tla_type(t, schema):
    k = t[0]
    if k == "seq":
        return "TSeq(%s)" % tla_field_type(t[1], schema)
    if k == "dict":
        return "TDict(%s, %s)" % (tla_field_type(t[1], schema), tla_field_type(t[2], schema))
    if k == "res":
        return "TRes(%s, %s)" % (tla_field_type(t[1], schema), tla_field_type(t[2], schema))
    n = t[1]
    if n in PRIMS:
        return 'TPrim("%s")' % n
    if n in schema["aliases"]:
        return tla_type(schema["aliases"][n], schema)
    if n in schema["structs"]:
        return 'TStruct("%s")' % n
    if n in schema["enums"]:
        return 'TEnum("%s")' % n
    raise SystemExit("gen_schema: unknown type %s" % n)


def tla_field_type(t_opt, schema):
    t, opt = t_opt
    s = tla_type(t, schema)
    return "TOpt(%s)" % s if opt else s


def tla_members(ms, schema):
    return "<<" + ", ".join('Fld("%s", %s, %s, %s)' % (m["name"], tla_type(m["type"], schema), "TRUE" if m["opt"] else "FALSE",
                                                     m["tag"] if m["tag"] is not None else "-1") for m in ms) + ">>"


def main():
    repo, out = sys.argv[1], sys.argv[2]
    schema = dict(aliases={}, structs={}, enums={}, interfaces={})
    files = sorted(glob.glob(os.path.join(repo, "slice", "Compiler", "*.slice")))
    if not files:
        raise SystemExit("gen_schema: no schema files under %s/slice/Compiler" % repo)
    for f in files:
        parse(open(f).read(), schema)
    mod = os.path.splitext(os.path.basename(out))[0]
    L = []
    L.append("-" * 40 + " MODULE %s " % mod + "-" * 40)
    L.append("(* GENERATED by tools/gen_schema.py from slice/Compiler/*.slice - do not edit.                       *)")
    L.append("(* Fld(name, type, optional, tag): a field; tag = -1 when the field is not tagged.                      *)")
    L.append("EXTENDS Integers, Sequences")
    L.append("TPrim(t) == [k |-> \"prim\", t |-> t]")
    L.append("TSeq(e) == [k |-> \"seq\", e |-> e]")
    L.append("TDict(a, b) == [k |-> \"dict\", a |-> a, b |-> b]")
    L.append("TRes(a, b) == [k |-> \"res\", a |-> a, b |-> b]")
    L.append("TOpt(e) == [k |-> \"opt\", e |-> e]")
    L.append("TStruct(n) == [k |-> \"struct\", n |-> n]")
    L.append("TEnum(n) == [k |-> \"enum\", n |-> n]")
    L.append("Fld(n, t, o, g) == [n |-> n, t |-> t, o |-> o, g |-> g]")
    L.append("Structs == [")
    L.append(",\n".join("  %s |-> [compact |-> %s, fields |-> %s]" % (n, "TRUE" if s["compact"] else "FALSE", tla_members(s["fields"], schema))
                        for n, s in schema["structs"].items()))
    L.append("]")
    L.append("Enums == [")
    rows = []
    for n, e in schema["enums"].items():
        ens = ", ".join('[name |-> "%s", disc |-> %d, hasFields |-> %s, fields |-> %s]' % (
            x["name"], x["disc"], "TRUE" if x["fields"] is not None else "FALSE", tla_members(x["fields"] or [], schema)) for x in e["ens"])
        under = tla_type(e["underlying"], schema) if e["underlying"] else 'TPrim("none")'
        rows.append("  %s |-> [compact |-> %s, unchecked |-> %s, underlying |-> %s, ens |-> <<%s>>]" % (
            n, "TRUE" if e["compact"] else "FALSE", "TRUE" if e["unchecked"] else "FALSE", under, ens))
    L.append(",\n".join(rows))
    L.append("]")
    L.append("Operations == [")
    rows = []
    for n, ops in schema["interfaces"].items():
        for o in ops:
            rows.append("  %s |-> [params |-> %s, rets |-> %s]" % (o["name"], tla_members(o["params"], schema), tla_members(o["rets"], schema)))
    L.append(",\n".join(rows))
    L.append("]")
    def bytes_of(x):
        return "<<" + ", ".join(str(c) for c in x.encode()) + ">>"
    L.append("OperationNameBytes == [" + ", ".join("%s |-> %s" % (o["name"], bytes_of(o["name"])) for ops in schema["interfaces"].values() for o in ops) + "]")
    L.append("\\* the Slice keywords of the primitive types (not part of the shipped schema; from the language definition)")
    L.append("PrimitiveNames == {" + ", ".join(bytes_of(x) for x in sorted(PRIMS | {"AnyClass"})) + "}")
    L.append("ScopeSeparator == " + bytes_of("::"))
    L.append("=" * (82 + len(mod)))
    text = "\n".join(L) + "\n"
    old = open(out).read() if os.path.exists(out) else None
    if old != text:
        with open(out, "w") as f:
            f.write(text)


if __name__ == "__main__":
    main()
