#!/usr/bin/env python3
"""Mutation self-test of the checks (development tool; nothing here is a registered check).

  mutation.py gen  [--seed S] [--per-file K] [--files glob ...] > candidates.jsonl
        enumerates single-site edits (operator / boundary / constant / dropped statement) in the files the properties are
        anchored in and samples K per file
  mutation.py run  --slot N candidates.jsonl [--out results.jsonl] [--checks-all]
        for each candidate, in the scratch worktree of slot N (/var/tmp/seedslot-N, see bin/seed-try; /repo is never
        touched): apply it, build, run the repository's test suite; if the suite still passes ("suite-surviving") run the
        quick checks of the properties anchored in the edited file until one reports a violation
  mutation.py report results.jsonl

A surviving mutant (suite green and no check fired) is either equivalent (behaviour unchanged / outside every listed
property) or a detection gap; each one is read by hand and the outcome recorded in /verif/mutants/README.md.
"""
import collections
import glob
import hashlib
import json
import os
import random
import re
import subprocess
import sys
import time

ROOT = os.path.dirname(os.path.dirname(os.path.abspath(__file__)))


def anchors():
    m = collections.defaultdict(list)
    for l in open(os.path.join(ROOT, "properties.jsonl")):
        p = json.loads(l)
        for f in p["anchors"]["files"]:
            if f.endswith(".rs"):
                m[f].append(p["id"])
    return m


OPS = [
    (r"==", "!=", "eq"), (r"!=", "==", "eq"),
    (r"<=", "<", "rel"), (r">=", ">", "rel"),
    (r"(?<![<\-=!>:&|])<(?![<=\-:>a-zA-Z_(&'])", "<=", "rel"), (r"(?<![<\-=!>:&|)a-zA-Z_'])>(?![>=:])", ">=", "rel"),
    (r"&&", "||", "logic"), (r"\|\|", "&&", "logic"),
    (r"\+ 1\b", "+ 0", "const"), (r"- 1\b", "- 0", "const"), (r"\+= 1\b", "+= 2", "const"),
    (r"\btrue\b", "false", "bool"), (r"\bfalse\b", "true", "bool"),
    (r"\.is_some\(\)", ".is_none()", "opt"), (r"\.is_none\(\)", ".is_some()", "opt"),
    (r"\.is_empty\(\)", ".len() == 1", "empty"),
    (r"\bcontinue;", "break;", "flow"), (r"\bbreak;", "continue;", "flow"),
    (r"if !", "if ", "neg"),
    (r"\.any\(", ".all(", "iter"), (r"\.all\(", ".any(", "iter"),
    (r"\.first\(\)", ".last()", "iter"), (r"\.last\(\)", ".first()", "iter"),
    (r"\.skip\(1\)", ".skip(0)", "iter"),
    (r"\bmin\(", "max(", "minmax"), (r"\bmax\(", "min(", "minmax"),
    (r"\b0\b(?!\.)", "1", "lit"), (r"\b1\b(?!\.)", "2", "lit"),
    (r"\.rev\(\)", "", "iter"),
    (r"\.to_owned\(\)\)", ".to_owned())", "noop"),  # never matches usefully; placeholder removed below
]
OPS = [o for o in OPS if o[2] != "noop"]
STMT_DROP = re.compile(r"^\s*(self\.|[a-z_]+\.)[a-z_\.]*(push|insert|extend|clear|push_str|push_back|pop|remove|truncate|retain|sort[a-z_]*|dedup[a-z_]*|report|set_[a-z_]+|add_[a-z_]+|advance[a-z_]*|next)\(.*\);\s*$")


def code_lines(path):
    """yields (line_no, text, code_part) for lines outside tests and comments"""
    lines = open(path).read().split("\n")
    in_block = False
    for i, l in enumerate(lines):
        if re.match(r"\s*#\[cfg\(test\)\]", l):
            break
        s = l
        if in_block:
            if "*/" in s:
                in_block = False
            continue
        if s.strip().startswith("/*"):
            if "*/" not in s:
                in_block = True
            continue
        st = s.strip()
        if st.startswith("//") or st.startswith("#[") or st.startswith("use ") or st.startswith("debug_assert") or st.startswith("assert"):
            continue
        # cut a trailing line comment (not inside a string - approximate)
        m = re.search(r'(?<!:)//', s)
        code = s
        if m and s[:m.start()].count('"') % 2 == 0:
            code = s[:m.start()]
        yield i, l, code


def in_string(code, pos):
    return code[:pos].replace('\\"', "").count('"') % 2 == 1


def candidates(files):
    out = []
    for f in files:
        path = os.path.join("/repo", f)
        if not os.path.exists(path):
            continue
        for i, full, code in code_lines(path):
            for pat, rep, kind in OPS:
                for m in re.finditer(pat, code):
                    if in_string(code, m.start()):
                        continue
                    if kind == "lit" and re.search(r"(tag|version|0x|0b|\[\s*$)", code[max(0, m.start() - 8):m.start()]):
                        pass
                    out.append({"file": f, "line": i + 1, "col": m.start(), "old": m.group(0), "new": rep, "op": kind, "text": full.strip()[:160]})
            if STMT_DROP.match(code):
                out.append({"file": f, "line": i + 1, "col": 0, "old": code, "new": "", "op": "drop", "text": full.strip()[:160]})
    for c in out:
        c["id"] = "m" + hashlib.sha1(("%s:%d:%d:%s:%s" % (c["file"], c["line"], c["col"], c["old"], c["new"])).encode()).hexdigest()[:8]
    return out


def cmd_gen(argv):
    seed, per = 1, 6
    pats = []
    i = 0
    while i < len(argv):
        if argv[i] == "--seed":
            seed = int(argv[i + 1]); i += 2
        elif argv[i] == "--per-file":
            per = int(argv[i + 1]); i += 2
        elif argv[i] == "--files":
            i += 1
            while i < len(argv) and not argv[i].startswith("--"):
                pats.append(argv[i]); i += 1
        else:
            i += 1
    files = sorted(anchors())
    if pats:
        files = [f for f in files if any(re.search(p, f) for p in pats)]
    rng = random.Random(seed)
    cands = candidates(files)
    by = collections.defaultdict(list)
    for c in cands:
        by[c["file"]].append(c)
    for f in sorted(by):
        pick = by[f] if len(by[f]) <= per else rng.sample(by[f], per)
        for c in sorted(pick, key=lambda c: (c["line"], c["col"])):
            print(json.dumps(c))
    sys.stderr.write("%d candidates in %d files\n" % (len(cands), len(by)))


def sh(cmd, cwd=None, env=None, timeout=3600):
    p = subprocess.run(cmd, shell=True, cwd=cwd, env=env, stdout=subprocess.PIPE, stderr=subprocess.STDOUT, text=True, timeout=timeout)
    return p.returncode, p.stdout


def apply(wt, c):
    path = os.path.join(wt, c["file"])
    lines = open(path).read().split("\n")
    l = lines[c["line"] - 1]
    if c["op"] == "drop":
        if l.rstrip() != c["old"].rstrip() and not l.startswith(c["old"].rstrip()):
            return False
        lines[c["line"] - 1] = re.match(r"\s*", l).group(0) + "{}"
    else:
        if l[c["col"]:c["col"] + len(c["old"])] != c["old"]:
            return False
        lines[c["line"] - 1] = l[:c["col"]] + c["new"] + l[c["col"] + len(c["old"]):]
    open(path, "w").write("\n".join(lines))
    return True


def cmd_run(argv):
    slot = "0"
    outp = None
    all_checks = False
    files = []
    i = 0
    while i < len(argv):
        if argv[i] == "--slot":
            slot = argv[i + 1]; i += 2
        elif argv[i] == "--out":
            outp = argv[i + 1]; i += 2
        elif argv[i] == "--checks-all":
            all_checks = True; i += 1
        else:
            files.append(argv[i]); i += 1
    base = "/var/tmp/seedslot-" + slot
    wt, out = base + "/repo", base + "/out"
    os.makedirs(out, exist_ok=True)
    if not os.path.isdir(wt):
        subprocess.run(["git", "-C", "/repo", "worktree", "add", "--detach", "-q", wt, "HEAD"], check=True)
    head = subprocess.run(["git", "-C", "/repo", "rev-parse", "HEAD"], stdout=subprocess.PIPE, text=True).stdout.strip()
    subprocess.run(["git", "-C", wt, "checkout", "-q", "--", "."])
    subprocess.run(["git", "-C", wt, "checkout", "-q", "--detach", head], check=True)
    anc = anchors()
    outp = outp or (base + "/mutation-results.jsonl")
    done = set()
    if os.path.exists(outp):
        for l in open(outp):
            try:
                done.add(json.loads(l)["id"])
            except Exception:
                pass
    env = dict(os.environ)
    env["CARGO_NET_OFFLINE"] = "true"
    for f in files:
        for l in open(f):
            c = json.loads(l)
            if c["id"] in done:
                continue
            subprocess.run(["git", "-C", wt, "checkout", "-q", "--", "."])
            res = dict(c)
            t0 = time.time()
            if not apply(wt, c):
                res["outcome"] = "stale"
            else:
                try:
                    rc, o = sh("timeout -k 5 600 cargo test --workspace --offline --no-fail-fast 2>&1 | grep -E '^test result:|could not compile|^error|panicked|timed out' | tail -200", cwd=wt, env=env, timeout=700)
                except subprocess.TimeoutExpired:
                    rc, o = 124, "timed out"
                # a mutant may leave a test binary spinning
                subprocess.run("ps aux | grep '%s/target/debug/deps' | grep -v grep | awk '{print $2}' | xargs -r kill -9" % wt, shell=True)
                passed = sum(int(m.group(1)) for m in re.finditer(r"test result: \S+ (\d+) passed; (\d+) failed", o))
                failed = sum(int(m.group(2)) for m in re.finditer(r"test result: \S+ (\d+) passed; (\d+) failed", o))
                if "could not compile" in o or (re.search(r"^error(\[|:)", o, re.M) and passed == 0):
                    res["outcome"] = "build-fail"
                elif failed > 0 or "test failed" in o or passed < 500:
                    res["outcome"] = "killed-by-suite"
                    res["suite"] = [passed, failed]
                else:
                    res["suite"] = [passed, failed]
                    res["outcome"] = "survived"
                    res["checks"] = {}
                    e2 = dict(env)
                    e2["VERIF_REPO"] = wt
                    e2["VERIF_OUT"] = out
                    for pid in anc.get(c["file"], []):
                        rc, o = sh("%s/bin/verif check %s --tier quick" % (ROOT, pid), env=e2)
                        v = [x for x in o.split("\n") if x.startswith("VIOLATION")]
                        sig = ""
                        mm = re.search(r"signature: (.*)", o)
                        if mm:
                            sig = mm.group(1)[:200]
                        res["checks"][pid] = {"rc": rc, "violations": len(v), "sig": sig}
                        if rc == 1 and v:
                            res["outcome"] = "detected"
                            res["by"] = pid
                            if not all_checks:
                                break
                        elif rc != 0:
                            res["checks"][pid]["tail"] = o[-600:]
            res["secs"] = round(time.time() - t0)
            subprocess.run(["git", "-C", wt, "checkout", "-q", "--", "."])
            with open(outp, "a") as fo:
                fo.write(json.dumps(res) + "\n")
            print("%s %-16s %s:%d %s -> %s  [%s] %ss %s" % (c["id"], res["outcome"], c["file"], c["line"], c["old"][:30], c["new"][:30], c["op"], res["secs"], res.get("by", "")), flush=True)


def cmd_report(argv):
    rows = []
    for f in argv:
        for l in open(f):
            rows.append(json.loads(l))
    cnt = collections.Counter(r["outcome"] for r in rows)
    print(dict(cnt))
    for r in rows:
        if r["outcome"] == "survived":
            print("SURVIVED %s %s:%d [%s] %s -> %s | %s | checks %s" % (r["id"], r["file"], r["line"], r["op"], r["old"][:40], r["new"][:40], r["text"][:110],
                                                                  {k: v["rc"] for k, v in r.get("checks", {}).items()}))


if __name__ == "__main__":
    if len(sys.argv) < 2:
        print(__doc__)
        sys.exit(2)
    {"gen": cmd_gen, "run": cmd_run, "report": cmd_report}[sys.argv[1]](sys.argv[2:])
