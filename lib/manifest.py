#!/usr/bin/env python3
"""Generates /verif/MANIFEST.json from the table below (one source of truth; run after editing)."""
import json
import os

ROOT = os.path.dirname(os.path.dirname(os.path.abspath(__file__)))

CLAIMED = {
    "C01": dict(
        category="model_checking",
        technique="TLA+ pipeline state machine (TLC: liveness DoneReached, VerdictConsistent, ErrorGates; as-built deviations "
                  "documented) + TLC-enumerated inputs (token soups, type forms x positions, scaling families, option vectors) "
                  "and seeded mutants executed in isolated workers and by the binary, every execution validated as the end of "
                  "a deviation-free pipeline behaviour by a TLA+ trace specification",
        text="Pipeline.tla models the phases and the error gate; MC_Totality enumerates the inputs of the property's quantifier; "
             "every execution is one event (verdict shape, exit status, signal, panic marker, CPU time, size) that "
             "Trace_Pipeline must accept; crashes, stack overflows and hangs of a worker are attributed to the case by the "
             "supervisor and reported with the rendered input.",
        note="Soups are exhaustive to length 2 (quick) / 3 (thorough) only; mutants are random (seeded). Two findings are recorded "
             "as open: path enumeration in cycle detection is exponential on dense cyclic graphs (pinned by an existing test), and "
             "the validators walk doubling alias chains as trees (the walk is what the visitor promises).",
        design_ref="5 (C01), 4 (Pipeline)"),
    "C08": dict(
        category="model_checking",
        technique="TLA+ schema-driven decoder (Schema.tla over CompilerSchema.tla generated from slice/Compiler/*.slice) used as "
                  "a trace specification: the bytes captured on the stdin of fake generators run by the real binary are "
                  "decoded by TLC and compared with Convert(AST seen through the library API)",
        text="Programs come from the specification's generators (MC_Syntax simulate, MC_DocComment, well-formed MC_Rules items); "
             "for source / reference splits and argument lists the binary runs with two capturing generators; Trace_Schema "
             "decodes each captured stream field by field (bit sequences, tag end markers, variants, strings, sizes), requires "
             "complete consumption incl. the arguments, Norm(decoded) = Convert(files) incl. per-parameter and per-return "
             "documentation, numeric ids pointing back to anonymous symbols, named ids / bases / resolved links existing.",
        note="Variant framing follows the implementation (no second source offline). Splits are sampled (2 per program quick, 4 "
             "thorough) beyond two files.",
        design_ref="5 (C08), 4 (Schema)"),
    "C16": dict(
        category="model_checking",
        technique="TLA+ reference dedent (character-counted common indentation over contentful lines) vs operational "
                  "sanitize_message_lines model (TLC, RefEqOp on all bounded comments) + TLC-enumerated comments, tag "
                  "sequences, link targets and malformed forms compiled by the real compiler and compared with the "
                  "specification's expectation",
        text="DocComment.tla gives the message a comment must carry (RefMessage) and the first-component-decides algorithm "
             "of the implementation with its named deviations; MC_DocComment adds Fits (which tags fit which element), "
             "Designated (outward scope search from the documented element over the family's key table) and the malformed "
             "catalogue. TLC enumerates four families (dedent, tags, links incl. simultaneous links, malformed); every case "
             "is rendered into a fixed program on each commentable kind, compiled, and overview / tag identifiers and "
             "messages / link bindings / warning counts and levels / kept elements compared.",
        note="Texts are fixed words; indentation classes are ' ', U+3000, TAB. Up to 3 lines exhaustively (4 over a reduced "
             "alphabet in the thorough tier), up to 2 tags per comment.",
        design_ref="5 (C16), 4 (DocComment)"),
    "C13": dict(
        category="model_checking",
        technique="TLA+ reference suppression predicate vs operational three-stage level rewrite (TLC, all site x "
                  "placement x argument combinations) + every combination compiled twice (with / without suppression) and "
                  "the two runs diffed",
        text="Lints.tla states when a lint is silenced (RefSilenced) and how into_updated decides it (command-line list, "
             "file of the span, entity named by the lint's recorded scope and its parents); TLC checks them equal and "
             "prints the 563 combinations of 15 lint sites x 9 placements x 5 argument lists. Each is rendered from a "
             "template and compiled twice on real files with options from the real command-line parser: target lint "
             "Allowed iff silenced, every other diagnostic, the error count and the AST unchanged.",
        note="One template per site. Binary-level effects (-A with generators, exit status) are exercised in C07 / C14.",
        design_ref="5 (C13), 4 (Lints)"),
    "C04": dict(
        category="model_checking",
        technique="TLA+ rule catalogue (Violations: item -> codes of the violated rules) enumerated by TLC over "
                  "bounded-exhaustive small-scope families; every item rendered and compiled; containment oracle "
                  "(accepted iff well-formed; reported codes a non-empty subset of the violated rules' codes)",
        text="Rules.tla is an independent reference checker for the statement's rule list (names, tags, compact types, "
             "enumerator values and ranges with symbolic bounds, underlying types, checked/compact enums, dictionary keys "
             "recursively through compact structs and aliases, stream placement, return arity, inherited operations, "
             "alias of optional, module placement, attribute legality / arity / arguments / repetition on 17 targets). "
             "TLC enumerates 95 k (thorough 196 k) items over six families; each is rendered from a template, compiled, "
             "and judged by containment. The generator of well-formed programs (C02) carries the same rules as guards.",
        note="Families are small-scope (<= 3 members / 2-3 enumerators); rule interactions across families are covered only "
             "by the generator of well-formed programs. The statement's rule -> code grouping is used, not 1:1 codes.",
        design_ref="5 (C04), 4 (Rules), Appendix B"),
    "C15": dict(
        category="model_checking",
        technique="TLA+ lookup-table model under file permutations (TLC: order independence of the intended table, "
                  "documented violation of the as-built one) + every permutation x source/reference assignment of "
                  "generated multi-file programs compiled, repeated binary runs, validated by a TLA+ trace specification",
        text="MC_Collide checks that with the intended table a definition and a same-named nested module of another file "
             "resolve identically under every permutation of the files (the pinned last-writer-wins table violates it, "
             "kept as a documented as-built run). Collision arrangements and simulate-mode multi-file programs are "
             "compiled under all permutations x all source/reference assignments (48 runs for 3 files) through "
             "compile_from_options on real files, and the binary is run 3 (5) times in fresh processes; Trace_Repro "
             "demands equal acceptance, equal per-file AST digests, equal warning multisets, byte-identical stderr and "
             "generator requests.",
        note="Per-file content is a digest of the projected AST. Sampled beyond 3 files.",
        design_ref="5 (C15), 4 (Repro, NameTable)"),
    "C03": dict(
        category="model_checking",
        technique="TLA+ declarative scope search vs operational last-writer-wins table + popping walk (TLC, every "
                  "arrangement) + every arrangement x reference rendered, compiled and its binding compared; alias-chain "
                  "machine vs reachability; find_element retrieval on simulate-mode programs",
        text="NameTable.tla states the scoping rule declaratively (Designated) and operationally (Table/Walk as in "
             "find_node_with_scope); TLC checks BindingIsDesignated and OrderIndependent on 135 k (thorough 1.7 M) "
             "arrangement x reference combinations and prints each with the required outcome (bound to which scoped "
             "entity, E033, E017); the harness compiles and reads the binding from TypeRef::definition / bases / "
             "underlying. Alias chains (every function over <= 3/4 aliases x attribute pattern x 7 terminals) must "
             "resolve to the final target with attributes accumulated in order, or give exactly E019/E033. Every "
             "definition, field, enumerator and operation of generated programs is retrieved with find_element.",
        note="Collision-free arrangements only (collisions are C15). Parameters are not part of the retrieval clause.",
        design_ref="5 (C03), 4 (NameTable, TypePatch)"),
    "C09": dict(
        category="model_checking",
        technique="token printer with a modelled cursor (TLA+): expected span facts per element path for simulate-mode "
                  "programs, checked against the spans of the real AST; TLA+ snippet geometry (reference vs emitter "
                  "arithmetic, TLC) + bounded-exhaustive lines x spans replayed through the public emitter",
        text="SliceSyntax places every token under pseudo-random separators (tabs, CRLF, multi-byte text, wide blank) and "
             "derives for each element path exact spans (identifiers, type references with attributes and '?', "
             "attributes, integers) or span predicates (first token of the declaration proper, name included, ends on "
             "a token of the element) which must hold for the spans of the compiled AST of 180 (10 000) programs. "
             "Location.tla gives the snippet reference (gutter, padding, underline width, caret) and TLC checks the "
             "emitter's arithmetic against it on every line <= 4 (5) over {a, blank, tab, 2-byte, 3-byte} x every span x "
             "row numbers 1/9/100 x LF/CRLF plus multi-line spans; all 160 k cases are rendered by the real emitter.",
        note="Diagnostic spans of rule violations and doc-comment parts are checked by C04 / C16 families.",
        design_ref="5 (C09), 4 (Location, SliceSyntax)"),
    "C02": dict(
        category="model_checking",
        technique="generative TLA+ model of the Slice grammar (construction actions with the language rules as guards, "
                  "token printer, layout function) run in TLC's simulator; every finished program is rendered, compiled "
                  "and its projected AST compared structurally with the program the model built",
        text="MC_Syntax builds well-formed multi-file programs by actions that mirror grammar productions and carries the "
             "parser's own state (ScopeBalanced, PrevEnumResetAtEnumEnd are checked in every state); SliceSyntax prints "
             "tokens with element paths and places them under pseudo-random separators (blanks, tabs, CRLF, comments of "
             "every kind, a wide Unicode blank, touching tokens), optional commas, literal spellings in four bases at "
             "range boundaries, escaped string arguments, keyword identifiers. The harness concatenates, compiles and "
             "compares files, modules, attributes and arguments, definitions, members, modifiers, tags, optionality, "
             "enumerator values, full type trees (aliases replaced by their final target with accumulated attributes).",
        note="Sampled (240 programs quick, 12 000 thorough), not bounded-exhaustive. Doc comments are C16's business.",
        design_ref="5 (C02), 4 (SliceSyntax), Appendix A"),
    "C20": dict(
        category="model_checking",
        technique="reference pre-order traversal defined in TLA+ over the generative program model; a recording "
                  "implementation of the public Visitor trait is compared callback by callback with it for every "
                  "simulate-mode program",
        text="Traversal(file) in MC_Syntax is the property read operationally (file, module, definitions in order, "
             "containers before contents, each member's type right after it followed by nested element / key / value / "
             "success / failure types, through aliases); for every generated multi-file program the recorded callback "
             "sequence of every file (callback kind + scoped identifier / type string) must equal it exactly.",
        note="Sampled programs. Bases and underlying types are not presented by the visitor and not demanded by the statement.",
        design_ref="5 (C20), 4 (Visitor)"),
    "C14": dict(
        category="model_checking",
        technique="TLA+ emission model (TLC invariants on every diagnostic list up to a bound) + every list built "
                  "through the public API and emitted in memory, records parsed and compared + TLC trace validation of "
                  "binary runs (stderr records vs library diagnostics, totals, summary, exit, escapes)",
        text="Emitter.tla: the output is the sub-sequence of non-suppressed diagnostics, once each, in order, errors never "
             "suppressed, totals = numbers shown; checked by TLC on all lists <= 3 (4) over 10 shapes x 4 allow lists x 2 "
             "formats x colour, each replayed through Diagnostic::new / into_updated / DiagnosticEmitter into memory "
             "with hostile message text and file names (JSON: exactly five keys per line; human: header, location, notes; "
             "no escape byte with colours off). 96 runs of the binary (6 programs x format x --disable-color under "
             "CLICOLOR_FORCE x -A lists) are validated by Trace_Emitter.",
        note="Snippet geometry belongs to C09. JSON syntax is delegated to serde_json.",
        design_ref="5 (C14), 4 (Emitter)"),
    "C17": dict(
        category="model_checking",
        technique="TLA+ file-system model (directories, files, symbolic links, dotted and absolute paths) with the "
                  "reference resolution; TLC enumerates every argument vector over the skeleton's spellings and each is "
                  "executed through compile_from_options in a materialised tree",
        text="Files.tla resolves paths through a modelled tree (links, '.', '..', absolute) and defines Resolve(sources, "
             "references): first occurrence per canonical file, sources before references, references that are sources "
             "dropped, one DuplicateFile per repeat within a list, I/O error for missing / non-.slice / directory-as-"
             "source / unreadable, nothing parsed on error. TLC checks CompiledOnce and SourceBeatsReference and prints "
             "each vector (quick 9 282; thorough 280 k) with the required file groups; the harness compares canonical "
             "identity, role and order of CompilationState.files, warning and error counts, parsed flags.",
        note="Order inside a reference directory is not compared. Unreadable = not valid UTF-8 (root sandbox). No link loops.",
        design_ref="5 (C17), 4 (Files)"),
    "C07": dict(
        category="model_checking",
        technique="TLA+ model of the driver (compiler + generator processes + bounded pipes; TLC invariants, deadlock "
                  "freedom, termination) + TLC-enumerated scenarios run with the real binary and fake generators + TLC "
                  "trace validation of each observed run against the declarative expectation",
        text="Driver.tla models main.rs step by step (gate, spawn, blocking pipe writes, collect, judge, exit) next to "
             "generators that run concurrently; TLC checks GeneratorsOnlyAfterCleanCompile, DryRunMeansNoGenerators, "
             "WarningsDoNotBlock, ExitNonZeroIffError and that every terminal state equals DriverSpec!Expected. The 720 "
             "scenarios (9 compile outcome classes x file holding the defect x --dry-run x -A All x -O x 5 generator "
             "lists) are run with the real binary; Trace_Driver validates generators started, request captured, files, "
             "exit status iff error diagnostics, stderr content for each run.",
        note="One template program per outcome class. The binary is observed at the process boundary only.",
        design_ref="5 (C07), 4 (Driver)"),
    "C18": dict(
        category="fault_enumeration",
        technique="TLA+ driver model over the generator behaviour catalogue (TLC: invariants, deadlock freedom, liveness) "
                  "+ exhaustive fault assignment for 1-2 (3) generators x output-directory states executed with the "
                  "real binary and fault-injecting fake generators + TLC trace validation of every run",
        text="Every assignment of 19 generator behaviours (missing, not executable, exit 1/255, SIGKILL, SIGSEGV, stderr, "
             "exit before reading, truncated / invalid bool / UTF-8 / level / huge size / empty reply, ok with 0-2 files) "
             "to 1-2 generators x 5 output directory states (1 900 runs; thorough: 3 generators) and a valid reply cut at "
             "every byte are executed; Trace_Driver demands for each run: exit status, one error naming each failing "
             "generator and only those, all startable generators invoked with the identical request + own arguments, "
             "files only from decoded replies, identical file keeps inode/mtime, no crash, <= 20 s. The model itself is "
             "checked for deadlock freedom and termination with bounded pipes.",
        note="Assumes generators read the whole request before replying (the model exhibits the deadlock otherwise). "
             "'Not writable' is a path below a regular file because the sandbox runs as root.",
        design_ref="5 (C18), 4 (Driver)"),
    "C05": dict(
        category="model_checking",
        technique="TLA+ model of the cycle search (TLC: safety invariants + termination under fairness, all graphs <= 3/4 "
                  "nodes) + TLC-enumerated containment / alias / inheritance graphs compiled in isolated workers + TLC "
                  "trace validation of the recorded diagnostics against the transitive-closure reference",
        text="Cycles.tla models push_to_stack_and_check action by action and proves it against the transitive closure on "
             "every graph over 3 (quick) / 4 (thorough) nodes including termination; MC_CyclesGen enumerates every "
             "containment graph <= 3 nodes x 7 wrapper forms x kinds x compactness (thorough: all 65 536 four-node "
             "graphs), every alias function <= 4 (5) aliases, every base relation <= 3 (4) interfaces and random 6-10 "
             "node graphs; each is compiled (crashes and hangs are caught by worker isolation) and Trace_Cycles checks "
             "error-iff-cycle, every cyclic type named, only cyclic types named, every chain a closed path of fields, "
             "E019 exactly for looping aliases, inheritance loops rejected.",
        note="Chains are parsed from the E032 message text. Other errors of acyclic programs are ignored.",
        design_ref="5 (C05), 4 (Cycles, Inheritance)"),
    "C06": dict(
        category="model_checking",
        technique="TLA+ reference stack machine vs operational lexer/tree/process_nodes semantics (TLC, every file up "
                  "to a bound) + every model state replayed into the compiler (selection, positions, E002, no leak "
                  "between files) + simulate-mode long files",
        text="Preproc.tla gives the property as a line-by-line stack machine (one TLA+ action per line form, "
             "expressions by a declarative left fold) and the implementation's structure (lexer modes, Conditional tree, "
             "LALRPOP expression grammar, process_nodes); TLC checks them equal on every file <= 4 lines over 14 forms "
             "x 4 -D sets, every well-formed prefix <= 6 lines, every expression token sequence <= 4 x 8 valuations "
             "(thorough: 5 lines / 8 lines / 6 tokens), and each state is compiled in one of three layouts with a "
             "second file, comparing surviving probes and their (row, col), warning positions, E002 and cross-file "
             "isolation. Random files to 40 lines, nesting <= 5, come from TLC's simulator.",
        note="The count of E002 diagnostics is not compared. Block comments containing '#' at line start are outside "
             "the modelled alphabet.",
        design_ref="5 (C06), 4 (Preproc), Appendix E"),
    "C10": dict(
        category="model_checking",
        technique="TLA+ wire-format specification on base-256 digit sequences (TLC: round trip, shortest width, range "
                  "refusal) + TLC-generated (type, value, bytes) cases replayed into Encoder/Decoder + TLC trace "
                  "validation of recorded sweeps",
        text="Wire.tla defines Enc/Dec for every supported type; TLC checks RoundTrip, ShortestWidth and range refusal "
             "on the model for all 8-bit values, (thorough: all) 16-bit values, 2^k+-d (d<=2 quick, <=64 thorough) for "
             "k=0..63 in both signs, UTF-8 class boundaries and nested containers, prints the required bytes, and the "
             "harness demands byte equality from the real encoder (growable and fixed-slice targets) and value "
             "equality / exact consumption from the real decoder. Strided and random sweeps of the real codec are "
             "validated by TLC event by event.",
        note="Trusted: TLC, JSON rendering of digit sequences. Not decided: the exhaustive sweep below 2^30 (strided "
             "instead), float semantics beyond bit-pattern preservation.",
        design_ref="5 (C10), 4 (Wire), 6"),
    "C11": dict(
        category="model_checking",
        technique="TLA+ total decoder specification + TLC-enumerated byte strings (exhaustive small alphabets, "
                  "mutations of valid encodings, announced sizes) replayed into the real Decoder under an allocation "
                  "monitor + TLC trace validation of random strings",
        text="Wire!Dec is a total function from (type, bytes) to a value + bytes consumed or an error kind; TLC "
             "enumerates every byte string <= 1 (quick) / 2 (thorough) over all 256 bytes and <= 3 / 4 over a 14-byte "
             "representative alphabet, every truncation / single-byte substitution of valid encodings and container "
             "prefixes announcing 2^k elements, for 29 types; the real decoder must agree in class, value and "
             "consumption under two different poison suffixes, Display of each error must return, and the largest "
             "allocation granted must stay below 64*len+4096 bytes. Random strings up to 64 bytes are validated by TLC.",
        note="Only ok/error class is compared, not the error kind. Cost is monitored (allocation size, 2 s), not "
             "proved. Reply types private to the binary are covered through C18.",
        design_ref="5 (C11), 4 (Wire, Decoder), 6"),
    "C12": dict(
        category="model_checking",
        technique="TLA+ append-only-log specification with reservations (TLC invariants + action properties) + "
                  "bounded-exhaustive operation paths executed lock-step on the real targets/sources + TLC trace "
                  "validation of random histories",
        text="Buffers.tla / Sources.tla specify output targets and input sources with an explicit failing variant of "
             "every operation; TLC checks ReservationsInsideLog/Disjoint, NeverPastCap, ReservedUntouched and the action "
             "properties AppendOnly, FailureChangesNothing, ReservedWriteStaysInside on all histories <= 6, and "
             "enumerates every operation path <= 4 (quick) / 5 (thorough) with the outcome of each step, which the "
             "harness executes on SliceOutputTarget (guard-padded), VecOutputTarget (dirty spare capacity) and "
             "SliceInputSource (3 API variants). Random histories up to 200 operations with sizes to 4 KiB are "
             "recorded and validated by TLC.",
        note="Undefined behaviour that leaves contents, guards and positions intact is invisible here. Fixed-slice "
             "contents are inspected after the target is dropped (every prefix is its own path).",
        design_ref="5 (C12), 4 (Buffers), 6"),
    "C19": dict(
        category="model_checking",
        technique="TLA+ character machine vs declarative reference (TLC, exhaustive strings) + TLC-generated cases "
                  "replayed into SliceOptions::try_parse_from + TLC trace validation of random Unicode specifications",
        text="Options.tla states the --generator syntax twice (declarative reference, character machine mirroring "
             "plugin_parser arm by arm); TLC checks them equal on every string up to length 5 (quick) / 8 (thorough) "
             "over {a, space, ',', '=', backslash} and that every rendered (path, arguments) pair parses back to what "
             "was written; every one of those strings is then executed against the real parser (alone and as a "
             "repeated -G) and random Unicode specifications recorded from the real parser are validated by TLC "
             "against the machine. Exhaustive within the bound, sampled beyond it.",
        note="Trusted: TLC 1.8.0 + CommunityModules, the class-to-character rendering of the harness, clap handing "
             "the option value to the value parser unchanged. Bound: string length <= 5/8 over 5 character classes "
             "(+1 multi-byte white space in the rendered family); random Unicode beyond.",
        design_ref="5 (C19), 4 (Options)"),
}

PENDING_REASON = "no check registered yet in this revision of /verif (planned: DESIGN.md section 5); not claimed"


def main():
    props = [json.loads(l)["id"] for l in open(os.path.join(ROOT, "properties.jsonl"))]
    checks = []
    for pid in props:
        c = CLAIMED.get(pid)
        if not c:
            continue
        checks.append({
            "property_id": pid,
            "quick_cmd": "bin/verif check %s --tier quick" % pid,
            "thorough_cmd": "bin/verif check %s --tier thorough" % pid,
            "evidence_file": "/verif/evidence/%s.json" % pid,
            "replay_cmd_template": "bin/verif check %s --replay {path}" % pid,
            "engine": "tlc+harness",
            "level_claimed": {"category": c["category"], "text": c["text"] + (" " + ADDED[pid] if pid in ADDED else ""), "design_ref": "DESIGN.md section " + c["design_ref"]},
            "level_note": c["note"],
            "technique": c["technique"],
        })
    man = {
        "version": 1,
        "setup_cmd": "bin/verif setup",
        "hooks": {
            "guard": "slicec_verif",
            "enable": "none needed: every observation point is public API or the process boundary; the guard name "
                      "(--cfg slicec_verif) is reserved and no hook commit exists",
            "baseline_off_cmd": "cd /repo && cargo test --workspace --no-fail-fast --offline",
            "source_commits": [],
            "add_only": True,
        },
        "engines": [{
            "name": "tlc+harness",
            "path": "bin/verif",
            "serves_properties": [c["property_id"] for c in checks],
            "kind_free_text": "explicit TLA+ specifications (spec/*.tla) checked by TLC; TLC-generated cases replayed "
                              "into the real code by the Rust harness (harness/), recorded executions validated by "
                              "TLC trace specifications",
        }],
        "checks": checks,
        "notes": "Fixes of genuine defects are 'fix:' commits in /repo, listed in KNOWN_FINDINGS.txt. See DESIGN.md.",
        "not_applicable": [{"property_id": p, "reason": NOT_APPLICABLE.get(p, PENDING_REASON)} for p in props if p not in CLAIMED],
    }
    with open(os.path.join(ROOT, "MANIFEST.json"), "w") as f:
        json.dump(man, f, indent=1)
    print("claimed:", [c["property_id"] for c in checks])


NOT_APPLICABLE = {}

# what the second building session added to each check (appended to the level text; DESIGN.md section 12)
ADDED = {
    "C10": "Added: containers at the steps of the size prefix - 31|32|33|63|64|65 elements byte for byte through Wire!Enc, 8191 .. 2^20 elements as bigenc events held to the size-prefix law by Trace_Wire. Every EncodeInto implementation of a type writes the same bytes; long strings of multi-byte characters.",
    "C07": "Added: I/O classes (missing source, missing reference directory, wrong extension, directory as source), one warning class per lint, 256 errors, a source listed twice. Class err_fileattr; replies with one-byte / wide-character paths; the second generated file in a sub-directory.",
    "C06": "Added: four spellings of the symbols (underscores, digits, mixed case), files without a final line break, five layout styles. Deep expressions (parenthesised / negated compound groups, two levels; 2 000 x 8 valuations); MC_DocSplit (doc comments interrupted by directives keep their rows).",
    "C05": "Added: alias loops through a dictionary key, tagged members as containment edges (wrappers 8 / 9), cross-module alias chains (MC_AliasChain). Twin modules with the same type names; wrappers inside wrappers (10-13).",
    "C01": "Time limits are on CPU time of the worker / process tree, so machine load does not turn into a verdict. Added: "
           "rule-family items (C04's families) and alias graphs as inputs, dense interface hierarchies to 40 interfaces, runs "
           "of the binary without --dry-run and in both diagnostic formats. Family taken (definitions named like built-in types, in / outside a module); scale families aliasdouble / keydouble; directives with letters outside ASCII; module-less reference files in every binary run. Two further defects found and repaired, one recorded as open.",
    "C02": "Added: MC_AliasChain (alias chains across modules), MC_Collide arrangements through Trace_Repro, operation shapes "
           "with attributes, attribute-only files, ten escaped string spellings, '/*/' block comments. Attributes.tla + MC_AttrArgs: what an attribute's argument list means (reference vs the parse loops), every list <= 3 x bare / quoted x element compiled and the AST's attribute compared; block comments with inner slashes.",
    "C03": "Added: MC_TwoRefs (two references of one arrangement resolved in one compilation), nested modules that repeat "
           "their parent's name (A::A), MC_Collide arrangements. The definition that holds the reference has a member named like the referenced type (own); alias chains with one directive at every link. MC_WrongKind (keywords, anonymous types and wrong kinds as base interfaces / underlying types); definitions named like built-in types.",
    "C04": "Added: Inheritance.tla (transitive closure vs the recursive closure of interface.rs, TLC on every hierarchy <= 4/5 "
           "interfaces, each compiled: E011 iff an inherited operation is redeclared, closure and operation lists equal), "
           "attribute-list family (E026 et al. on lists of attributes), enumerator-order family, and injections: one rule "
           "violation injected into a well-formed simulate-mode program (MC_Syntax_inject) must be reported there too. MC_AttrArgs (every argument list <= 3 of every directive); attribute target fileonly.",
    "C08": "Now 96 simulate-mode programs per quick run (1 500 thorough) incl. operation shapes with attributes and "
           "attribute-only files. MC_AttrArgs programs; module-only files; foreign directives spelled like compiler directives.",
    "C09": "Added: comment_spans (every doc comment part of every generated comment lies within the comment's lines, tags "
           "start at their '@', link spans cover exactly the tag, identifiers exactly their spelling, comment lints point "
           "into the comment) and MC_Notes (notes of a diagnostic each get their own correctly placed snippet). A doc comment's span starts at or after its slashes; tags behind nothing / blanks / a tab / a wide blank.",
    "C11": "Added: the generator-reply decoder of the binary driven through TLC-enumerated reply mutations (bad bool / level "
           "/ UTF-8 / size at each field, cut after each field) validated by Trace_Driver. After every failed decode the decoder still stands inside its buffer (remaining() <= length, further reads give the buffer's bytes); every truncation / substitution of containers of 17 and 33 elements (MC_Wire_bigmut). MC_Wire_dupkeys; replies with one-byte / wide-character paths, replies announcing a 2^62-byte path / 2^40-byte contents.",
    "C12": "Added: ReserveHuge (a reservation larger than the remaining space fails and changes nothing) and dirty spare "
           "capacities 1, 2, 3, 5 for the growable target. WriteForeign: a write through a reservation of another, longer target fails and changes nothing.",
    "C13": "Added: MC_ManyLints - ten lint sites in two files present at once under every suppression of at most two of "
           "them (TLC invariants RefEqOp, NonInterference, NoLeak): exactly the suppressed lints disappear, nothing leaks "
           "to the twin file. The many-lints program through the real binary with a capturing generator: same exit status, request identical once the encoded allow attributes are cut out; errors stay errors. Three more IncorrectDocComment sites (@returns); MC_AttrArgs (an illegal argument of allow stays an error behind All).",
    "C14": "Added: MC_ManyLints_one in emit mode (the emitted records of a ten-site program under each suppression are "
           "exactly the non-suppressed diagnostics in order), a missing generator and a reference directory holding "
           "non-Slice files in the binary runs. Second driver: CompilationState::emit_diagnostics (the library's own finish) in a child process, same trace specification. Expected notes come from the case (three notes with one text); programs with two equal notes and with non-ASCII text in front of spans; a working generator that reports a diagnostic.",
    "C15": "Added: interfaces used as bases across files, duplicated path spellings, seven generator arguments in the "
           "repeated binary runs. Inheritance / alias / containment graphs (cyclic or not) with one node per file under every order and role assignment; the many-lints twin files under every file order; the binary with a file (also one that only declares its module) as source and as reference: same exit status and request size. Doc comments and link targets in the per-file digests; files named alike at growing depth; MC_LinkFiles; attribute lists of four through repeated runs of the binary.",
    "C16": "Added: text before / after an inline link on neighbouring elements (what one comment holds does not change "
           "another), textual links, a tag naming an identifier that fits no parameter. Position enfield (a field of an enumerator) and tags on struct fields.",
    "C17": "Added: the same file under three spellings (dir/./a.slice, link, absolute) in one list (MC_Files_dup3), "
           "directories whose names end in .slice. Options come from the real command-line parser; paths with a comma; extensions in other letter cases. Directories and files whose name starts with a dot; a link below a reference directory to a directory reachable otherwise.",
    "C18": "Added: behaviours okinfo / okwarn / oksource (replies carrying diagnostics of each level: exit status and stderr "
           "follow the level), replies broken at each field, generators killed mid-reply, a generator that closes stdin and "
           "floods stdout against a 4000-struct request (MC_DriverGen_flood), output directory states longer / shorter "
           "(stale files), an error class with 256 diagnostics. hugestr / hugecontents / okshort / okwide; the second generated file in a sub-directory of the output directory.",
    "C19": "Added: a step through the binary - what each fake generator receives as arguments is what the parser returned. A generator listed twice is run once per -G, each time with the arguments written there. Blanks written as eight different white-space characters.",
    "C20": "Added: Visitor.tla (PreOrder over an abstract tree, TLC: every node once, parents before children, sibling order "
           "kept, on every tree <= 6/7 nodes) is the definition Traversal instantiates, and Trace_Visitor validates the "
           "recorded callback events of every program (one event per callback with file and tree position) against it. Alias chains across two modules: what a visitor is shown for a field typed by the first alias is the pre-order of the final type; files that only declare their module. C03's MC_TwoRefs arrangements with the types a visitor is shown (VERIF_SCOPE_MODE=visit).",
}

if __name__ == "__main__":
    main()
