#!/usr/bin/env python3
"""Generates /verif/MANIFEST.json from the table below (one source of truth; run after editing)."""
import json
import os

ROOT = os.path.dirname(os.path.dirname(os.path.abspath(__file__)))

CLAIMED = {
    "C19": dict(
        category="model_checking",
        technique="TLA+ character machine vs declarative reference (TLC, exhaustive strings) + TLC-generated cases "
                  "replayed into SliceOptions::try_parse_from + TLC trace validation of random Unicode specifications",
        text="Options.tla states the --generator syntax twice (declarative reference, character machine mirroring "
             "plugin_parser arm by arm); TLC checks them equal on every string up to length 5 (quick) / 8 (thorough) "
             "over {a, space, ',', '=', backslash} and that every rendered (path, arguments) pair parses back to what "
             "was written; every one of those strings is then executed against the real parser (alone and as a "
             "repeated -G) and random Unicode specifications recorded from the real parser are validated by TLC "
             "against the machine. Exhaustive within the bound, sampled beyond it.",
        note="Trusted: TLC 1.8.0 + CommunityModules, the class-to-character rendering of the harness, clap handing "
             "the option value to the value parser unchanged. Bound: string length <= 5/8 over 5 character classes "
             "(+1 multi-byte white space in the rendered family); random Unicode beyond.",
        design_ref="5 (C19), 4 (Options)"),
}

PENDING_REASON = "no check registered yet in this revision of /verif (planned: DESIGN.md section 5); not claimed"


def main():
    props = [json.loads(l)["id"] for l in open(os.path.join(ROOT, "properties.jsonl"))]
    checks = []
    for pid in props:
        c = CLAIMED.get(pid)
        if not c:
            continue
        checks.append({
            "property_id": pid,
            "quick_cmd": "bin/verif check %s --tier quick" % pid,
            "thorough_cmd": "bin/verif check %s --tier thorough" % pid,
            "evidence_file": "/verif/evidence/%s.json" % pid,
            "replay_cmd_template": "bin/verif check %s --replay {path}" % pid,
            "engine": "tlc+harness",
            "level_claimed": {"category": c["category"], "text": c["text"], "design_ref": "DESIGN.md section " + c["design_ref"]},
            "level_note": c["note"],
            "technique": c["technique"],
        })
    man = {
        "version": 1,
        "setup_cmd": "bin/verif setup",
        "hooks": {
            "guard": "slicec_verif",
            "enable": "none needed: every observation point is public API or the process boundary; the guard name "
                      "(--cfg slicec_verif) is reserved and no hook commit exists",
            "baseline_off_cmd": "cd /repo && cargo test --workspace --no-fail-fast --offline",
            "source_commits": [],
            "add_only": True,
        },
        "engines": [{
            "name": "tlc+harness",
            "path": "bin/verif",
            "serves_properties": [c["property_id"] for c in checks],
            "kind_free_text": "explicit TLA+ specifications (spec/*.tla) checked by TLC; TLC-generated cases replayed "
                              "into the real code by the Rust harness (harness/), recorded executions validated by "
                              "TLC trace specifications",
        }],
        "checks": checks,
        "notes": "Fixes of genuine defects are 'fix:' commits in /repo, listed in KNOWN_FINDINGS.txt. See DESIGN.md.",
        "not_applicable": [{"property_id": p, "reason": NOT_APPLICABLE.get(p, PENDING_REASON)} for p in props if p not in CLAIMED],
    }
    with open(os.path.join(ROOT, "MANIFEST.json"), "w") as f:
        json.dump(man, f, indent=1)
    print("claimed:", [c["property_id"] for c in checks])


NOT_APPLICABLE = {}

if __name__ == "__main__":
    main()
