"""Shared machinery of the checks: builds, TLC runs (model checking, case generation, trace validation),
replay through the Rust harness, failure classification against KNOWN_FINDINGS.txt, evidence files."""
import array
import fcntl
import glob
import hashlib
import json
import os
import re
import shutil
import subprocess
import sys
import time

ROOT = os.path.dirname(os.path.dirname(os.path.abspath(__file__)))
SPEC = os.path.join(ROOT, "spec")
# VERIF_OUT relocates everything a run writes (build output, work files, replays, evidence) and VERIF_REPO the tree under
# test: used only to try seeded changes on scratch worktrees side by side; the registered checks use /verif and /repo.
OUT = os.environ.get("VERIF_OUT", ROOT)
BUILD = os.path.join(OUT, "build")
TARGET = os.path.join(BUILD, "target")
VH = os.path.join(TARGET, "release", "vh")
FAKEGEN = os.path.join(TARGET, "release", "fakegen")
SLICEC = os.path.join(TARGET, "release", "slicec")
REPO = os.environ.get("VERIF_REPO", "/repo")
TLA_JAR = "/opt/veriftools/tla/tla2tools.jar"
TLA_CP = TLA_JAR + ":/opt/veriftools/tla/CommunityModules-deps.jar"
KNOWN = os.path.join(ROOT, "KNOWN_FINDINGS.txt")


class ToolError(Exception):
    pass


def _env():
    e = dict(os.environ)
    e["CARGO_NET_OFFLINE"] = "true"
    e.pop("RUSTFLAGS", None)
    return e


def _run_build(cmd, cwd):
    p = subprocess.run(cmd, cwd=cwd, env=_env(), stdout=subprocess.PIPE, stderr=subprocess.STDOUT, text=True)
    if p.returncode != 0:
        sys.stdout.write(p.stdout[-6000:])
        raise ToolError("build failed: " + " ".join(cmd))


def build():
    """(Re)builds the harness and the slicec binary from /repo's current working tree (incremental)."""
    os.makedirs(BUILD, exist_ok=True)
    with open(os.path.join(BUILD, ".lock"), "w") as lk:
        fcntl.flock(lk, fcntl.LOCK_EX)
        hdir = os.path.join(ROOT, "harness")
        if REPO != "/repo" or OUT != ROOT:
            # a private copy of the harness whose path dependencies point at the tree under test
            hdir = os.path.join(BUILD, "harness")
            os.makedirs(os.path.join(hdir, ".cargo"), exist_ok=True)
            subprocess.run(["rsync", "-a", "--delete", os.path.join(ROOT, "harness", "src"), hdir + "/"], check=True)
            shutil.copy(os.path.join(ROOT, "harness", "Cargo.lock"), hdir)
            toml = open(os.path.join(ROOT, "harness", "Cargo.toml")).read().replace('"/repo/', '"%s/' % REPO)
            with open(os.path.join(hdir, "Cargo.toml"), "w") as f:
                f.write(toml)
            with open(os.path.join(hdir, ".cargo", "config.toml"), "w") as f:
                f.write('[net]\noffline = true\n\n[build]\ntarget-dir = "%s"\n' % TARGET)
        _run_build(["cargo", "build", "--release", "--offline", "--quiet"], hdir)
        _run_build(["cargo", "build", "--release", "--offline", "--quiet", "--manifest-path", os.path.join(REPO, "Cargo.toml"),
                    "-p", "slicec", "--bin", "slicec", "--target-dir", TARGET], ROOT)
    for b in (VH, FAKEGEN, SLICEC):
        if not os.path.exists(b):
            raise ToolError("missing binary " + b)


def sany_all():
    rc = 0
    for f in sorted(glob.glob(os.path.join(SPEC, "*.tla"))):
        p = subprocess.run(["java", "-cp", TLA_CP, "tla2sany.SANY", os.path.basename(f)], cwd=SPEC,
                           stdout=subprocess.PIPE, stderr=subprocess.STDOUT, text=True)
        bad = p.returncode != 0 or "*** Errors" in p.stdout or "Fatal errors" in p.stdout or "Exception" in p.stdout
        print(("FAIL " if bad else "ok   ") + os.path.basename(f))
        if bad:
            print(p.stdout[-3000:])
            rc = 2
    return rc


def setup():
    try:
        build()
    except ToolError as e:
        print("TOOL-ERROR", e)
        return 2
    return sany_all()


ACTION_RE = re.compile(r"^<(\w+) line \d+, col \d+ to line \d+, col \d+ of module (\w+)(?: \((\d+) \d+ \d+ \d+\))?>: (\d+):(\d+)")
_DEF_RE = re.compile(r"^(\w+)(\(.*?\))?\s*==")
_src_cache = {}


def _def_at(module, line_no):
    """Name of the definition that starts at (or most closely before) a line of a module - TLC names an action that
    is an instance of a wrapper operator by the wrapper plus the location of the call site."""
    if module not in _src_cache:
        try:
            _src_cache[module] = open(os.path.join(SPEC, module + ".tla")).read().split("\n")
        except OSError:
            _src_cache[module] = []
    lines = _src_cache[module]
    i = min(line_no, len(lines)) - 1
    while i >= 0:
        m = _DEF_RE.match(lines[i])
        if m:
            return m.group(1)
        i -= 1
    return None
STATES_RE = re.compile(r"^(\d+) states generated, (\d+) distinct states found")
SIM_RE = re.compile(r"The number of states generated: (\d+)")


def parse_tlc_log(path):
    res = {"generated": 0, "distinct": 0, "errors": [], "actions": {}, "completed": False, "prints": []}
    with open(path, errors="replace") as f:
        for line in f:
            m = STATES_RE.match(line)
            if m:
                res["generated"], res["distinct"] = int(m.group(1)), int(m.group(2))
                continue
            m = SIM_RE.search(line)
            if m:
                res["generated"] = int(m.group(1))
                res["distinct"] = max(res["distinct"], int(m.group(1)))
                continue
            m = ACTION_RE.match(line)
            if m:
                name = m.group(1)
                if m.group(3):
                    name = _def_at(m.group(2), int(m.group(3))) or name
                res["actions"][name] = [int(m.group(4)), int(m.group(5))]
                continue
            if line.startswith("Error:") or "is violated" in line or "Exception" in line:
                res["errors"].append(line.strip())
            if "Model checking completed. No error has been found." in line or line.startswith("Finished in"):
                res["completed"] = True
            if line.startswith("<<\"INFO\"") or line.startswith("<<\"REJECTED") or line.startswith("<<\"ACCEPTED\""):
                res["prints"].append(line.strip())
    return res


class Ctx:
    def __init__(self, pid, tier, mod):
        self.pid = pid
        self.tier = tier
        self.mod = mod
        self.seed = int(os.environ.get("VERIF_SEED", "1"))
        self.t0 = time.time()
        self.work = os.path.join(OUT, "work", "%s-%s" % (pid, tier))
        shutil.rmtree(self.work, ignore_errors=True)
        os.makedirs(self.work, exist_ok=True)
        self.states = 0
        self.transitions = 0
        self.evaluations = 0
        self.traces_ok = 0
        self.distinct_nt_extra = 0
        self.nt_keys = array.array("Q")
        self.samples = []
        self.runs = []
        self.failures = []       # (signature, failure dict)
        self.exhaustive = True
        self.rules = []
        self.assumptions = []
        self.quick = tier == "quick"
        self.jobs = int(os.environ.get("VERIF_JOBS", "12"))

    # ------------------------------------------------------------------ TLC
    def tlc(self, model, cfg=None, workers=8, simulate=None, replay=None, env=None, timeout=3600, heap="12g",
            case_timeout_ms=20000, required_actions=(), label=None, must_pass=True, exhaustive=True, coverage=True,
            extra_vh=None, required_tags=()):
        """Runs TLC on spec/<model>.tla with spec/<cfg>.cfg. With replay=<family>, TLC's CASE lines are piped into
        `vh replay <family>` and every case is executed against the real code."""
        cfg = cfg or model
        label = label or cfg
        logp = os.path.join(self.work, label + ".tlc.log")
        meta = os.path.join(self.work, label + ".states")
        cmd = ["java", "-XX:+UseParallelGC", "-Xmx" + heap, "-Xss512m", "-cp", TLA_CP, "tlc2.TLC",
               "-metadir", meta, "-cleanup", "-noGenerateSpecTE", "-config", cfg + ".cfg"]
        if coverage and not simulate:
            cmd += ["-coverage", "1"]
        if simulate:
            cmd += ["-workers", "1", "-simulate", "num=%d" % simulate["num"], "-depth", str(simulate.get("depth", 100)),
                    "-seed", str(self.seed + simulate.get("seed_offset", 0))]
            exhaustive = False
        else:
            cmd += ["-workers", str(workers)]
        cmd += [model + ".tla"]
        e = dict(os.environ)
        e.update(env or {})
        t0 = time.time()
        summary = None
        procs = (simulate or {}).get("procs", 1)
        if simulate and procs > 1:
            # TLC's simulator is single-threaded per seed (which keeps it reproducible): run several seeds side by side,
            # collect their output, then replay everything in one go
            per = max(1, simulate["num"] // procs)
            outs, ps = [], []
            for k in range(procs):
                c2 = list(cmd)
                c2[c2.index("-seed") + 1] = str(self.seed + simulate.get("seed_offset", 0) + 1000 * k)
                i = c2.index("-simulate")
                c2[i + 1] = "num=%d" % per
                c2[c2.index("-metadir") + 1] = meta + ".%d" % k
                op = os.path.join(self.work, "%s.sim%d.out" % (label, k))
                outs.append(op)
                ps.append(subprocess.Popen(c2, cwd=SPEC, env=e, stdout=open(op, "w"), stderr=subprocess.STDOUT))
            rcs = []
            for pr in ps:
                try:
                    rcs.append(pr.wait(timeout=timeout))
                except subprocess.TimeoutExpired:
                    for q in ps:
                        q.kill()
                    raise ToolError("timeout running %s" % label)
            merged = os.path.join(self.work, label + ".sim.out")
            with open(merged, "w") as mo:
                for op in outs:
                    with open(op) as f:
                        shutil.copyfileobj(f, mo)
                    os.remove(op)
            for k in range(procs):
                shutil.rmtree(meta + ".%d" % k, ignore_errors=True)
            cmd = ["cat", merged]
            class _P:  # the merged output stands in for one TLC process
                returncode = max(rcs)
            sim_rc = max(rcs)
        else:
            sim_rc = None
        if replay:
            sump = os.path.join(self.work, label + ".replay.json")
            vh = [VH, "replay", replay, "--jobs", str(self.jobs), "--summary", sump, "--tlclog", logp,
                  "--timeout-ms", str(case_timeout_ms)] + (extra_vh or [])
            e2 = dict(e)
            e2["VERIF_SLICEC_BIN"] = SLICEC
            e2["VERIF_FAKEGEN_BIN"] = FAKEGEN
            e2["VERIF_WORK"] = self.work
            e2["VERIF_REPO"] = REPO
            p1 = subprocess.Popen(cmd, cwd=SPEC, env=e, stdout=subprocess.PIPE, stderr=subprocess.STDOUT)
            p2 = subprocess.Popen(vh, cwd=self.work, env=e2, stdin=p1.stdout)
            p1.stdout.close()
            try:
                p2.wait(timeout=timeout)
                p1.wait(timeout=60)
            except subprocess.TimeoutExpired:
                p1.kill()
                p2.kill()
                raise ToolError("timeout running %s" % label)
            if p2.returncode != 0:
                raise ToolError("vh replay failed for %s (rc %s)" % (label, p2.returncode))
            summary = json.load(open(sump))
        else:
            with open(logp, "w") as out:
                try:
                    p1 = subprocess.run(cmd, cwd=SPEC, env=e, stdout=out, stderr=subprocess.STDOUT, timeout=timeout)
                except subprocess.TimeoutExpired:
                    raise ToolError("timeout running %s" % label)
        shutil.rmtree(meta, ignore_errors=True)
        res = parse_tlc_log(logp)
        res["rc"] = p1.returncode if sim_rc is None else sim_rc
        res["label"] = label
        res["wall_s"] = round(time.time() - t0, 2)
        res["cmd"] = " ".join(cmd[cmd.index("tlc2.TLC"):]) if "tlc2.TLC" in cmd else "tlc2.TLC -simulate (x%d seeds) %s" % (procs, cfg)
        ok = res["rc"] == 0 and not res["errors"] and res["completed"]
        res["ok"] = ok
        if must_pass and not ok:
            tail = subprocess.run(["tail", "-n", "40", logp], stdout=subprocess.PIPE, text=True).stdout
            raise ToolError("TLC reported a problem in %s (rc %s): %s\n%s" % (label, res["rc"], res["errors"][:3], tail))
        for a in required_actions:
            if res["actions"].get(a, [0, 0])[0] == 0:
                raise ToolError("vacuity: action %s of %s was never taken" % (a, label))
        self.states += res["distinct"]
        self.transitions += res["generated"]
        if not exhaustive:
            self.exhaustive = False
        run = {"label": label, "cmd": res["cmd"], "distinct_states": res["distinct"], "states_generated": res["generated"],
               "actions": res["actions"], "wall_s": res["wall_s"], "mode": "simulate" if simulate else "bfs"}
        if summary is not None:
            self.absorb(summary, label, mode_env(e))
            run["replayed"] = summary["total"]
            run["replay_failed"] = summary["failed"]
            run["distinct_inputs"] = summary["distinct"]
            run["replay_wall_s"] = round(summary["wall_s"], 2)
            run["tags"] = summary.get("tags", {})
            for tag in required_tags:
                if not summary.get("tags", {}).get(tag):
                    raise ToolError("vacuity: no replayed case of %s carries the tag %s" % (label, tag))
            if summary["cases_read"] == 0:
                raise ToolError("no case was generated by %s" % label)
            if summary["unparsed_case_lines"]:
                raise ToolError("%d CASE lines of %s could not be parsed" % (summary["unparsed_case_lines"], label))
        self.runs.append(run)
        res["summary"] = summary
        return res

    # ------------------------------------------------------------------ replay of NDJSON files / harness summaries
    def vh_replay_file(self, family, path, label, case_timeout_ms=20000, extra_env=None):
        sump = os.path.join(self.work, label + ".replay.json")
        e2 = dict(os.environ)
        e2.update({"VERIF_SLICEC_BIN": SLICEC, "VERIF_FAKEGEN_BIN": FAKEGEN, "VERIF_WORK": self.work, "VERIF_REPO": REPO})
        e2.update(extra_env or {})
        with open(path) as inp:
            p = subprocess.run([VH, "replay", family, "--jobs", str(self.jobs), "--summary", sump,
                                "--timeout-ms", str(case_timeout_ms)], cwd=self.work, env=e2, stdin=inp)
        if p.returncode != 0:
            raise ToolError("vh replay failed for %s" % label)
        summary = json.load(open(sump))
        self.absorb(summary, label)
        return summary

    def absorb(self, summary, label, env=None):
        self.evaluations += summary["total"]
        self.traces_ok += summary["ok"]
        kp = os.path.join(self.work, label + ".replay.json.keys")
        if os.path.exists(kp):
            a = array.array("Q")
            with open(kp, "rb") as f:
                a.frombytes(f.read())
            self.nt_keys.extend(a)
            os.remove(kp)
        else:
            self.distinct_nt_extra += summary["distinct_nontrivial"]
        for s in summary["samples"][:2]:
            if len(self.samples) < 8:
                self.samples.append({"run": label, **s})
        if summary.get("skipped_after_too_many_crashes"):
            self.exhaustive = False
            print("NOTE property=%s run %s: %d cases were not executed after %d workers had crashed or hung" % (
                self.pid, label, summary["skipped_after_too_many_crashes"], summary.get("worker_restarts", 0)))
        for f in summary["failures"]:
            f["run"] = label
            if env:
                f["env"] = env  # the mode switches the case ran under, so that --replay runs it the same way
            self.add_failure(f)
        extra = summary["failed"] - len(summary["failures"])
        if extra > 0:
            self.failures.append(("(%d further failures of run %s not itemised)" % (extra, label), None))

    def add_failure(self, f):
        sigf = getattr(self.mod, "signature", None)
        try:
            sig = sigf(f) if sigf else default_signature(f)
        except Exception as e:  # a signature function must never turn a finding into a crash of the runner
            sig = default_signature(f) + " (signature function failed: %s)" % type(e).__name__
        self.failures.append((sig, f))

    # ------------------------------------------------------------------ recording + trace validation
    def vh_record(self, family, out_name, args=(), timeout=3600):
        outp = os.path.join(self.work, out_name)
        e2 = dict(os.environ)
        e2.update({"VERIF_SLICEC_BIN": SLICEC, "VERIF_FAKEGEN_BIN": FAKEGEN, "VERIF_WORK": self.work, "VERIF_REPO": REPO,
                   "VERIF_SEED": str(self.seed)})
        with open(outp, "w") as out:
            p = subprocess.run([VH, "record", family] + list(args), cwd=self.work, env=e2, stdout=out, timeout=timeout)
        if p.returncode < 0 or p.returncode in (101, 134):
            # the recorder runs the code under test in-process: dying from a signal / panic / abort is an observation
            self.add_failure({"family": "trace", "case": {"record": family, "args": list(args), "seed": self.seed, "tier": self.tier},
                              "detail": {"kind": "crash", "what": "recorder %s died (rc %s) while driving the real code" % (family, p.returncode)}})
            return None
        if p.returncode != 0:
            raise ToolError("vh record %s failed (rc %s)" % (family, p.returncode))
        return outp

    def trace_check(self, model, trace_path, cfg=None, label=None, timeout=3600, heap="8g", env=None):
        """Validates a recorded NDJSON trace against spec/<model>.tla. Returns (accepted, message, result)."""
        cfg = cfg or model
        label = label or (cfg + "." + os.path.basename(trace_path))
        logp = os.path.join(self.work, label + ".tlc.log")
        meta = os.path.join(self.work, label + ".states")
        cmd = ["java", "-XX:+UseParallelGC", "-Xmx" + heap, "-Xss1g", "-Dtlc2.tool.queue.IStateQueue=StateDeque",
               "-cp", TLA_CP, "tlc2.TLC", "-metadir", meta, "-cleanup", "-noGenerateSpecTE", "-workers", "1",
               "-config", cfg + ".cfg", model + ".tla"]
        e = dict(os.environ)
        e["TRACE"] = trace_path
        e.update(env or {})
        t0 = time.time()
        with open(logp, "w") as out:
            try:
                p = subprocess.run(cmd, cwd=SPEC, env=e, stdout=out, stderr=subprocess.STDOUT, timeout=timeout)
            except subprocess.TimeoutExpired:
                raise ToolError("timeout validating %s" % label)
        shutil.rmtree(meta, ignore_errors=True)
        res = parse_tlc_log(logp)
        res["rc"] = p.returncode
        res["wall_s"] = round(time.time() - t0, 2)
        res["cmd"] = " ".join(cmd[cmd.index("tlc2.TLC"):])
        nlines = sum(1 for _ in open(trace_path))
        accepted = p.returncode == 0 and not res["errors"] and res["completed"]
        msg = "; ".join(res["prints"][:3] + res["errors"][:3])
        self.states += res["distinct"]
        self.transitions += res["generated"]
        self.runs.append({"label": label, "cmd": res["cmd"], "mode": "trace-validation", "trace_events": nlines,
                          "distinct_states": res["distinct"], "accepted": accepted, "wall_s": res["wall_s"]})
        return accepted, msg, res

    def collect_events(self, family, out_name=None):
        """Concatenates the event files written by the replay workers of this check (util::emit_event)."""
        out = os.path.join(self.work, out_name or ("events-%s.ndjson" % family))
        parts = sorted(glob.glob(os.path.join(self.work, "events-%s-*.ndjson" % family)))
        with open(out, "w") as o:
            for p in parts:
                with open(p) as f:
                    shutil.copyfileobj(f, o)
                os.remove(p)
        return out

    def validate_events(self, model, trace, label=None, cfg=None, timeout=3600, count=True, parallel=1):
        """Validates an event file produced by replay workers against spec/<model>.tla.  With parallel > 1 the events
        (which must be independent of each other) are split into that many chunks validated by concurrent TLC runs."""
        label = label or model
        with open(trace) as f:
            lines = f.readlines()
        nlines = len(lines)
        if nlines == 0:
            raise ToolError("no events to validate for %s" % label)
        parallel = max(1, min(parallel, nlines // 4 or 1))
        chunks = []           # (path, offset)
        if parallel == 1:
            chunks.append((trace, 0))
        else:
            per = (nlines + parallel - 1) // parallel
            for c in range(parallel):
                part = lines[c * per:(c + 1) * per]
                if not part:
                    continue
                cp = "%s.part%d" % (trace, c)
                with open(cp, "w") as f:
                    f.writelines(part)
                chunks.append((cp, c * per))
        import concurrent.futures
        results = []
        with concurrent.futures.ThreadPoolExecutor(max_workers=len(chunks)) as ex:
            futs = [ex.submit(self.trace_check, model, cp, cfg, "%s.%d" % (label, i), timeout, "4g" if len(chunks) > 1 else "8g")
                    for i, (cp, _) in enumerate(chunks)]
            for fu in futs:
                results.append(fu.result())
        all_ok = True
        ats, total, first_msg = [], 0, ""
        for (cp, off), (ok, msg, res) in zip(chunks, results):
            if ok:
                if not any("ACCEPTED" in p for p in res["prints"]):
                    raise ToolError("trace %s: TLC finished without evaluating the acceptance condition" % label)
                continue
            all_ok = False
            first_msg = first_msg or msg
            text = "\n".join(res["prints"])
            found = re.findall(r'<<"REJECTED", (\d+)(?:, (.*))?>>', text)
            explain = getattr(self.mod, "explain", None)
            ats.extend((int(i) + off, (explain(why) if explain and why else (why or ""))[:1500]) for i, why in found)
            cnt = re.search(r'"REJECTED-COUNT", (\d+)', msg + " " + text)
            total += int(cnt.group(1)) if cnt else len(found)
            if not found and not cnt:
                total += 1
        if parallel > 1:
            for cp, _ in chunks:
                try:
                    os.remove(cp)
                except OSError:
                    pass
        if all_ok:
            ev = json.loads(lines[0])
            self.samples.append({"run": label, "event": {k: (v if len(json.dumps(v)) < 2000 else "(%d bytes of JSON)" % len(json.dumps(v))) for k, v in ev.items() if k != "text"}})
            return True
        self.traces_ok -= total if count else 0
        if not ats:
            self.add_failure({"family": "trace", "case": {"model": model, "seed": self.seed, "tier": self.tier},
                              "detail": {"kind": "trace-rejected", "what": model, "event": None, "tlc": first_msg[:600]}})
        for at, why in ats[:12]:
            ev = json.loads(lines[at - 1])
            ev = {k: (v if len(json.dumps(v)) < 4000 else "(%d bytes of JSON)" % len(json.dumps(v))) for k, v in ev.items()}
            self.add_failure({"family": "trace", "case": {"model": model, "seed": self.seed, "tier": self.tier, "event_index": at},
                              "detail": {"kind": "trace-rejected", "what": model, "reason": why, "event": ev}})
        if total > min(len(ats), 12):
            self.failures.append(("(%d further rejected events of %s not itemised)" % (total - min(len(ats), 12), label), None))
        return False

    def record_and_validate(self, family, model, args=(), label=None, cfg=None, count_key=None, timeout=3600):
        """Records real executions with `vh record <family>` and validates the trace with spec/<model>.tla.
        A rejected trace becomes a failure carrying the first unexplained event."""
        label = label or model
        trace = self.vh_record(family, label + ".ndjson", list(args), timeout=timeout)
        if trace is None:
            return False
        nlines = sum(1 for _ in open(trace))
        if nlines == 0:
            raise ToolError("empty trace recorded for %s" % label)
        ok, msg, res = self.trace_check(model, trace, cfg=cfg, label=label, timeout=timeout)
        if ok:
            if not any("ACCEPTED" in p for p in res["prints"]):
                raise ToolError("trace %s: TLC finished without evaluating the acceptance condition" % label)
            self.traces_ok += nlines
            self.evaluations += nlines
            self.distinct_nt_extra += distinct_lines(trace)
            with open(trace) as f:
                first = f.readline()
                second = f.readline()
            self.samples.append({"run": label, "events": [json.loads(x) for x in (first, second) if x.strip()]})
        else:
            m = re.search(r'"REJECTED", (\d+)', msg)
            at = int(m.group(1)) if m else None
            ev = None
            if at:
                with open(trace) as f:
                    for i, line in enumerate(f, start=1):
                        if i == at:
                            ev = line.strip()[:4000]
                            break
            self.evaluations += nlines
            self.add_failure({"family": "trace", "case": {"record": family, "args": list(args), "model": model,
                                                          "seed": self.seed, "tier": self.tier, "event_index": at},
                              "detail": {"kind": "trace-rejected", "what": model, "event": ev, "tlc": msg[:1500]}})
        return ok

    # ------------------------------------------------------------------ results
    def replay_path(self, f, n):
        d = os.path.join(OUT, "replays", self.pid)
        os.makedirs(d, exist_ok=True)
        blob = json.dumps(f, sort_keys=True)
        h = hashlib.sha1(blob.encode()).hexdigest()[:10]
        p = os.path.join(d, "%s-%s.json" % (f.get("family", "case"), h))
        with open(p, "w") as out:
            json.dump({"property": self.pid, "seed": self.seed, "tier": self.tier, **f}, out, indent=1)
        return p

    def finish(self):
        known = load_known(self.pid)
        hit = {}
        violations = []
        for sig, f in self.failures:
            if sig in known:
                hit.setdefault(sig, 0)
                hit[sig] += 1
            else:
                violations.append((sig, f))
        for sig, n in hit.items():
            print("KNOWN-FINDING: property=%s %s [%s; %d case(s) in this run]" % (self.pid, known[sig], sig, n))
        shown = set()
        for n, (sig, f) in enumerate(violations):
            if sig in shown and n > 20:
                continue
            shown.add(sig)
            if f is None:
                print("NOTE property=%s %s" % (self.pid, sig))
                continue
            p = self.replay_path(f, n)
            print("VIOLATION property=%s replay=%s" % (self.pid, p))
            print("  signature: %s" % sig)
            d = json.dumps(f.get("detail"))
            print("  detail: %s" % (d[:600]))
        self.write_evidence(len([v for v in violations if v[1] is not None]), hit)
        wall = time.time() - self.t0
        print("%s %s tier=%s states=%d transitions=%d evaluations=%d accepted=%d known=%d violations=%d wall=%.1fs" % (
            "FAIL" if violations else "PASS", self.pid, self.tier, self.states, self.transitions, self.evaluations,
            self.traces_ok, sum(hit.values()), len(violations), wall))
        return 1 if violations else 0

    def count_distinct_nt(self):
        """Distinct non-trivial inputs over all replay runs of this check (hash keys merged across runs) plus
        what checks counted themselves (trace events with distinct content)."""
        n = 0
        if len(self.nt_keys):
            prev = None
            for k in sorted(self.nt_keys):
                if k != prev:
                    n += 1
                    prev = k
        return n + self.distinct_nt_extra

    def write_evidence(self, nviol, hit):
        os.makedirs(os.path.join(OUT, "evidence"), exist_ok=True)
        level = getattr(self.mod, "LEVEL", "model_checking")
        cov = {
            "states": self.states,
            "transitions": self.transitions,
            "traces_validated_against_impl": self.traces_ok,
            "evaluations": self.evaluations,
            "distinct_nontrivial": self.count_distinct_nt(),
            "rule": " | ".join(self.rules) or getattr(self.mod, "RULE", ""),
            "samples": self.samples[:8] if self.samples else [{"note": "no replayed sample in this run"}],
            "exhaustive": bool(self.exhaustive),
            "runs": self.runs,
            "known_findings_hit": hit,
            "explanation": getattr(self.mod, "EXPLANATION", ""),
        }
        ev = {
            "property_id": self.pid,
            "tier": self.tier,
            "seed": self.seed,
            "level": level,
            "coverage": cov,
            "assumptions": list(getattr(self.mod, "ASSUMPTIONS", [])) + self.assumptions,
            "wall_s": round(time.time() - self.t0, 2),
            "violations": nviol,
        }
        with open(os.path.join(OUT, "evidence", self.pid + ".json"), "w") as out:
            json.dump(ev, out, indent=1)

    def replay_file(self, path):
        f = json.load(open(path))
        fam = f.get("family")
        case = f.get("case")
        if not fam or case is None:
            raise ToolError("replay file has no family/case")
        if fam == "trace":
            # a rejected trace is reproduced by recording again with the same seed and tier
            self.seed = int(case.get("seed", self.seed))
            self.tier = case.get("tier", self.tier)
            self.quick = self.tier == "quick"
            self.mod.run(self)
            return self.finish()
        tmp = os.path.join(self.work, "replay.ndjson")
        with open(tmp, "w") as out:
            out.write(json.dumps(case) + "\n")
        extra = dict(f.get("env") or {})
        extra.update(getattr(self.mod, "replay_env", lambda f, ctx: {})(f, self))
        self.vh_replay_file(fam, tmp, "replay", extra_env=extra)
        return self.finish()


INFRA_ENV = {"VERIF_OUT", "VERIF_REPO", "VERIF_SEED", "VERIF_TIER", "VERIF_JOBS", "VERIF_WORK", "VERIF_SLICEC_BIN", "VERIF_FAKEGEN_BIN",
             "VERIF_FILES_TREE"}


def mode_env(e):
    """The VERIF_* switches that select what a family does with a case (not where things live)."""
    return {k: v for k, v in e.items() if k.startswith("VERIF_") and k not in INFRA_ENV}


def distinct_lines(path):
    seen = set()
    with open(path, "rb") as f:
        for line in f:
            seen.add(hashlib.blake2b(line, digest_size=8).digest())
    return len(seen)


def default_signature(f):
    d = f.get("detail") or {}
    return "%s %s %s" % (f.get("family", "?"), d.get("kind", "?"), d.get("what", ""))


def load_known(pid):
    known = {}
    if not os.path.exists(KNOWN):
        return known
    for line in open(KNOWN):
        line = line.strip()
        m = re.match(r"open: property=(\S+) sig=\[(.*?)\] (.*)$", line)
        if m and m.group(1) == pid:
            known[m.group(2)] = m.group(3)
    return known
