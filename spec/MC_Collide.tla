----------------------------------------- MODULE MC_Collide -----------------------------------------
(* C15: name collisions.  Arrangements (arr):                                                        *)
(*  "defmod"   1: module A  declares a definition B (kind k1);  2: module A::B declares X;            *)
(*             3 (optional): module A::B::C declares Y                                                *)
(*  "membermod" 1: module A declares a container N with a member T (a field / operation / enumerator  *)
(*             / parameter: kc);  2: module A::N declares a definition T (kind k1);                   *)
(*             3 (optional): module A::N::T declares Y          - the keys A::N::T coincide           *)
(*  "defdef"   1: module A declares B (kind k1);  2: module A declares B again (kind k2); a user      *)
(*             refers to B - rejected in every order (redefinition)                                   *)
(*  "ppdefine" 1: '#define FLAG';  2: '#if FLAG' around a member (v = "member") or around a           *)
(*             redefinition (v = "redef"): preprocessor symbols are per file                          *)
(* Every permutation of the files must give the same lookup result with the intended table; the      *)
(* as-built last-writer-wins table is order dependent (MC_Collide_asbuilt documents that).            *)
EXTENDS NameTable, TLC, Json
CONSTANT AsBuilt
VARIABLES arr, k1, k2, withC, ref, perm
Kinds1 == {"struct", "enum", "custom", "alias", "interface"}
ContainerKinds == {"field", "operation", "enumerator", "parameter"}
RefsDM == {[scope |-> <<"A">>, segs |-> <<"B">>, global |-> FALSE], [scope |-> <<"A">>, segs |-> <<"B", "X">>, global |-> FALSE],
           [scope |-> <<"A">>, segs |-> <<"A", "B">>, global |-> TRUE], [scope |-> <<"A", "B">>, segs |-> <<"B">>, global |-> FALSE]}
RefsMM == {[scope |-> <<"A", "N">>, segs |-> <<"T">>, global |-> FALSE], [scope |-> <<"A">>, segs |-> <<"N", "T">>, global |-> FALSE],
           [scope |-> <<"A">>, segs |-> <<"A", "N", "T">>, global |-> TRUE], [scope |-> <<"A", "N", "T">>, segs |-> <<"T">>, global |-> FALSE]}
FilesDM == << [mod |-> <<"A">>, ents |-> <<[name |-> "B", kind |-> k1]>>], [mod |-> <<"A", "B">>, ents |-> <<[name |-> "X", kind |-> "struct"]>>],
              [mod |-> <<"A", "B", "C">>, ents |-> <<[name |-> "Y", kind |-> "struct"]>>] >>
FilesMM == << [mod |-> <<"A">>, ents |-> <<[name |-> "N", kind |-> "container"]>>], [mod |-> <<"A", "N">>, ents |-> <<[name |-> "T", kind |-> k1]>>],
              [mod |-> <<"A", "N", "T">>, ents |-> <<[name |-> "Y", kind |-> "struct"]>>] >>
Files3 == IF arr = "membermod" THEN FilesMM ELSE FilesDM
N == IF arr \in {"defmod", "membermod"} THEN (IF withC THEN 3 ELSE 2) ELSE 2
Perms(n) == {p \in [1..n -> 1..n] : \A a, b \in 1..n : a # b => p[a] # p[b]}
Lookups == arr \in {"defmod", "membermod"}
Init == /\ arr \in {"defmod", "membermod", "defdef", "ppdefine"}
        /\ k1 \in Kinds1
        /\ k2 \in (CASE arr = "membermod" -> ContainerKinds [] arr = "defdef" -> Kinds1 [] arr = "ppdefine" -> {"member", "redef"} [] OTHER -> {"-"})
        /\ (arr = "ppdefine" => k1 = "struct")
        /\ withC \in (IF arr \in {"defmod", "membermod"} THEN BOOLEAN ELSE {FALSE})
        /\ ref \in (CASE arr = "defmod" -> RefsDM [] arr = "membermod" -> RefsMM [] OTHER -> {[scope |-> <<"A">>, segs |-> <<"B">>, global |-> FALSE]})
        /\ perm \in Perms(IF arr \in {"defmod", "membermod"} /\ withC THEN 3 ELSE 2)
Next == UNCHANGED <<arr, k1, k2, withC, ref, perm>>
Ordered(p) == [i \in 1..N |-> Files3[p[i]]]
Identity == [i \in 1..N |-> i]
OrderIndependentIntended == Lookups => LookupIntended(Ordered(perm), ref) = LookupIntended(Ordered(Identity), ref)
AsBuiltOrderIndependent == (AsBuilt /\ Lookups) => LookupAsBuilt(Ordered(perm), ref) = LookupAsBuilt(Ordered(Identity), ref)
\* the definition is what a reference designates: neither a module nor a member is ever a type
DefinitionWins ==
  /\ arr = "defmod" => LookupIntended(Ordered(perm), [scope |-> <<"A">>, segs |-> <<"B">>, global |-> FALSE]).kind = k1
  /\ arr = "membermod" => LookupIntended(Ordered(perm), [scope |-> <<"A", "N">>, segs |-> <<"T">>, global |-> FALSE]).kind = k1
\* the permutation is applied by the harness (all of them); one case per arrangement
Emit == perm = Identity => PrintT(<<"CASE", ToJson([arr |-> arr, k1 |-> k1, k2 |-> k2, withC |-> withC, ref |-> ref])>>)
====================================================================================================
