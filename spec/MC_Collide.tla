----------------------------------------- MODULE MC_Collide -----------------------------------------
(* C15: name collisions between a definition and a nested module of another file.  Files:            *)
(*   1: module A      declares a definition named B (kind k1) and a user of the reference             *)
(*   2: module A::B   declares X                                                                      *)
(*   3: module A::B::C (optional) declares Y                                                          *)
(* Every permutation of the files must give the same lookup result (intended table); the as-built    *)
(* last-writer-wins table is order dependent (AsBuiltOrderIndependent is expected to be violated     *)
(* when Dev = TRUE documents the pinned behaviour).                                                   *)
EXTENDS NameTable, TLC, Json
CONSTANT AsBuilt
VARIABLES k1, withC, ref, perm
Kinds1 == {"struct", "enum", "custom", "alias", "interface"}
Refs == {[scope |-> <<"A">>, segs |-> <<"B">>, global |-> FALSE], [scope |-> <<"A">>, segs |-> <<"B", "X">>, global |-> FALSE],
         [scope |-> <<"A">>, segs |-> <<"A", "B">>, global |-> TRUE], [scope |-> <<"A", "B">>, segs |-> <<"B">>, global |-> FALSE]}
Files3 == << [mod |-> <<"A">>, ents |-> <<[name |-> "B", kind |-> k1]>>], [mod |-> <<"A", "B">>, ents |-> <<[name |-> "X", kind |-> "struct"]>>],
             [mod |-> <<"A", "B", "C">>, ents |-> <<[name |-> "Y", kind |-> "struct"]>>] >>
N == IF withC THEN 3 ELSE 2
Perms(n) == {p \in [1..n -> 1..n] : \A a, b \in 1..n : a # b => p[a] # p[b]}
Init == k1 \in Kinds1 /\ withC \in BOOLEAN /\ ref \in Refs /\ perm \in Perms(IF withC THEN 3 ELSE 2)
Next == UNCHANGED <<k1, withC, ref, perm>>
Ordered(p) == [i \in 1..N |-> Files3[p[i]]]
Identity == [i \in 1..N |-> i]
OrderIndependentIntended == LookupIntended(Ordered(perm), ref) = LookupIntended(Ordered(Identity), ref)
AsBuiltOrderIndependent == AsBuilt => LookupAsBuilt(Ordered(perm), ref) = LookupAsBuilt(Ordered(Identity), ref)
\* the definition is what a reference designates: a module is never a type
DefinitionWins == LookupIntended(Ordered(perm), [scope |-> <<"A">>, segs |-> <<"B">>, global |-> FALSE]).kind = k1
Emit == PrintT(<<"CASE", ToJson([k1 |-> k1, withC |-> withC, ref |-> ref, perm |-> perm])>>)
====================================================================================================
