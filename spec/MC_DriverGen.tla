---------------------------------------- MODULE MC_DriverGen ----------------------------------------
(* Scenario enumeration for C07 / C18: each initial state is one run of the real binary.             *)
EXTENDS DriverSpec, TLC, Json
CONSTANTS Family, FaultBehs, MaxGens, TruncLen

VARIABLE scn
Gating == {<<>>, <<"ok1">>, <<"ok1", "exit1">>, <<"ok2", "ok0", "ok1">>, <<"missing", "ok1">>, <<"replykill", "ok1">>}
\* dup: the first source file is listed twice (a DuplicateFile warning is recorded while the files are resolved - before
\* anything is parsed; like every warning it must change neither the gate nor the exit status)
GatingScenarios == [cls : Classes \ {"big"}, errfile : {1, 2}, dry : BOOLEAN, allow : BOOLEAN, outdir : {"absent", "given"},
                    gens : Gating, k : {0}, dup : BOOLEAN]
GenLists == UNION {[1..n -> FaultBehs] : n \in 1..MaxGens}
FaultScenarios == [cls : {"clean"}, errfile : {1}, dry : {FALSE}, allow : {FALSE}, outdir : OutDirs, gens : GenLists, k : {0}, dup : {FALSE}]
\* a valid reply cut at every byte
TruncScenarios == [cls : {"clean"}, errfile : {1}, dry : {FALSE}, allow : {FALSE}, outdir : {"given"},
                   gens : {<<"truncat">>, <<"ok1", "truncat">>}, k : 0..TruncLen, dup : {FALSE}]
\* a request larger than a pipe buffer, and a generator that closes its stdin and floods its stdout: no deadlock
FloodScenarios == [cls : {"big"}, errfile : {1}, dry : {FALSE}, allow : {FALSE}, outdir : {"given"},
                   gens : {<<"closeflood">>, <<"closeflood", "ok1">>, <<"ok1", "closeflood">>, <<"ok1">>, <<"noread", "ok1">>}, k : {0}, dup : {FALSE}]
Init == scn \in (CASE Family = "gating" -> GatingScenarios [] Family = "faults" -> FaultScenarios [] Family = "flood" -> FloodScenarios [] OTHER -> TruncScenarios)
Next == UNCHANGED scn
Emit == PrintT(<<"CASE", ToJson(scn)>>)
====================================================================================================
