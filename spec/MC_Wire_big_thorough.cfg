INIT InitBigValues
NEXT Next
CONSTANTS
  D = 0
  Full16 = FALSE
  StrLen = 0
  FullLen = 0
  RepLen = 0
  Big = {15, 16, 17, 31, 32, 33, 47, 63, 64, 65, 100, 127, 128, 129, 200, 255, 256}
INVARIANTS RoundTripHolds EmitValue
CHECK_DEADLOCK FALSE
