INIT Init
NEXT Next
CONSTANTS
  Family = "attrlists"
  MaxLen = 4
INVARIANT Emit
CHECK_DEADLOCK FALSE
