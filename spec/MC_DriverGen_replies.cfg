INIT Init
NEXT Next
CONSTANTS
  ReplyLen = 2
  Family = "faults"
  FaultBehs = {"ok0", "ok1", "okinfo", "okwarn", "oksource", "trunc1", "truncmid", "trunclast", "badbool", "badutf8", "badutf8cut", "badcontents", "badcontentsmid", "badmsg", "badmsgcut", "badsource", "badsourcecut", "badlevel", "hugesize", "hugestr", "hugecontents", "okshort", "okwide", "empty"}
  MaxGens = 1
  TruncLen = 0
INVARIANT Emit
CHECK_DEADLOCK FALSE
