INIT Init
NEXT Next
CONSTANTS
  Family = "members"
  MaxLen = 3
INVARIANT Emit
CHECK_DEADLOCK FALSE
