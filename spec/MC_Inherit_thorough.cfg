SPECIFICATION Spec
CONSTANTS
  N = 5
  OpNames = {"x"}
  Layouts = {"fwd", "rev", "split"}
INVARIANTS Closure Shadow Emit
CHECK_DEADLOCK FALSE
