INIT Init
NEXT Next
CONSTANTS
  Family = "names"
  MaxLen = 3
INVARIANT Emit
CHECK_DEADLOCK FALSE
