INIT Init
NEXT Next
CONSTANTS
  MaxLen = 5
  MaxDepth = 5
  Syms = {"A", "B"}
  SrcKinds = {"src", "srcw"}
  BlankKinds = {"blank"}
  IfExprs <- IfExprs5
  ElifExprs <- ElifExprs2
  BadVariants = {1, 4, 8}
  WellFormedOnly = FALSE
  MaxToks = 0
  ExprToks <- NoExprs
INVARIANTS RefEqOp Incremental IllFormedIsError StackDepthBound Emit
PROPERTY DefinesOnlyWhenActive
CHECK_DEADLOCK FALSE
