INIT Init
NEXT Next
CONSTANTS
  MaxPlaced = 3
  Positions = {"field", "param", "return", "elem", "key", "value", "resarm", "alias", "underlying", "base"}
  Boxes = {0, 1, 2}
  Kinds = {"struct", "enum", "custom", "alias", "interface"}
INVARIANTS BindingIsDesignated OrderIndependent Emit
CHECK_DEADLOCK FALSE
