------------------------------------------ MODULE MC_Request ----------------------------------------
(* C08 / C01: programs some of whose files declare no module - empty, comments only, or everything     *)
(* removed by the preprocessor.  Such a file has no content; Trace_Schema!Select states that it is not  *)
(* transmitted (the Compiler schema has no way to say "no module").                                    *)
EXTENDS Naturals, Sequences, TLC, Json
FileKinds == {"normal", "normal2", "empty", "commentonly", "ppaway", "blank"}
VARIABLE kinds
Init == kinds \in UNION {[1..n -> FileKinds] : n \in 1..3}
Next == UNCHANGED kinds
Emit == PrintT(<<"CASE", ToJson([kinds |-> kinds])>>)
====================================================================================================
