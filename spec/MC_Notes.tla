------------------------------------------- MODULE MC_Notes ------------------------------------------
(* C09: the snippets of a diagnostic and of its notes.  A diagnostic has a span in one of two files    *)
(* and up to two notes, each without a span or with a span in either file; every snippet must show     *)
(* the line of the file ITS span names (Location!Snippet over that file's lines), under a location     *)
(* line naming that file, row and column - in the order: diagnostic, then the notes as added.          *)
EXTENDS Location, TLC, Json
CONSTANTS MaxNotes
\* the two files differ in every line (the harness also renders class "a" as a different letter per file)
FileLines == << << <<"a", "a", "a">>, <<"tab", "a", "mb3", "a">>, <<"a">> >>,
                << <<"a", "sp", "a", "a", "a", "a">>, <<"mb2", "a">>, <<"a", "a", "tab", "a", "a">> >> >>
\* a few spans per line: a caret at the start, the first character, the last character, the whole line
SpansOn(f, r) == LET n == Len(FileLines[f][r]) IN {<<1, 1>>, <<1, 2>>, <<n, n + 1>>, <<1, n + 1>>}
Places == {[f |-> f, r |-> r, a |-> c[1], b |-> c[2]] : f \in 1..2, r \in 1..3, c \in {<<1, 1>>, <<1, 2>>, <<1, 7>>, <<2, 3>>, <<3, 6>>, <<1, 4>>, <<1, 5>>, <<4, 5>>, <<5, 6>>, <<6, 7>>, <<3, 4>>, <<1, 3>>}}
ValidPlaces == {p \in Places : <<p.a, p.b>> \in SpansOn(p.f, p.r)}
NoSpan == [f |-> 0, r |-> 0, a |-> 0, b |-> 0]
VARIABLES d, notes
Init == /\ d \in ValidPlaces
        /\ notes \in UNION {[1..m -> ValidPlaces \cup {NoSpan}] : m \in 0..MaxNotes}
Next == UNCHANGED <<d, notes>>
Snip(p) == [file |-> p.f, row |-> p.r, col |-> p.a,
            snippet |-> Snippet(FileLines[p.f], 1, [row |-> p.r, col |-> p.a], [row |-> p.r, col |-> p.b])]
Spanned == LET RECURSIVE Go(_)
               Go(i) == IF i > Len(notes) THEN <<>> ELSE (IF notes[i] = NoSpan THEN <<>> ELSE <<Snip(notes[i])>>) \o Go(i + 1)
           IN Go(1)
Emit == PrintT(<<"CASE", ToJson([files |-> FileLines, diag |-> d, notes |-> notes, expect |-> <<Snip(d)>> \o Spanned])>>)
====================================================================================================
