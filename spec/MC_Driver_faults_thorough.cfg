SPECIFICATION Spec
CONSTANTS
  NGen = 3
  PipeCap = 2
  Payload = 3
  ReplyLen = 2
  Mode = "faults"
  Behs = {"ok1", "missing", "exit1", "sigkill", "stderr0", "noread", "truncmid", "empty"}
  AllowReplyFirst = FALSE
INVARIANTS GeneratorsOnlyAfterCleanCompile DryRunMeansNoGenerators WarningsDoNotBlock ExitNonZeroIffError EveryFailureNamesItsGenerator OtherGeneratorsHonoured FilesOnlyFromDecodedReply MeetsExpected DeadlockFree
PROPERTY NoHang
CHECK_DEADLOCK FALSE
