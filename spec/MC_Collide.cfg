INIT Init
NEXT Next
CONSTANT AsBuilt = FALSE
INVARIANTS OrderIndependentIntended AsBuiltOrderIndependent DefinitionWins Emit
CHECK_DEADLOCK FALSE
