INIT Init
NEXT Next
CONSTANTS
  MaxLen = 25
  MaxDepth = 5
  Syms = {"A", "B", "C"}
  SrcKinds = {"src", "srcw"}
  BlankKinds = {"blank", "comment"}
  IfExprs <- IfExprsRich
  ElifExprs <- IfExprs5
  BadVariants = {1, 2, 3, 4, 5, 6, 7, 8, 9, 10, 11, 12, 13, 14, 15}
  WellFormedOnly = FALSE
  MaxToks = 0
  ExprToks <- NoExprs
INVARIANTS RefEqOp Incremental IllFormedIsError StackDepthBound Emit

CHECK_DEADLOCK FALSE
