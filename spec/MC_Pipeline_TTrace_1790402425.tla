---- MODULE MC_Pipeline_TTrace_1790402425 ----
EXTENDS Sequences, TLCExt, Toolbox, Naturals, TLC, MC_Pipeline

_expression ==
    LET MC_Pipeline_TEExpression == INSTANCE MC_Pipeline_TEExpression
    IN MC_Pipeline_TEExpression!expression
----

_trace ==
    LET MC_Pipeline_TETrace == INSTANCE MC_Pipeline_TETrace
    IN MC_Pipeline_TETrace!trace
----

_inv ==
    ~(
        TLCGet("level") = Len(_TETrace)
        /\
        pc = (1)
        /\
        usage = (FALSE)
        /\
        errors = (FALSE)
        /\
        outcome = ("crash")
    )
----

_init ==
    /\ usage = _TETrace[1].usage
    /\ errors = _TETrace[1].errors
    /\ outcome = _TETrace[1].outcome
    /\ pc = _TETrace[1].pc
----

_next ==
    /\ \E i,j \in DOMAIN _TETrace:
        /\ \/ /\ j = i + 1
              /\ i = TLCGet("level")
        /\ usage  = _TETrace[i].usage
        /\ usage' = _TETrace[j].usage
        /\ errors  = _TETrace[i].errors
        /\ errors' = _TETrace[j].errors
        /\ outcome  = _TETrace[i].outcome
        /\ outcome' = _TETrace[j].outcome
        /\ pc  = _TETrace[i].pc
        /\ pc' = _TETrace[j].pc

\* Uncomment the ASSUME below to write the states of the error trace
\* to the given file in Json format. Note that you can pass any tuple
\* to `JsonSerialize`. For example, a sub-sequence of _TETrace.
    \* ASSUME
    \*     LET J == INSTANCE Json
    \*         IN J!JsonSerialize("MC_Pipeline_TTrace_1790402425.json", _TETrace)

=============================================================================

 Note that you can extract this module `MC_Pipeline_TEExpression`
  to a dedicated file to reuse `expression` (the module in the 
  dedicated `MC_Pipeline_TEExpression.tla` file takes precedence 
  over the module `MC_Pipeline_TEExpression` below).

---- MODULE MC_Pipeline_TEExpression ----
EXTENDS Sequences, TLCExt, Toolbox, Naturals, TLC, MC_Pipeline

expression == 
    [
        \* To hide variables of the `MC_Pipeline` spec from the error trace,
        \* remove the variables below.  The trace will be written in the order
        \* of the fields of this record.
        usage |-> usage
        ,errors |-> errors
        ,outcome |-> outcome
        ,pc |-> pc
        
        \* Put additional constant-, state-, and action-level expressions here:
        \* ,_stateNumber |-> _TEPosition
        \* ,_usageUnchanged |-> usage = usage'
        
        \* Format the `usage` variable as Json value.
        \* ,_usageJson |->
        \*     LET J == INSTANCE Json
        \*     IN J!ToJson(usage)
        
        \* Lastly, you may build expressions over arbitrary sets of states by
        \* leveraging the _TETrace operator.  For example, this is how to
        \* count the number of times a spec variable changed up to the current
        \* state in the trace.
        \* ,_usageModCount |->
        \*     LET F[s \in DOMAIN _TETrace] ==
        \*         IF s = 1 THEN 0
        \*         ELSE IF _TETrace[s].usage # _TETrace[s-1].usage
        \*             THEN 1 + F[s-1] ELSE F[s-1]
        \*     IN F[_TEPosition - 1]
    ]

=============================================================================



Parsing and semantic processing can take forever if the trace below is long.
 In this case, it is advised to uncomment the module below to deserialize the
 trace from a generated binary file.

\*
\*---- MODULE MC_Pipeline_TETrace ----
\*EXTENDS IOUtils, TLC, MC_Pipeline
\*
\*trace == IODeserialize("MC_Pipeline_TTrace_1790402425.bin", TRUE)
\*
\*=============================================================================
\*

---- MODULE MC_Pipeline_TETrace ----
EXTENDS TLC, MC_Pipeline

trace == 
    <<
    ([pc |-> 1,usage |-> FALSE,errors |-> FALSE,outcome |-> "running"]),
    ([pc |-> 1,usage |-> FALSE,errors |-> FALSE,outcome |-> "crash"])
    >>
----


=============================================================================

---- CONFIG MC_Pipeline_TTrace_1790402425 ----
CONSTANTS
    Mode = "bin"
    Dev <- PinnedDev

INVARIANT
    _inv

CHECK_DEADLOCK
    \* CHECK_DEADLOCK off because of PROPERTY or INVARIANT above.
    FALSE

INIT
    _init

NEXT
    _next

CONSTANT
    _TETrace <- _trace

ALIAS
    _expression
=============================================================================
\* Generated on Sat Sep 26 06:00:26 UTC 2026