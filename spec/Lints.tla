-------------------------------------------- MODULE Lints -------------------------------------------
(* Lint suppression (diagnostics/diagnostic.rs into_updated, grammar/traits.rs all_attributes,       *)
(* grammar/attributes/allow.rs, the scope each lint records; C13).                                   *)
(* A case: one lint site (which lint, on which kind of element), one suppression (where, naming      *)
(* what).  Reference: RefSilenced, the statement read literally.  Operational: the three stages of   *)
(* into_updated - command line list, attributes of the file of the lint's span, attributes of the    *)
(* entity found by the scope the lint recorded and of its parents.                                   *)
EXTENDS Naturals, Sequences, FiniteSets

\* site -> [kind, span (the lint has a location), chain (which of own / parent / grandparent exist)]
Sites == {"field_type", "nested_type", "param_type", "ret_type", "alias_target", "base", "link_def", "link_member", "link_op",
          "link_enumerator", "incorrect_def", "incorrect_op", "incorrect_ret_void", "incorrect_ret_single", "incorrect_ret_tuple",
          "malformed_def", "malformed_member", "dupfile"}
KindOf(s) == CASE s \in {"field_type", "nested_type", "param_type", "ret_type", "alias_target", "base"} -> "Deprecated"
               [] s \in {"link_def", "link_member", "link_op", "link_enumerator"} -> "BrokenDocLink"
               [] s \in {"incorrect_def", "incorrect_op", "incorrect_ret_void", "incorrect_ret_single", "incorrect_ret_tuple"} -> "IncorrectDocComment"
               [] s \in {"malformed_def", "malformed_member"} -> "MalformedDocComment"
               [] s = "dupfile" -> "DuplicateFile"
HasSpan(s) == s # "dupfile"
HasParent(s) == s \in {"field_type", "nested_type", "param_type", "ret_type", "link_member", "link_op", "link_enumerator", "incorrect_op", "incorrect_ret_void", "incorrect_ret_single", "incorrect_ret_tuple", "malformed_member"}
HasGrandparent(s) == s \in {"param_type", "ret_type"}
Places == {"none", "cli", "cli_lower", "file_own", "file_other", "own", "parent", "grandparent", "sibling"}
Applicable(s, p) == /\ (p = "parent" => HasParent(s)) /\ (p = "grandparent" => HasGrandparent(s))
                    /\ (s = "dupfile" => p \in {"none", "cli", "cli_lower", "file_own"})
ArgSets == {<<"SAME">>, <<"All">>, <<"OTHER">>, <<"SAME", "OTHER">>, <<"OTHER", "All">>}
ToSet(a) == {a[i] : i \in 1..Len(a)}
Names(args) == "All" \in ToSet(args) \/ "SAME" \in ToSet(args)

\* ---- reference: the statement
RefSilenced(s, p, args) ==
  /\ Names(args)
  /\ \/ p \in {"cli", "cli_lower"}                                      \* an --allow value that the command line accepts
     \/ p = "file_own" /\ HasSpan(s)                                    \* an allow attribute on the file it occurs in
     \/ p \in {"own", "parent", "grandparent"} /\ HasSpan(s)            \* on the element it concerns or a definition enclosing it

\* ---- operational: into_updated.  scopeIs: which entity the recorded scope string names
\*   "own" | "parent" | "grandparent" | "nothing" (no scope, or a scope that names no entity)
ScopeEntity(s, dev) ==
  CASE s \in {"field_type", "nested_type"} -> IF dev THEN "parent" ELSE "own"          \* pinned tree: the type reference's parser scope = the container
    [] s \in {"param_type", "ret_type"} -> IF dev THEN "parent" ELSE "own"             \* pinned tree: the operation
    [] s = "alias_target" -> IF dev THEN "nothing" ELSE "own"                          \* pinned tree: the module, which is no entity
    [] s = "dupfile" -> "nothing"
    [] OTHER -> "own"
\* attributes consulted in stage 3: those of the scope entity and of its parents (all_attributes)
Consulted(s, dev) == CASE ScopeEntity(s, dev) = "own" -> {"own", "parent", "grandparent"}
                       [] ScopeEntity(s, dev) = "parent" -> {"parent", "grandparent"}
                       [] ScopeEntity(s, dev) = "grandparent" -> {"grandparent"}
                       [] OTHER -> {}
OpSilenced(s, p, args, dev, cliCaseDev) ==
  LET stage1 == (p = "cli" /\ Names(args)) \/ (p = "cli_lower" /\ Names(args) /\ ~cliCaseDev)
      stage2 == HasSpan(s) /\ p = "file_own" /\ Names(args)
      stage3 == p \in Consulted(s, dev) /\ Names(args) IN
  stage1 \/ stage2 \/ stage3
====================================================================================================
