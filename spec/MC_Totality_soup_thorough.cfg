INIT Init
NEXT Next
CONSTANTS
  COMMA = ","
  EQ = "="
  BSL = "b"
  WS = {"s"}
  Family = "soup"
  MaxSoup = 3
  ScaleTier = "thorough"
INVARIANTS Emit
CHECK_DEADLOCK FALSE
