SPECIFICATION Spec
CONSTANTS
  N = 7
INVARIANTS PrefixOfReference ExactlyOnce ContainersFirst Complete WalkIsRun
PROPERTY Terminates
CHECK_DEADLOCK FALSE
