INIT Init
NEXT Next
CONSTANTS
  Ns = {2, 3}
  Variants = {2}
  Mixed = {FALSE}
  KindPats = {"struct"}
  Compacts = {FALSE}
  MaxEdges = 3
  Family = "contain"
INVARIANT Emit
CHECK_DEADLOCK FALSE
