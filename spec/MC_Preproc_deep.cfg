INIT InitDeep
NEXT NextExpr
CONSTANTS
  MaxLen = 5
  MaxDepth = 5
  SrcKinds = {"src"}
  BlankKinds = {}
  Syms = {"A", "B", "C"}
  IfExprs <- NoExprs
  ElifExprs <- NoExprs
  BadVariants = {}
  WellFormedOnly = FALSE
  MaxToks = 4
  ExprToks <- AllToks
INVARIANTS RefEqOp ExprRefEqParse Emit
CHECK_DEADLOCK FALSE
