----------------------------------------- MODULE MC_WrongKind ---------------------------------------
(* C03: "a reference that designates nothing, or something of the wrong kind, is an error - never a    *)
(* silent binding to something else" for the two positions that take a NAMED entity of one kind only:  *)
(* the base list of an interface (interfaces) and the underlying type of an enum (integral built-in    *)
(* types, also through aliases).  What is written there may be a built-in keyword or an anonymous      *)
(* type - things the parser binds itself, so that they never reach the name lookup.                    *)
EXTENDS Naturals, Sequences, TLC, Json
VARIABLES pos, written
\* J: an interface; K: another interface; S: a struct; Small: an alias of uint8; Wide: an alias of Sequence<uint8>
Written == {"J", "K", "S", "Small", "Wide", "string", "int32", "uint8", "bool", "Sequence<bool>", "Dictionary<string, bool>", "Result<J, string>", "Missing"}
Positions == {"base", "base_second", "base_first_of_two", "underlying"}
Init == pos \in Positions /\ written \in Written
Next == UNCHANGED <<pos, written>>
Suitable == IF pos = "underlying" THEN written \in {"int32", "uint8", "Small"} ELSE written \in {"J", "K"}
\* how many bases the interface has when the program is accepted
Bases == CASE pos = "base" -> 1 [] pos = "underlying" -> 0 [] OTHER -> 2
Emit == PrintT(<<"CASE", ToJson([wrongkind |-> TRUE, pos |-> pos, written |-> written, accepted |-> Suitable, bases |-> Bases])>>)
====================================================================================================
