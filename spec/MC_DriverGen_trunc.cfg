INIT Init
NEXT Next
CONSTANTS
  ReplyLen = 2
  Family = "trunc"
  FaultBehs = {}
  MaxGens = 0
  TruncLen = 59
INVARIANT Emit
CHECK_DEADLOCK FALSE
