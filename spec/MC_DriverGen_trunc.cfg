INIT Init
NEXT Next
CONSTANTS
  ReplyLen = 2
  Family = "trunc"
  FaultBehs = {}
  MaxGens = 0
  TruncLen = 68
INVARIANT Emit
CHECK_DEADLOCK FALSE
