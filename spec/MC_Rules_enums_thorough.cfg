INIT Init
NEXT Next
CONSTANTS
  Family = "enums"
  MaxLen = 3
INVARIANT Emit
CHECK_DEADLOCK FALSE
