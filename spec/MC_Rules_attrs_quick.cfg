INIT Init
NEXT Next
CONSTANTS
  Family = "attrs"
  MaxLen = 3
INVARIANT Emit
CHECK_DEADLOCK FALSE
