INIT Init
NEXT Next
CONSTANTS
  Family = "enums"
  MaxLen = 2
INVARIANT Emit
CHECK_DEADLOCK FALSE
