INIT Init
NEXT Next
CONSTANT AsBuilt = TRUE
INVARIANTS OrderIndependentIntended AsBuiltOrderIndependent DefinitionWins Emit
CHECK_DEADLOCK FALSE
