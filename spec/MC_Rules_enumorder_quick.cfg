INIT Init
NEXT Next
CONSTANTS
  Family = "enumorder"
  MaxLen = 4
INVARIANT Emit
CHECK_DEADLOCK FALSE
