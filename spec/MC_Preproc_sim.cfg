INIT Init
NEXT Next
CONSTANTS
  MaxLen = 40
  MaxDepth = 5
  Syms = {"A", "B", "C"}
  SrcKinds = {"src", "srcw"}
  BlankKinds = {"blank", "comment"}
  IfExprs <- IfExprsRich
  ElifExprs <- IfExprs5
  BadVariants = {}
  WellFormedOnly = TRUE
  MaxToks = 0
  ExprToks <- NoExprs
INVARIANTS RefEqOp Incremental IllFormedIsError StackDepthBound Emit

CHECK_DEADLOCK FALSE
