INIT InitBytes
NEXT Next
CONSTANTS
  D = 0
  Full16 = FALSE
  StrLen = 0
  FullLen = 1
  RepLen = 3
  Big = {}
INVARIANTS Total DecodedIsEncodable EmitBytes
CHECK_DEADLOCK FALSE
