------------------------------------------ MODULE MC_Lints ------------------------------------------
EXTENDS Lints, TLC, Json
CONSTANTS Dev, CliCaseDev
VARIABLES s, p, args, extra
\* 'DuplicateFile' is no valid argument of the allow attribute (it is a command-line lint): not written in attributes
\* a second, unrelated suppression (naming only the OTHER lint) present with and without the suppression under test: as a
\* separate attribute in front of it on the element itself, on its parent, or as a separate file attribute
Extras == {"none", "own_other", "parent_other", "file_other_attr"}
ExtraApplicable == /\ (extra # "none" => p \in {"own", "parent", "grandparent", "file_own"} /\ s # "dupfile")
                   /\ (extra = "parent_other" => HasParent(s))
Init == s \in Sites /\ p \in Places /\ args \in ArgSets /\ Applicable(s, p) /\ extra \in Extras /\ ExtraApplicable
        /\ ~(s = "dupfile" /\ p = "file_own" /\ "SAME" \in ToSet(args))
Next == UNCHANGED <<s, p, args, extra>>
\* the intended implementation (Dev flags off) silences exactly what the statement says; with the flags of the pinned
\* tree the equivalence fails (allow on a member vs Deprecated about its type; lower-case --allow)
RefEqOp == RefSilenced(s, p, args) = OpSilenced(s, p, args, Dev, CliCaseDev)
Emit == PrintT(<<"CASE", ToJson([site |-> s, kind |-> KindOf(s), place |-> p, args |-> args, extra |-> extra, silenced |-> RefSilenced(s, p, args)])>>)
====================================================================================================
