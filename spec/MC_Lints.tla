------------------------------------------ MODULE MC_Lints ------------------------------------------
EXTENDS Lints, TLC, Json
CONSTANTS Dev, CliCaseDev
VARIABLES s, p, args
\* 'DuplicateFile' is no valid argument of the allow attribute (it is a command-line lint): not written in attributes
Init == s \in Sites /\ p \in Places /\ args \in ArgSets /\ Applicable(s, p)
        /\ ~(s = "dupfile" /\ p = "file_own" /\ "SAME" \in ToSet(args))
Next == UNCHANGED <<s, p, args>>
\* the intended implementation (Dev flags off) silences exactly what the statement says; with the flags of the pinned
\* tree the equivalence fails (allow on a member vs Deprecated about its type; lower-case --allow)
RefEqOp == RefSilenced(s, p, args) = OpSilenced(s, p, args, Dev, CliCaseDev)
Emit == PrintT(<<"CASE", ToJson([site |-> s, kind |-> KindOf(s), place |-> p, args |-> args, silenced |-> RefSilenced(s, p, args)])>>)
====================================================================================================
