INIT Init
NEXT Next
CONSTANTS
  Dev = TRUE
  CliCaseDev = TRUE
INVARIANT RefEqOp
CHECK_DEADLOCK FALSE
