------------------------------------------ MODULE DocComment ----------------------------------------
(* Doc comments (parsers/comments/{lexer.rs, grammar.lalrpop, grammar.rs}, patchers/                 *)
(* comment_link_patcher.rs, validators/comments.rs; C16).                                           *)
(*                                                                                                  *)
(* A comment line is what follows '///': an indentation (sequence of white-space classes sp / wide / *)
(* tab) and a content kind:                                                                          *)
(*    "t"   alpha                  "tl"  see {@link T} ok        "lt"  {@link T} tail                 *)
(*    "tll" head {@link T}         "ws"  nothing but the indentation        "blank"  nothing at all    *)
(* Reference  : the message is the written lines minus their common indentation - the minimum number *)
(*              of leading white-space CHARACTERS over the lines that have content - line breaks     *)
(*              kept.                                                                                *)
(* Operational: sanitize_message_lines - the first component of each line decides: a text component  *)
(*              contributes the index of its first non-blank character, a link contributes 0.        *)
(*              Deviations of the pinned tree are named: byteIndent (byte offsets instead of          *)
(*              characters), linkDisablesDedent (white-space-only text before a link counts as 0),    *)
(*              blankWsLineDisablesDedent (a white-space-only line counts as 0).                      *)
EXTENDS Naturals, Sequences, FiniteSets

Indents == {<<>>, <<"sp">>, <<"sp", "sp">>, <<"sp", "sp", "sp">>, <<"wide">>, <<"tab", "sp">>, <<"wide", "sp">>}
Kinds == {"t", "tl", "lt", "tll", "ws", "blank"}
Lines == [indent : Indents, k : Kinds]
HasContent(l) == l.k \in {"t", "tl", "lt", "tll"}
Width(l) == IF l.k = "blank" THEN 0 ELSE Len(l.indent)
Bytes(cls) == CASE cls = "wide" -> 3 [] OTHER -> 1

Min(S) == CHOOSE x \in S : \A y \in S : x <= y

\* ---- reference
RefCommon(ls) == LET ws == {Width(ls[i]) : i \in {j \in 1..Len(ls) : HasContent(ls[j])}} IN IF ws = {} THEN 0 ELSE Min(ws)
\* what remains of a line: the indentation beyond the common part, then the content
RefLine(l, c) == IF l.k = "blank" THEN [ws |-> <<>>, k |-> "blank"]
                 ELSE [ws |-> SubSeq(l.indent, c + 1, Len(l.indent)), k |-> l.k]
RefMessage(ls) == [i \in 1..Len(ls) |-> RefLine(ls[i], RefCommon(ls))]

\* ---- operational (with the named deviations)
\* the "white-space index" a line contributes, or -1 when it does not take part
OpContribution(l, dev) ==
  CASE l.k = "blank" -> 0 - 1
    [] l.k = "ws" -> IF dev.blankWsLineDisablesDedent THEN 0 ELSE 0 - 1
    [] l.k = "lt" -> IF dev.linkDisablesDedent THEN 0 ELSE Len(l.indent)         \* first component: white space only, then the link
    [] OTHER -> Len(l.indent)
OpCommon(ls, dev) == LET ws == {OpContribution(ls[i], dev) : i \in 1..Len(ls)} \ {0 - 1} IN IF ws = {} THEN 0 ELSE Min(ws)
OpMessage(ls, dev) == [i \in 1..Len(ls) |-> RefLine(ls[i], OpCommon(ls, dev))]
\* with byte offsets a common width can fall inside a multi-byte character: replace_range panics
RECURSIVE ByteLen(_, _)
ByteLen(ind, n) == IF n = 0 THEN 0 ELSE Bytes(ind[n]) + ByteLen(ind, n - 1)
ByteCutOk(ls) ==
  LET bs == {ByteLen(ls[i].indent, Len(ls[i].indent)) : i \in {j \in 1..Len(ls) : HasContent(ls[j])}}
      c == IF bs = {} THEN 0 ELSE Min(bs) IN
  \A i \in 1..Len(ls) : ls[i].k = "blank" \/ \E n \in 0..Len(ls[i].indent) : ByteLen(ls[i].indent, n) = c \/ ByteLen(ls[i].indent, Len(ls[i].indent)) < c
Intended == [blankWsLineDisablesDedent |-> FALSE, linkDisablesDedent |-> FALSE]
AsBuilt  == [blankWsLineDisablesDedent |-> TRUE, linkDisablesDedent |-> TRUE]
====================================================================================================
