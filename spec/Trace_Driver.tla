--------------------------------------- MODULE Trace_Driver ----------------------------------------
(* Trace validation for C07 / C18: every observed run of the real slicec binary with fake generators *)
(* must be what DriverSpec!Expected demands for its scenario.                                        *)
(* event: [ev |-> "run", cls, errfile, dry, allow, dup, outdir, gens,                                   *)
(*         obs |-> [exit, started, captured, same_request, named, errors, warnings, file_errors,     *)
(*                  foreign_lines, filers, stray, preexisting_ok, crashed, elapsed_ms]]              *)
EXTENDS DriverSpec, TLC, Json, IOUtils

Rec == ndJsonDeserialize(IOEnv.TRACE)
ToSet(s) == {s[i] : i \in 1..Len(s)}

VARIABLE l
\* runs are independent: a rejected run is remembered (TLC register 1) and validation continues with the next one
Init == l = 1 /\ TLCSet(1, <<>>)

RunOk(e) ==
  LET scn == [cls |-> e.cls, dry |-> e.dry, outdir |-> e.outdir, gens |-> e.gens]
      x == Expected(scn)
      o == e.obs
      fileErr == Runs(scn) /\ ~Storable(scn) /\ \E i \in Gens(scn) : NFilesOf(scn.gens[i]) > 0 IN
  /\ ~o.crashed                                             \* never fatal
  /\ o.elapsed_ms <= 20000                                  \* never hangs
  /\ o.exit = x.exit                                        \* non-zero exactly when an error was reported ...
  /\ (o.exit # 0) <=> (o.errors > 0)                        \* ... and an error diagnostic was actually emitted
  /\ ToSet(o.started) = x.started                           \* all startable generators run - or none (C07 gate, --dry-run)
  /\ ToSet(o.captured) = {i \in x.started : scn.gens[i] \notin {"noread", "closeflood"}}
  /\ o.same_request                                         \* identical request + own arguments
  /\ ToSet(o.named) = x.failed                              \* one error names each failing generator, and only those
  /\ ToSet(o.filers) = x.filers                             \* files only from successfully decoded replies, others honoured
  /\ o.stray = 0
  /\ o.preexisting_ok                                       \* an identical file is left untouched
  /\ fileErr <=> (o.file_errors > 0)
  /\ o.foreign_lines = 0                                    \* nothing else on the diagnostic stream
  /\ (e.allow => o.warnings = 0)
  /\ (e.cls \in WarnClasses /\ ~e.allow => o.warnings > 0)        \* warnings alone never prevent generation (see started)
  /\ (e.dup /\ ~e.allow /\ e.cls \notin {"err_io", "err_io_ext", "err_io_dir"} => o.warnings > 0)  \* a file listed twice: a warning, and nothing else changes

Step == /\ l <= Len(Rec)
        /\ IF Rec[l].ev = "run" /\ RunOk(Rec[l]) THEN TRUE ELSE TLCSet(1, Append(TLCGet(1), l))
        /\ l' = l + 1
Spec == Init /\ [][Step]_l

Accepted == LET d == TLCGet("stats").diameter  b == TLCGet(1) IN
            IF d - 1 = Len(Rec) /\ b = <<>> THEN PrintT(<<"ACCEPTED", Len(Rec)>>)
            ELSE /\ PrintT(<<"REJECTED-COUNT", Len(b), "of", Len(Rec), "consumed", d - 1>>)
                 /\ \A i \in 1..(IF Len(b) < 12 THEN Len(b) ELSE 12) : PrintT(<<"REJECTED", b[i], ToJson([event |-> Rec[b[i]]])>>)
                 /\ FALSE
====================================================================================================
