INIT Init
NEXT Next
CONSTANTS
  COMMA = ","
  EQ = "="
  BSL = "b"
  WS = {"s"}
  Family = "soup"
  MaxSoup = 2
  ScaleTier = "quick"
INVARIANTS Emit
CHECK_DEADLOCK FALSE
