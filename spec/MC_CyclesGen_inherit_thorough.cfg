INIT Init
NEXT Next
CONSTANTS
  Ns = {4}
  Variants = {1}
  Mixed = {FALSE}
  KindPats = {"struct"}
  Compacts = {FALSE}
  MaxEdges = 16
  Family = "inherit"
INVARIANT Emit
CHECK_DEADLOCK FALSE
