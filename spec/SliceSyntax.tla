----------------------------------------- MODULE SliceSyntax ----------------------------------------
(* A generative model of the Slice grammar (slicec/src/parsers/slice/{lexer.rs, grammar.lalrpop,    *)
(* grammar.rs, parser.rs}) used as generator and oracle for C02 (source-to-AST fidelity), C09        *)
(* (locations), C20 (traversal) and C08 (generator request).                                        *)
(*                                                                                                  *)
(* Layer 1, construction: an abstract program is built by actions that mirror grammar productions   *)
(*   (NewFile, BeginStruct, AddField, BeginEnum, AddEnumerator, BeginInterface, AddOperation,        *)
(*   AddParam, AddReturn, AddCustom, AddAlias, EndDef, Finish) together with the parser's own state: *)
(*   scope (stack of open containers) and prevEnum (previous enumerator value).  Types are built by  *)
(*   a small stack machine (TLeaf, TSeq, TDict, TRes, TOpt, TAttr).                                  *)
(* Layer 2, printing: Toks(prog) yields the token sequence, every token tagged with the path of the  *)
(*   element it belongs to and its role; Place threads the cursor of Location through separators and *)
(*   tokens (rows / columns counted in characters).                                                  *)
(* Layer 3, expectation: the program itself is the expected AST (nothing layout- or spelling-        *)
(*   dependent occurs in it); alias references are replaced by what they finally name.               *)
EXTENDS Naturals, Integers, Sequences, FiniteSets, FiniteSetsExt, TLC, NumTable

Keywords == {"module", "struct", "interface", "enum", "custom", "typealias", "Result", "Sequence", "Dictionary", "bool", "int8",
             "uint8", "int16", "uint16", "int32", "uint32", "varint32", "varuint32", "int64", "uint64", "varint62", "varuint62",
             "float32", "float64", "string", "compact", "idempotent", "stream", "tag", "unchecked"}
Prims == {"bool", "int8", "uint8", "int16", "uint16", "int32", "uint32", "varint32", "varuint32", "int64", "uint64",
          "varint62", "varuint62", "float32", "float64", "string"}
KeyPrims == Prims \ {"float32", "float64"}

----------------------------------------------------------------------------------------------------
(* Tokens                                                                                           *)

\* string literal table: id -> number of characters of the raw text between the quotes (the harness holds the texts)
StrRawLen == <<5, 4, 11, 6, 6, 0, 11, 7, 10, 5>>
StrIds == 1..Len(StrRawLen)

W(s)       == [k |-> "w", s |-> s]              \* keyword, punctuation or plain identifier
EscId(s)   == [k |-> "esc", s |-> s]            \* identifier written with a leading backslash
NumTok(s)  == [k |-> "num", s |-> s]
StrTok(id) == [k |-> "str", id |-> id]
DocTok(id) == [k |-> "doc", id |-> id]          \* a '///' line (must be followed by a line break)
Width(t) == CASE t.k = "w" -> Len(t.s) [] t.k = "esc" -> Len(t.s) + 1 [] t.k = "num" -> Len(t.s)
              [] t.k = "str" -> StrRawLen[t.id] + 2 [] t.k = "doc" -> 3 + 6

\* an identifier outside attribute brackets: keywords must be escaped; others may be
IdTok(name, escAll) == IF name \in Keywords \/ escAll THEN EscId(name) ELSE W(name)

T(tok, el, role) == [tok |-> tok, el |-> el, role |-> role]
P(s) == T(W(s), <<>>, "punct")                   \* punctuation that belongs to no element

----------------------------------------------------------------------------------------------------
(* Printing                                                                                         *)

\* ch: printing choices [escAll, seed]; Coin(ch, i) is a pseudo-random bit for position i
Coin(ch, i) == (((ch.seed * 31) + (i * 17) + ((i * i) % 7)) % 3) = 0

RECURSIVE SplitSegs(_), AttrToks(_, _, _), AttrsToks(_, _, _, _, _), TypeToks(_, _, _), ArgsToks(_, _, _, _)
\* a scoped name is a sequence of segments; "" as the first segment means a leading '::'
\* inAttr: inside attribute brackets keywords are plain identifiers; elsewhere a segment that is a keyword is escaped
ScopedToksE(segs, el, role, inAttr) ==
  LET RECURSIVE Go(_)
      Go(i) == IF i > Len(segs) THEN <<>>
               ELSE (IF segs[i] = "" THEN <<>> ELSE <<T(IF inAttr THEN W(segs[i]) ELSE IdTok(segs[i], FALSE), el, role)>>)
                    \o (IF i < Len(segs) THEN <<T(W("::"), el, role)>> ELSE <<>>) \o Go(i + 1)
  IN Go(1)
ScopedToks(segs, el, role) == ScopedToksE(segs, el, role, TRUE)
SplitSegs(x) == x

ArgsToks(args, i, el, ch) ==
  IF i > Len(args) THEN <<>>
  ELSE <<T(IF args[i].q THEN StrTok(args[i].id) ELSE W(args[i].s), el, "part")>>
       \o (IF i < Len(args) \/ Coin(ch, i + 3) THEN <<T(W(","), el, "part")>> ELSE <<>>) \o ArgsToks(args, i + 1, el, ch)
\* attribute = directive (scoped) + optional argument list; its tokens are the attribute's exact span
AttrToks(a, el, ch) ==
  ScopedToks(a.d, el, "part")
  \o (IF a.paren THEN <<T(W("("), el, "part")>> \o ArgsToks(a.args, 1, el, ch) \o <<T(W(")"), el, "part")>> ELSE <<>>)
\* owner: path of the element the brackets belong to for the purposes of spans (<<>> for definition preludes: the
\* declaration proper starts after them; the type reference's own path for local attributes of a type)
AttrsToks(as, i, el, owner, ch) ==
  IF i > Len(as) THEN <<>>
  ELSE <<T(W("["), owner, "part")>> \o AttrToks(as[i], el \o <<"a", i>>, ch) \o <<T(W("]"), owner, "part")>>
       \o AttrsToks(as, i + 1, el, owner, ch)

TypeToks(tr, el, ch) ==
  LET o == IF tr.opt THEN <<T(W("?"), el, "part")>> ELSE <<>>
      pre == AttrsToks(tr.attrs, 1, el, el, ch)
      t == tr.t IN
  pre \o
  (CASE t.f = "prim"  -> <<T(W(t.n), el, "part")>>
     [] t.f = "named" -> ScopedToksE(t.w, el, "part", FALSE)
     [] t.f = "seq"   -> <<T(W("Sequence"), el, "part"), T(W("<"), el, "part")>> \o TypeToks(t.e, el \o <<"e">>, ch) \o <<T(W(">"), el, "part")>>
     [] t.f = "dict"  -> <<T(W("Dictionary"), el, "part"), T(W("<"), el, "part")>> \o TypeToks(t.k, el \o <<"k">>, ch)
                         \o <<T(W(","), el, "part")>> \o TypeToks(t.v, el \o <<"v">>, ch) \o <<T(W(">"), el, "part")>>
     [] t.f = "res"   -> <<T(W("Result"), el, "part"), T(W("<"), el, "part")>> \o TypeToks(t.s, el \o <<"s">>, ch)
                         \o <<T(W(","), el, "part")>> \o TypeToks(t.x, el \o <<"x">>, ch) \o <<T(W(">"), el, "part")>>)
  \o o

NumToks(n, el) == (IF n.neg THEN <<T(W("-"), el, "part")>> ELSE <<>>) \o <<T(NumTok(n.lit), el, "part")>>

\* field / parameter / return-tuple member:  [tag(N)] name : [stream] Type
MemberToks(m, el, ch) ==
  AttrsToks(m.attrs, 1, el, <<>>, ch)
  \o (IF m.tag # <<>>
      THEN <<T(W("tag"), el, "first"), T(W("("), el, "part")>> \o NumToks(m.tag[1], el \o <<"tag">>) \o <<T(W(")"), el, "part")>>
           \o <<T(IdTok(m.name, ch.escAll), el \o <<"id">>, "name")>>
      ELSE <<T(IdTok(m.name, ch.escAll), el \o <<"id">>, "first+name")>>)
  \o <<T(W(":"), el, "part")>>
  \o (IF m.stream THEN <<T(W("stream"), el, "part")>> ELSE <<>>)
  \o TypeToks(m.type, el \o <<"t">>, ch)

RECURSIVE MembersToks(_, _, _, _, _)
\* an undelimited list: a comma may follow each element
MembersToks(ms, i, el, tagc, ch) ==
  IF i > Len(ms) THEN <<>>
  ELSE MemberToks(ms[i], el \o <<tagc, i>>, ch) \o (IF Coin(ch, i + Len(el)) THEN <<P(",")>> ELSE <<>>) \o MembersToks(ms, i + 1, el, tagc, ch)

EnumeratorToks(e, el, ch) ==
  AttrsToks(e.attrs, 1, el, <<>>, ch)
  \o <<T(IdTok(e.name, ch.escAll), el \o <<"id">>, "first+name")>>
  \o (IF e.fields # <<>> THEN <<T(W("("), el, "part")>> \o MembersToks(e.fields[1], 1, el, "m", ch) \o <<T(W(")"), el, "part")>> ELSE <<>>)
  \o (IF e.explicit THEN <<T(W("="), el, "part")>> \o NumToks(e.num, el \o <<"val">>) ELSE <<>>)
RECURSIVE EnumeratorsToks(_, _, _, _)
EnumeratorsToks(es, i, el, ch) ==
  IF i > Len(es) THEN <<>>
  ELSE EnumeratorToks(es[i], el \o <<"n", i>>, ch) \o (IF Coin(ch, i + 1) THEN <<P(",")>> ELSE <<>>) \o EnumeratorsToks(es, i + 1, el, ch)

OpToks(o, el, ch) ==
  AttrsToks(o.attrs, 1, el, <<>>, ch)
  \o (IF o.idem THEN <<T(W("idempotent"), el, "first"), T(IdTok(o.name, ch.escAll), el \o <<"id">>, "name")>>
      ELSE <<T(IdTok(o.name, ch.escAll), el \o <<"id">>, "first+name")>>)
  \o <<T(W("("), el, "part")>> \o MembersToks(o.params, 1, el, "p", ch) \o <<T(W(")"), el, "part")>>
  \o (IF o.rets = <<>> THEN <<>>
      ELSE IF o.single
      THEN LET r == o.rets[1]  rl == el \o <<"r", 1>> IN
           <<T(W("->"), el, "part")>>
           \o (IF r.tag # <<>> THEN <<T(W("tag"), rl, "first"), T(W("("), rl, "part")>> \o NumToks(r.tag[1], rl \o <<"tag">>) \o <<T(W(")"), rl, "part")>> ELSE <<>>)
           \o (IF r.stream THEN <<T(W("stream"), rl, IF r.tag = <<>> THEN "first" ELSE "part")>> ELSE <<>>)
           \o TypeToks(r.type, rl \o <<"t">>, ch)
      ELSE <<T(W("->"), el, "part"), T(W("("), el, "part")>> \o MembersToks(o.rets, 1, el, "r", ch) \o <<T(W(")"), el, "part")>>)
RECURSIVE OpsToks(_, _, _, _), BasesToks(_, _, _, _)
OpsToks(os, i, el, ch) == IF i > Len(os) THEN <<>> ELSE OpToks(os[i], el \o <<"o", i>>, ch) \o OpsToks(os, i + 1, el, ch)
BasesToks(bs, i, el, ch) ==
  IF i > Len(bs) THEN <<>>
  ELSE TypeToks(bs[i], el \o <<"b", i>>, ch) \o (IF i < Len(bs) \/ Coin(ch, i) THEN <<P(",")>> ELSE <<>>) \o BasesToks(bs, i + 1, el, ch)

DefToks(d, el, ch) ==
  AttrsToks(d.attrs, 1, el, <<>>, ch) \o
  CASE d.k = "struct" ->
         (IF d.compact THEN <<T(W("compact"), el, "first"), T(W("struct"), el, "part")>> ELSE <<T(W("struct"), el, "first")>>)
         \o <<T(IdTok(d.name, ch.escAll), el \o <<"id">>, "name"), P("{")>> \o MembersToks(d.fields, 1, el, "m", ch) \o <<P("}")>>
    [] d.k = "enum" ->
         (IF d.compact THEN <<T(W("compact"), el, "first")>> ELSE <<>>)
         \o (IF d.unchecked THEN <<T(W("unchecked"), el, IF d.compact THEN "part" ELSE "first")>> ELSE <<>>)
         \o <<T(W("enum"), el, IF d.compact \/ d.unchecked THEN "part" ELSE "first"), T(IdTok(d.name, ch.escAll), el \o <<"id">>, "name")>>
         \o (IF d.underlying # <<>> THEN <<P(":")>> \o TypeToks(d.underlying[1], el \o <<"u">>, ch) ELSE <<>>)
         \o <<P("{")>> \o EnumeratorsToks(d.ens, 1, el, ch) \o <<P("}")>>
    [] d.k = "interface" ->
         <<T(W("interface"), el, "first"), T(IdTok(d.name, ch.escAll), el \o <<"id">>, "name")>>
         \o (IF d.bases # <<>> THEN <<P(":")>> \o BasesToks(d.bases, 1, el, ch) ELSE <<>>)
         \o <<P("{")>> \o OpsToks(d.ops, 1, el, ch) \o <<P("}")>>
    [] d.k = "custom" -> <<T(W("custom"), el, "first"), T(IdTok(d.name, ch.escAll), el \o <<"id">>, "name")>>
    [] d.k = "alias" ->
         <<T(W("typealias"), el, "first"), T(IdTok(d.name, ch.escAll), el \o <<"id">>, "name"), P("=")>> \o TypeToks(d.type, el \o <<"t">>, ch)

RECURSIVE DefsToks(_, _, _, _), FileAttrsToks(_, _, _, _)
DefsToks(ds, i, el, ch) == IF i > Len(ds) THEN <<>> ELSE DefToks(ds[i], el \o <<"d", i>>, ch) \o DefsToks(ds, i + 1, el, ch)
FileAttrsToks(as, i, el, ch) ==
  IF i > Len(as) THEN <<>>
  ELSE <<P("[[")>> \o AttrToks(as[i], el \o <<"fa", i>>, ch) \o <<P("]]")>> \o FileAttrsToks(as, i + 1, el, ch)

FileToks(file, f, ch) ==
  LET el == <<"f", f>> IN
  IF file.mod = <<>> THEN FileAttrsToks(file.fattrs, 1, el, ch) ELSE      \* file attributes only: no module, no definitions
  FileAttrsToks(file.fattrs, 1, el, ch)
  \o AttrsToks(file.mattrs, 1, el \o <<"m">>, <<>>, ch)
  \o <<T(W("module"), el \o <<"m">>, "first")>> \o ScopedToksE(file.mod, el \o <<"m", "id">>, "name", FALSE)
  \o DefsToks(file.defs, 1, el, ch)

----------------------------------------------------------------------------------------------------
(* Layout and positions (rows and columns counted in characters from 1)                             *)

\* separator classes and their width in characters; "nl" starts a new row
\*   sp ' '   tab '\t'   cr '\r'   bc '/*c<e-acute>*/' (6 chars)   lc '//c' (then a line break must follow)   lc4 '////x'
\*   bc2 '/* x **/' (8 chars)   bc3 '/***/' (5 chars)   bc4 '/*/ x */' (8 chars: the '/' right after the opening is no end)
\*   bc5 '/* a/b *c/ */' (13 chars: a '/' ends the comment only right after a '*')
\*   ppskip: a line break, a conditional block that is not selected ('#if NOPE' / a definition / '#endif') and a line break
\*   ppdef : a line break, '#define ZED' and a line break             (the slice lexer continues in a new source block)
ClassCols == [sp |-> 1, tab |-> 1, cr |-> 1, bc |-> 6, lc |-> 3, lc4 |-> 5, ws3 |-> 1, bc2 |-> 8, bc3 |-> 5, bc4 |-> 8, bc5 |-> 13]
Seps == << <<"sp">>, <<"nl">>, <<"tab">>, <<"cr", "nl">>, <<"sp", "bc", "sp">>, <<"sp", "lc", "nl">>, <<"nl", "sp", "sp">>,
           <<"lc4", "nl", "tab">>, <<"sp">>, <<"nl", "nl", "sp", "sp", "sp", "sp">>, <<"ws3">>, <<"bc">>,
           <<"ppskip", "sp", "sp", "sp">>, <<"bc2">>, <<"sp", "ppdef", "tab">>, <<"bc3", "sp">>, <<"bc4">>, <<"bc5">> >>
Adv(cur, cls) == CASE cls = "nl" -> [row |-> cur.row + 1, col |-> 1]
                   [] cls = "ppskip" -> [row |-> cur.row + 4, col |-> 1]
                   [] cls = "ppdef" -> [row |-> cur.row + 2, col |-> 1]
                   [] OTHER -> [row |-> cur.row, col |-> cur.col + ClassCols[cls]]
RECURSIVE AdvAll(_, _, _)
AdvAll(cur, s, i) == IF i > Len(s) THEN cur ELSE AdvAll(Adv(cur, s[i]), s, i + 1)

Words(t) == t.k \in {"esc", "num"} \/ (t.k = "w" /\ t.s \notin {"(", ")", "{", "}", "<", ">", ",", "=", "?", ":", "::", "-", "->", "[", "]", "[[", "]]"})
SafePunct == {"(", ")", "{", "}", "<", ">", ",", "=", "?"}
\* two tokens may touch only when that cannot fuse them into another token
MayTouch(a, b) == /\ a.k # "doc" /\ b.k # "doc"
                  /\ \/ (a.k = "w" /\ a.s \in SafePunct /\ (Words(b) \/ b.k = "str" \/ (b.k = "w" /\ b.s \in SafePunct)))
                     \/ (b.k = "w" /\ b.s \in SafePunct /\ (Words(a) \/ a.k = "str"))
PickSep(seed, i, a, b) ==
  LET n == ((seed * 7) + (i * 13) + ((i * i) % 5)) % (Len(Seps) + 3) IN
  IF a.k = "doc" THEN <<"nl">>                                  \* a doc comment line ends at the line break
  ELSE IF n >= Len(Seps) THEN (IF MayTouch(a, b) THEN <<>> ELSE <<"sp">>)
  ELSE Seps[n + 1]

RECURSIVE Place(_, _, _, _, _)
Place(toks, i, cur, seed, acc) ==
  IF i > Len(toks) THEN acc
  ELSE LET sep == IF i = 1 THEN (IF seed % 2 = 0 THEN <<>> ELSE <<"nl", "sp">>) ELSE PickSep(seed, i, toks[i - 1].tok, toks[i].tok)
           st == AdvAll(cur, sep, 1)
           en == [row |-> st.row, col |-> st.col + Width(toks[i].tok)] IN
       Place(toks, i + 1, en, seed, Append(acc, [tok |-> toks[i].tok, sep |-> sep, el |-> toks[i].el, role |-> toks[i].role, s |-> st, e |-> en]))

IsPrefix(p, q) == Len(p) <= Len(q) /\ \A j \in 1..Len(p) : p[j] = q[j]
Loc(x) == <<x.row, x.col>>
\* what C09 demands of the span of element el: it starts at the first token of the declaration proper, contains the
\* name, and ends on a token of the element; `exact` = [first token start, last token end] for identifiers, type
\* references, attributes and integers
SpanFacts(placed, el) ==
  LET sub == {i \in 1..Len(placed) : placed[i].el # <<>> /\ IsPrefix(el, placed[i].el)}
      firsts == {i \in sub : (placed[i].el = el \/ placed[i].el = el \o <<"id">>) /\ placed[i].role \in {"first", "first+name"}}
      names == {i \in sub : placed[i].el = el \o <<"id">>}
      lo == Min(sub)
      hi == Max(sub)
      fi == IF firsts = {} THEN lo ELSE Min(firsts) IN
  [el |-> el, first |-> Loc(placed[fi].s), lo |-> Loc(placed[lo].s), hi |-> Loc(placed[hi].e),
   ends |-> {Loc(placed[i].e) : i \in sub},
   name |-> IF names = {} THEN <<>> ELSE LET n1 == Min(names)
                                              n2 == Max(names) IN
                                          <<Loc(placed[n1].s), Loc(placed[n2].e)>>]
Els(placed) == {placed[i].el : i \in 1..Len(placed)} \ {<<>>}
====================================================================================================
