----------------------------------------- MODULE MC_Cycles ------------------------------------------
EXTENDS Cycles, TLC
Spec == CInit /\ [][CNext]_cvars /\ WF_cvars(CNext)
ASSUME ClosureMatchesTC
ASSUME AliasWalkMatchesTC
====================================================================================================
