INIT InitAll
NEXT Next
CONSTANTS
  COMMA = ","
  EQ = "="
  BSL = "b"
  WS = {"s", "u"}
  Chars = {"a", "s", ",", "=", "b"}
  MaxLen = 5
  CompLen = 2
  PathLen = 1
  Emitting = TRUE
INVARIANTS TypeOK MachineMeetsWant RefMeetsWant RunIsSteps RejectsExactly Emit
CHECK_DEADLOCK FALSE
