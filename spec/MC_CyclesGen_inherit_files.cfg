INIT Init
NEXT Next
CONSTANTS
  Ns = {2, 3}
  Variants = {1}
  Mixed = {FALSE}
  KindPats = {"struct"}
  Compacts = {FALSE}
  MaxEdges = 4
  Family = "inherit"
INVARIANT Emit
CHECK_DEADLOCK FALSE
