SPECIFICATION Spec
CONSTANTS
  Mode = "bin"
  Dev <- PinnedDev
INVARIANTS TypeOK NeverCrashes VerdictConsistent
PROPERTIES ErrorGates DoneReached
CHECK_DEADLOCK FALSE
