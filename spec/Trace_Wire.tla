---------------------------------------- MODULE Trace_Wire -----------------------------------------
(* Trace validation for C10 / C11: every recorded call of the real Encoder / Decoder must be         *)
(* explained by Wire.tla.                                                                            *)
(*   [ev |-> "enc", type, v, ok, bytes, decoded]   value v was encoded (ok: accepted), the bytes     *)
(*                                                 written, and what decoding those bytes gave       *)
(*   [ev |-> "dec", type, bytes, ok, v, consumed, inside]  an arbitrary byte string was decoded;     *)
(*                                                 inside: after an error the decoder still stands   *)
(*                                                 inside its buffer (Sources: 0 <= pos <= Len)      *)
(*   [ev |-> "bigenc", type, n, width, ok, head, total, same, consumed]  a container of n elements   *)
(*                                                 of fixed width: the bytes in front of the first   *)
(*                                                 element, the total length, the round trip         *)
EXTENDS Wire, TLC, Json, IOUtils

Rec == ndJsonDeserialize(IOEnv.TRACE)

VARIABLE l
Init == l = 1

\* dictionaries are compared as sets of entries (the model lists them in wire order)
RECURSIVE SameVal(_, _, _)
SameVal(t, a, b) ==
  CASE t.k = "seq"  -> Len(a) = Len(b) /\ \A i \in 1..Len(a) : SameVal(t.e, a[i], b[i])
    [] t.k = "dict" -> Len(a) = Len(b) /\ \A i \in 1..Len(a) : \E j \in 1..Len(b) : a[i].k = b[j].k /\ SameVal(t.val, a[i].v, b[j].v)
    [] OTHER -> a = b

EncExplained(e) ==
  LET t == TypeOf(e.type)  m == Enc(t, e.v) IN
  /\ m.ok = e.ok
  /\ e.ok => /\ m.bytes = e.bytes                          \* the wire format, byte for byte
             /\ SameVal(t, e.decoded, e.v)                 \* round trip
             /\ Dec(t, e.bytes, 1).ok /\ Dec(t, e.bytes, 1).pos = Len(e.bytes) + 1

DecExplained(e) ==
  LET t == TypeOf(e.type)  r == Dec(t, e.bytes, 1) IN
  /\ r.ok = e.ok
  /\ e.inside
  /\ e.ok => (r.pos - 1 = e.consumed /\ (e.type = "tagged" \/ SameVal(t, r.v, e.v)))

\* a container is its element count as a size, then the elements: Wire!Enc for "seq" / "dict" / "string", stated on the
\* lengths alone so that it can be checked for counts far beyond what Enc can unfold
BigExplained(e) ==
  LET h == EncVarUInt(FromNat(e.n)) IN
  /\ e.ok /\ h.ok
  /\ e.head = h.bytes
  /\ e.total = Len(h.bytes) + e.n * e.width
  /\ e.same /\ e.consumed = e.total

Step == /\ l <= Len(Rec)
        /\ CASE Rec[l].ev = "enc" -> EncExplained(Rec[l])
             [] Rec[l].ev = "dec" -> DecExplained(Rec[l])
             [] Rec[l].ev = "bigenc" -> BigExplained(Rec[l])
             [] OTHER -> FALSE
        /\ l' = l + 1

Spec == Init /\ [][Step]_l

Accepted == LET d == TLCGet("stats").diameter IN
            IF d - 1 = Len(Rec) THEN PrintT(<<"ACCEPTED", Len(Rec)>>)
            ELSE Print(<<"REJECTED", d, ToJson([event |-> Rec[d]])>>, FALSE)
====================================================================================================
