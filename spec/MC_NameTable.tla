---------------------------------------- MODULE MC_NameTable ----------------------------------------
(* C03: all arrangements of same-named definitions "T" over nested modules x every reference          *)
(* spelling from every module x every referencing position.                                          *)
EXTENDS NameTable, TLC, Json
CONSTANTS MaxPlaced, Positions, Kinds, Boxes

\* (<<"A", "A">>: a module path that repeats itself - "A::T" written in module A designates A::A::T when that exists)
Mods == << <<"A">>, <<"A", "B">>, <<"A", "B", "C">>, <<"B">>, <<"A", "C">>, <<"A", "A">> >>
Spellings == { [segs |-> <<"T">>, global |-> FALSE], [segs |-> <<"B", "T">>, global |-> FALSE], [segs |-> <<"A", "B", "T">>, global |-> FALSE],
               [segs |-> <<"A", "B", "T">>, global |-> TRUE], [segs |-> <<"T">>, global |-> TRUE], [segs |-> <<"C", "T">>, global |-> FALSE],
               [segs |-> <<"Box", "T">>, global |-> FALSE], [segs |-> <<"A", "T">>, global |-> FALSE] }
WantOf(pos) == CASE pos = "base" -> "interface" [] pos = "underlying" -> "primitive" [] OTHER -> "type"

VARIABLES placed,   \* module index -> kind of the definition T placed there, or "none"
          box,      \* module index that also declares the container Box (with a member T), or 0
          ref, pos, rev,
          own       \* the definition that holds the reference has a member that is itself named T ('struct Use { T: T }',
                    \* 'Use::T(T: T)', 'enum Use : T { T }'): members are no types and the search starts at the MODULE, so this changes nothing
NoRef == [scope |-> <<>>, segs |-> <<>>, global |-> FALSE, at |-> 0]
\* first the arrangement (initial states), then one reference per step (so that TLC's workers share the evaluation)
Init == /\ placed \in [1..Len(Mods) -> Kinds \cup {"none"}]
        /\ Cardinality({i \in 1..Len(Mods) : placed[i] # "none"}) <= MaxPlaced
        /\ box \in Boxes
        /\ ref = NoRef /\ pos = "none" /\ rev = FALSE /\ own = FALSE
Next == /\ ref = NoRef
        /\ \E sc \in 1..Len(Mods), sp \in Spellings : ref' = [scope |-> Mods[sc], segs |-> sp.segs, global |-> sp.global, at |-> sc]
        /\ pos' \in Positions /\ rev' \in (IF pos' = "field" THEN BOOLEAN ELSE {FALSE})
        /\ own' \in (IF ref'.segs = <<"T">> /\ ~ref'.global /\ pos' \notin {"alias", "base"} THEN BOOLEAN ELSE {FALSE})
        /\ UNCHANGED <<placed, box>>

\* one file per module that declares something, plus the referencing file (which declares only its module)
FileOf(i) == [mod |-> Mods[i], ents |-> (IF placed[i] # "none" THEN <<[name |-> "T", kind |-> placed[i]]>> ELSE <<>>)
                                        \o (IF box = i THEN <<[name |-> "Box", kind |-> "container"]>> ELSE <<>>)]
Declaring == {i \in 1..Len(Mods) : placed[i] # "none" \/ box = i}
Files == LET RECURSIVE Go(_)
             Go(i) == IF i > Len(Mods) THEN <<>> ELSE (IF i \in Declaring THEN <<FileOf(i)>> ELSE <<>>) \o Go(i + 1)
         IN Go(1) \o <<[mod |-> ref.scope, ents |-> IF own THEN <<[name |-> "Use", kind |-> "container"]>> ELSE <<>>]>>

\* C03, model level: without collisions the table walk finds exactly the designated entity, whatever the file order
Reverse(s) == [i \in 1..Len(s) |-> s[Len(s) + 1 - i]]
BindingIsDesignated == (ref # NoRef /\ NoCollision(Files)) => Lookup(Files, ref) = Designated(Files, ref)
OrderIndependent    == (ref # NoRef /\ NoCollision(Files)) => Lookup(Reverse(Files), ref) = Lookup(Files, ref)
Emit == ref # NoRef => PrintT(<<"CASE", ToJson([mods |-> Mods, placed |-> placed, box |-> box, scope |-> ref.scope, at |-> ref.at, segs |-> ref.segs, global |-> ref.global,
                                 pos |-> pos, rev |-> rev, own |-> own, expect |-> Outcome(Designated(Files, ref), WantOf(pos))])>>)
====================================================================================================
