SPECIFICATION Spec
CONSTANTS
  N = 4
  OpNames = {"x", "y"}
  Layouts = {"fwd", "rev", "split"}
INVARIANTS Closure Shadow Emit
CHECK_DEADLOCK FALSE
