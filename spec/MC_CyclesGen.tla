---------------------------------------- MODULE MC_CyclesGen ----------------------------------------
(* Case generation for C05.  A case is an input only - the verdict is computed by Trace_Cycles from   *)
(* the reference (transitive closure) when the recorded outcome of the real compiler is validated.    *)
(*  family "contain": n struct/enum nodes, edge set grown one edge at a time in increasing order      *)
(*                    (every graph is reached exactly once), wrapper variant v (uniform, or rotated   *)
(*                    over the edges when mixed), kind pattern, compactness                           *)
(*  family "alias"  : every function alias -> alias | concrete over n aliases                         *)
(*  family "inherit": every base relation over n interfaces                                           *)
EXTENDS Naturals, Sequences, FiniteSets, TLC, Json

CONSTANTS Ns,         \* node counts
          Variants,   \* wrapper variants 1..9: plain, optional, sequence, dictionary value, dictionary key, result success, result failure,
                      \* tagged optional ('tag(k) f: T?'), tagged optional sequence ('tag(k) f: Sequence<T>?')
          Mixed,      \* set of BOOLEAN: rotate the wrapper over the edges
          KindPats,   \* subset of {"struct", "enum", "alt", "enumu"} (enumu: enums with an underlying type AND fields)
          Compacts,   \* set of BOOLEAN
          MaxEdges,
          Family

VARIABLES n, g, last, v, mixed, kinds, compact
vars == <<n, g, last, v, mixed, kinds, compact>>

Pairs(m) == (1..m) \X (1..m)
Rank(p, m) == (p[1] - 1) * m + p[2]

Init == /\ n \in Ns /\ g = {} /\ last = 0
        /\ v \in Variants /\ mixed \in Mixed /\ kinds \in KindPats /\ compact \in Compacts

AddEdge == /\ Cardinality(g) < MaxEdges
           /\ \E p \in Pairs(n) : /\ Rank(p, n) > last
                                  /\ g' = g \cup {p} /\ last' = Rank(p, n)
           /\ UNCHANGED <<n, v, mixed, kinds, compact>>
Next == AddEdge

EdgeList == LET ranks == {Rank(p, n) : p \in g} IN
            [i \in 1..Cardinality(g) |->
               CHOOSE p \in g : Cardinality({q \in g : Rank(q, n) < Rank(p, n)}) = i - 1]
\* (10..13: wrappers inside wrappers - Sequence<Sequence<T>>, Dictionary<string, Sequence<T>>, Sequence<Result<T, string>>,
\*  Result<Sequence<T>?, int32>)
Wrapper(i) == IF mixed THEN ((v + i - 2) % 13) + 1 ELSE v

Emit == PrintT(<<"CASE", ToJson([family |-> Family, n |-> n,
                                 edges |-> [i \in 1..Cardinality(g) |-> [a |-> EdgeList[i][1], b |-> EdgeList[i][2], w |-> Wrapper(i)]],
                                 kinds |-> kinds, compact |-> compact])>>)

\* alias family: t[i] in 0..n; every alias names its target directly or through an anonymous type (AliasWrappers:
\* 1 direct, 3 Sequence<T>, 4 Dictionary<int32, T>, 5 Dictionary<T, int32>, 6 Result<T, bool>, 7 Result<Sequence<bool>, T?>)
\* - a loop through anonymous types is a loop ('typealias A = Sequence<A>', 'typealias A = Dictionary<A, int32>')
AliasWrappers == <<1, 3, 4, 6, 7, 5>>
AliasWrapper(i) == IF mixed THEN AliasWrappers[((v + i - 2) % 6) + 1] ELSE AliasWrappers[v]
InitAlias == /\ n \in Ns /\ v \in Variants /\ mixed \in Mixed /\ kinds = "struct" /\ compact = FALSE /\ last = 0
             /\ g \in [1..n -> 0..n]
EmitAlias == PrintT(<<"CASE", ToJson([family |-> "alias", n |-> n, target |-> g, w |-> [i \in 1..n |-> AliasWrapper(i)]])>>)
NextNone == UNCHANGED vars
====================================================================================================
