SPECIFICATION Spec
CONSTANT N = 4
INVARIANTS ErrorIffCycle EveryCyclicNodeNamed OnlyCyclicNamed ReportedChainIsPath StackIsSimplePath
PROPERTY Terminates
CHECK_DEADLOCK FALSE
