SPECIFICATION Spec
CONSTANT N = 3
INVARIANTS ErrorIffCycle EveryCyclicNodeNamed OnlyCyclicNamed ReportedChainIsPath StackIsSimplePath
PROPERTY Terminates
CHECK_DEADLOCK FALSE
