---------------------------------------- MODULE MC_Options ----------------------------------------
(* Model-checking and case-generation harness for Options.tla (C19).                               *)
(*  InitAll : every string of length <= MaxLen over Chars; want = Ref(s)  (the reference)          *)
(*  InitRT  : every rendered (path, args, trailing comma) over small components; want = the pair   *)
(*            that was written, trimmed (Intended)                                                 *)
(* The machine then runs one action per match arm of plugin_parser until it halts.                 *)
EXTENDS Options, TLC, Json

CONSTANTS Chars, MaxLen, CompLen, PathLen, Emitting

VARIABLES s, st, want
vars == <<s, st, want>>

Strings(n) == UNION {[1..m -> Chars] : m \in 0..n}

InitAll == /\ s \in Strings(MaxLen)
           /\ st = St0
           /\ want = Ref(s)

Comps(n)  == {x \in Strings(n) : Expressible(x)}
ArgOf(k, v, b) == [k |-> k, v |-> v, bare |-> b]
Args1 == {<<ArgOf(k, v, b)>> : k \in Comps(CompLen), v \in Comps(CompLen), b \in BOOLEAN}
Args2 == {<<ArgOf(k1, v1, b1), ArgOf(k2, v2, FALSE)>> :
             k1 \in Comps(1), v1 \in Comps(1), b1 \in BOOLEAN, k2 \in Comps(1), v2 \in Comps(1)}
StripBare(as) == [j \in 1..Len(as) |-> [k |-> as[j].k, v |-> as[j].v]]

\* A last argument written as nothing at all (empty key, no '=') is indistinguishable from "one trailing comma",
\* which the statement says is ignored; such lists are not writable and are left out (TLC found the ambiguity:
\* path "\," followed by "," is both <path ','> + trailing comma and <path ','> + an empty bare argument).
Writable(as) == IF as = <<>> THEN TRUE ELSE ~(as[Len(as)].k = <<>> /\ as[Len(as)].v = <<>> /\ as[Len(as)].bare)

InitRT == \E p \in Comps(PathLen), t \in BOOLEAN, as \in {<<>>} \cup Args1 \cup Args2 :
             /\ Writable(as)
             /\ s = Render(p, as, t)
             /\ st = St0
             /\ want = Intended(p, StripBare(as))

Step(b) == /\ ~Halted(st, s)
           /\ Branch(st, s) = b
           /\ st' = Apply(st, s, b)
           /\ UNCHANGED <<s, want>>

EscapeNext           == st.i >= 1 /\ Step("EscapeNext")
CommaStartsArg       == st.i >= 1 /\ Step("CommaStartsArg")
TrailingCommaIgnored == st.i >= 1 /\ Step("TrailingCommaIgnored")
EqualsInPath         == st.i >= 1 /\ Step("EqualsInPath")
KeyToValue           == st.i >= 1 /\ Step("KeyToValue")
SecondEqualsRejected == st.i >= 1 /\ Step("SecondEqualsRejected")
PushChar             == st.i >= 1 /\ Step("PushChar")

Next == \/ EscapeNext \/ CommaStartsArg \/ TrailingCommaIgnored \/ EqualsInPath
        \/ KeyToValue \/ SecondEqualsRejected \/ PushChar

Result == IF s = <<>> THEN Rejected ELSE Finish(st)

TypeOK == /\ st.mode \in {"Path", "Key", "Value"}
          /\ st.i \in 1..(Len(s) + 1)
          /\ (st.mode = "Path") = (st.args = <<>>)

\* C19: the machine agrees with the declarative reading on every string / yields what was written.
MachineMeetsWant == Halted(st, s) => Result = want
RefMeetsWant     == Ref(s) = want
\* The functional form used by trace validation is the same machine.
RunIsSteps       == Run(st, s) = Run(St0, s)
\* Structural facts the property states.
RejectsExactly   == Halted(st, s) /\ s # <<>> =>
                      (Result = Rejected <=> \/ st.err
                                             \/ Trim(st.path) = <<>>
                                             \/ \E j \in 1..Len(st.args) : Trim(st.args[j].k) = <<>>)

Emit == (Emitting /\ Halted(st, s)) => PrintT(<<"CASE", ToJson([s |-> s, expect |-> want])>>)
====================================================================================================
