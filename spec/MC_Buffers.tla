---------------------------------------- MODULE MC_Buffers -----------------------------------------
(* Output targets: model checking (Paths = FALSE: states merge, invariants and action properties)   *)
(* and bounded-exhaustive path generation (Paths = TRUE: the history of outcomes and post-states is *)
(* carried along and printed for every path, to be executed lock-step on the real targets).         *)
EXTENDS Buffers, TLC, Json

CONSTANTS MaxOps, Paths, MaxResv

VARIABLE hist
vars == <<bvars, hist>>

Post == [op |-> last'.op, k |-> last'.k, r |-> last'.r, ok |-> last'.ok, len |-> Len(log'),
         rem |-> (IF kind = "slice" THEN cap - Len(log') ELSE 0), log |-> log']

Init == BInit /\ hist = <<>>

\* One TLA+ action per operation outcome, so that TLC's coverage shows which were exercised.
Wrap(A) == /\ n < MaxOps
           /\ Tick
           /\ A
           /\ Len(resv') <= MaxResv
           /\ hist' = (IF Paths THEN Append(hist, Post) ELSE hist)

DoWriteByteOk    == Wrap(WriteByteOk)
DoWriteByteFail  == Wrap(WriteByteFail)
DoWriteBytesOk   == \E k \in 0..MaxK : Wrap(WriteBytesOk(k))
DoWriteBytesFail == \E k \in 0..MaxK : Wrap(WriteBytesFail(k))
DoReserveOk      == \E k \in 0..MaxK : Wrap(ReserveOk(k))
DoReserveFail    == \E k \in 0..MaxK : Wrap(ReserveFail(k))
DoReserveHuge    == \E k \in 0..1 : Wrap(ReserveHuge(k))
DoWriteForeign   == \E k \in 0..1 : Wrap(WriteForeign(k))
DoWriteResOk     == \E r \in 1..Len(resv), k \in 0..MaxK : Wrap(WriteResOk(r, k))
DoWriteResFail   == \E r \in 1..Len(resv), k \in 0..MaxK : Wrap(WriteResFail(r, k))

Next == \/ DoWriteByteOk \/ DoWriteByteFail \/ DoWriteBytesOk \/ DoWriteBytesFail
        \/ DoReserveOk \/ DoReserveFail \/ DoReserveHuge \/ DoWriteForeign \/ DoWriteResOk \/ DoWriteResFail

Spec == Init /\ [][Next]_vars

AppendOnly               == [][AppendOnlyStep]_vars
FailureChangesNothing    == [][FailureChangesNothingStep]_vars
ReservedWriteStaysInside == [][ReservedWriteStaysInsideStep]_vars

Emit == (Paths /\ n >= 1) => PrintT(<<"CASE", ToJson([kind |-> kind, cap |-> cap, ops |-> hist])>>)
====================================================================================================
