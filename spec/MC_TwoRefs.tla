------------------------------------------ MODULE MC_TwoRefs -----------------------------------------
(* C03: two references with the SAME spelling written in two DIFFERENT modules of one compilation.    *)
(* Each is bound by the search from its own module outwards - what one reference resolved to is        *)
(* nothing another reference may reuse.  Arrangements of definitions T (a struct or an interface)      *)
(* over the nested modules x every spelling x every pair of referencing modules x {base interface,     *)
(* field type}, both file orders.                                                                      *)
EXTENDS NameTable, TLC, Json
Mods == << <<"A">>, <<"A", "B">>, <<"A", "B", "C">>, <<"B">>, <<"A", "C">>, <<"A", "A">> >>
Spellings == { [segs |-> <<"T">>, global |-> FALSE], [segs |-> <<"B", "T">>, global |-> FALSE], [segs |-> <<"A", "B", "T">>, global |-> FALSE],
               [segs |-> <<"T">>, global |-> TRUE], [segs |-> <<"C", "T">>, global |-> FALSE], [segs |-> <<"A", "T">>, global |-> FALSE] }
Kinds == {"struct", "interface"}
VARIABLES placed, sc1, sc2, sp, pos, rev
Init == /\ placed \in [1..Len(Mods) -> Kinds \cup {"none"}]
        /\ Cardinality({i \in 1..Len(Mods) : placed[i] # "none"}) \in 1..2
        /\ sc1 \in 1..Len(Mods) /\ sc2 \in 1..Len(Mods) /\ sc1 < sc2
        /\ sp \in Spellings /\ pos \in {"base", "field"} /\ rev \in BOOLEAN
Next == UNCHANGED <<placed, sc1, sc2, sp, pos, rev>>
WantOf(p) == IF p = "base" THEN "interface" ELSE "type"
Ref(sc) == [scope |-> Mods[sc], segs |-> sp.segs, global |-> sp.global, at |-> sc]
FileOf(i) == [mod |-> Mods[i], ents |-> <<[name |-> "T", kind |-> placed[i]]>>]
Files == LET RECURSIVE Go(_)
             Go(i) == IF i > Len(Mods) THEN <<>> ELSE (IF placed[i] # "none" THEN <<FileOf(i)>> ELSE <<>>) \o Go(i + 1)
         IN Go(1) \o <<[mod |-> Mods[sc1], ents |-> <<>>], [mod |-> Mods[sc2], ents |-> <<>>]>>
\* model level: each reference gets what ITS scope designates; the two may differ although they are spelled alike
EachIsDesignated == \A sc \in {sc1, sc2} : NoCollision(Files) => Lookup(Files, Ref(sc)) = Designated(Files, Ref(sc))
Differ == Designated(Files, Ref(sc1)) # Designated(Files, Ref(sc2))
Emit == PrintT(<<"CASE", ToJson([mods |-> Mods, placed |-> placed, box |-> 0, pos |-> pos, rev |-> rev, differ |-> Differ,
                                 refs |-> << [scope |-> Mods[sc1], segs |-> sp.segs, global |-> sp.global, expect |-> Outcome(Designated(Files, Ref(sc1)), WantOf(pos))],
                                             [scope |-> Mods[sc2], segs |-> sp.segs, global |-> sp.global, expect |-> Outcome(Designated(Files, Ref(sc2)), WantOf(pos))] >>])>>)
====================================================================================================
