--------------------------------------- MODULE Trace_Emitter ---------------------------------------
(* Trace validation for C14: every run of the slicec binary must emit exactly the diagnostics that   *)
(* the library reports for the same input and options (those not suppressed), once each, in order,   *)
(* with matching totals, summary, exit status and - with colours disabled - no escape sequence.      *)
(* event: [ev |-> "emit", driver (binary | library), prog, format, disable_color, allow, lib |-> <<[severity, code, message,    *)
(*         at, notes]>>, records |-> <<...>>, json_ok, escapes, sum_w, sum_e, stdout_other, exit]    *)
EXTENDS Naturals, Integers, Sequences, FiniteSets, TLC, Json, IOUtils

Rec == ndJsonDeserialize(IOEnv.TRACE)
VARIABLE l
Init == l = 1 /\ TLCSet(1, <<>>)

RECURSIVE NotAllowed(_, _)
NotAllowed(ds, i) == IF i > Len(ds) THEN <<>>
                     ELSE (IF ds[i].severity = "allowed" THEN <<>> ELSE <<ds[i]>>) \o NotAllowed(ds, i + 1)
CountSev(ds, s) == Cardinality({i \in 1..Len(ds) : ds[i].severity = s})

RunOk(e) ==
  LET shown == NotAllowed(e.lib, 1)
      w == CountSev(shown, "warning")
      xc == CountSev(shown, "error")
      \* a generator that cannot be started is reported by one more error - after the diagnostics of the compilation, and
      \* only if the compilation itself had no error (C07); it is written and counted like every other diagnostic
      g == IF e.gen = "missing" /\ xc = 0 THEN 1 ELSE 0
      x == xc + g IN
  /\ ~e.timed_out
  /\ xc >= e.min_errors                                      \* (the model's own lower bound for the program)
  /\ e.json_ok                                               \* JSON: one self-contained five-key object per line, nothing else
  /\ Len(e.records) = Len(shown) + g
  /\ SubSeq(e.records, 1, Len(shown)) = shown                \* complete, exactly once, in order, code / message / location / notes
  /\ g = 1 => LET r == e.records[Len(e.records)] IN r.severity = "error" /\ r.code = "E001" /\ r.notes = <<>>
  /\ e.exit = (IF x > 0 THEN 1 ELSE 0)
  \* nothing else on either stream - except that the pinned tree prints the message of a diagnostic a generator reports on
  \* stdout (a TODO in main.rs); the diagnostic stream stays clean
  /\ e.stderr_other = 0
  /\ e.stdout_other <= (IF e.gen = "okwarn" /\ xc = 0 THEN 1 ELSE 0)
  /\ IF e.format = "human"
     THEN /\ e.sum_w = (IF w > 0 THEN w ELSE 0 - 1)          \* summary counts equal what was shown
          /\ e.sum_e = (IF x > 0 THEN x ELSE 0 - 1)
     ELSE e.sum_w = 0 - 1 /\ e.sum_e = 0 - 1                 \* no summary in JSON format
  /\ (e.disable_color \/ e.format = "json") => e.escapes = 0

Step == /\ l <= Len(Rec)
        /\ IF Rec[l].ev = "emit" /\ RunOk(Rec[l]) THEN TRUE ELSE TLCSet(1, Append(TLCGet(1), l))
        /\ l' = l + 1
Spec == Init /\ [][Step]_l

Accepted == LET d == TLCGet("stats").diameter  b == TLCGet(1) IN
            IF d - 1 = Len(Rec) /\ b = <<>> THEN PrintT(<<"ACCEPTED", Len(Rec)>>)
            ELSE /\ PrintT(<<"REJECTED-COUNT", Len(b), "of", Len(Rec), "consumed", d - 1>>)
                 /\ \A i \in 1..(IF Len(b) < 12 THEN Len(b) ELSE 12) : PrintT(<<"REJECTED", b[i], ToJson([event |-> Rec[b[i]]])>>)
                 /\ FALSE
====================================================================================================
