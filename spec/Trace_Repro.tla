---------------------------------------- MODULE Trace_Repro ----------------------------------------
(* Trace validation for C15.                                                                        *)
(*  [ev |-> "perm", n, runs |-> <<[order, roles, accepted, files, warnings, errors]>>]              *)
(*     the same program compiled under every permutation of its files and every source / reference   *)
(*     assignment: acceptance must not change, and for an accepted program neither any file's         *)
(*     compiled content (digest per path) nor the multiset of warnings                               *)
(*  [ev |-> "rerun", stderr, request, exit, role_request_len, role_exit]   repeated runs of the      *)
(*     binary in fresh processes: byte-identical diagnostics, byte-identical generator requests,     *)
(*     same exit status; and one file moved from the sources to the references                       *)
EXTENDS Naturals, Sequences, FiniteSets, TLC, Json, IOUtils
Rec == ndJsonDeserialize(IOEnv.TRACE)
VARIABLE l
Init == l = 1 /\ TLCSet(1, <<>>)
AllEqual(s) == \A i \in 1..Len(s) : s[i] = s[1]
PermOk(e) ==
  LET r == e.runs IN
  /\ Len(r) >= 1
  /\ \A i \in 1..Len(r) : r[i].accepted = r[1].accepted                              \* AcceptanceInvariantUnderPermutation
  /\ r[1].accepted => \A i \in 1..Len(r) : /\ r[i].files = r[1].files                 \* PerFileContentInvariant
                                           /\ r[i].warnings = r[1].warnings           \* WarningMultisetInvariant
RerunOk(e) == /\ AllEqual(e.stderr) /\ AllEqual(e.request) /\ AllEqual(e.exit)        \* SameBytesOnRerun
              \* the last file listed as a source / as a reference: same exit status, and the generator is handed as much (every
              \* file goes into the request whole, in the one list or the other)
              /\ AllEqual(e.role_request_len) /\ AllEqual(e.role_exit)
EventOk(e) == CASE e.ev = "perm" -> PermOk(e) [] e.ev = "rerun" -> RerunOk(e) [] OTHER -> FALSE
Step == /\ l <= Len(Rec)
        /\ IF EventOk(Rec[l]) THEN TRUE ELSE TLCSet(1, Append(TLCGet(1), l))
        /\ l' = l + 1
Spec == Init /\ [][Step]_l
\* a rejected event is reported by its index and the first run that differs
Differs(e) == IF e.ev # "perm" THEN 0 ELSE
              LET bad == {i \in 1..Len(e.runs) : e.runs[i].accepted # e.runs[1].accepted \/ e.runs[i].files # e.runs[1].files \/ e.runs[i].warnings # e.runs[1].warnings} IN
              IF bad = {} THEN 0 ELSE CHOOSE i \in bad : \A j \in bad : i <= j
Accepted == LET d == TLCGet("stats").diameter  b == TLCGet(1) IN
            IF d - 1 = Len(Rec) /\ b = <<>> THEN PrintT(<<"ACCEPTED", Len(Rec)>>)
            ELSE /\ PrintT(<<"REJECTED-COUNT", Len(b), "of", Len(Rec), "consumed", d - 1>>)
                 /\ \A i \in 1..(IF Len(b) < 12 THEN Len(b) ELSE 12) : PrintT(<<"REJECTED", b[i], "differs-at-run", Differs(Rec[b[i]])>>)
                 /\ FALSE
====================================================================================================
