-------------------------------------------- MODULE Visitor -----------------------------------------
(* Traversal of a compiled file by a visitor (slicec/src/visitor.rs: the visit_with functions; C20).  *)
(*                                                                                                    *)
(* A tree is [cb, id, kids]: the callback the element is presented with, its identity (the scoped      *)
(* identifier of a declared element, the type string of a type reference) and its children in source   *)
(* order - for a file: the module declaration, then the definitions; for a definition: its members;     *)
(* for an operation: the parameters, then the return members; for a member / alias: its type; for a     *)
(* type reference: the element / key, value / success, failure types nested in it.                      *)
(*                                                                                                    *)
(* Reference layer  : PreOrder(t) - the element, then the traversals of its children in order.         *)
(* Operational layer: the walk as the code performs it - every visit_with presents its element and      *)
(*                    then calls visit_with on each child; here an explicit stack of                    *)
(*                    [node, next child] frames, one step per presentation or return.                   *)
EXTENDS Naturals, Sequences, FiniteSets

\* ---- reference
RECURSIVE PreOrder(_), Flat(_, _)
Flat(ss, i) == IF i > Len(ss) THEN <<>> ELSE ss[i] \o Flat(ss, i + 1)
PreOrder(t) == <<[cb |-> t.cb, id |-> t.id]>> \o Flat([i \in 1..Len(t.kids) |-> PreOrder(t.kids[i])], 1)

\* ---- operational: a machine state is [stack, out]
Start(t) == [stack |-> <<[node |-> t, next |-> 1]>>, out |-> <<[cb |-> t.cb, id |-> t.id]>>]
Halted(m) == m.stack = <<>>
Top(m) == m.stack[Len(m.stack)]
\* present the next child of the top frame (and descend into it)
CanDescend(m) == ~Halted(m) /\ Top(m).next <= Len(Top(m).node.kids)
Descend(m) == LET f == Top(m)  c == f.node.kids[f.next] IN
              [stack |-> Append([m.stack EXCEPT ![Len(m.stack)].next = f.next + 1], [node |-> c, next |-> 1]),
               out |-> Append(m.out, [cb |-> c.cb, id |-> c.id])]
\* all children of the top frame are done: its visit_with returns
CanReturn(m) == ~Halted(m) /\ Top(m).next > Len(Top(m).node.kids)
Return(m) == [stack |-> SubSeq(m.stack, 1, Len(m.stack) - 1), out |-> m.out]
Step(m) == IF CanDescend(m) THEN Descend(m) ELSE Return(m)
\* the whole walk (used by the trace specification; MC_Visitor checks the machine step by step)
RECURSIVE RunFrom(_)
RunFrom(m) == IF Halted(m) THEN m.out ELSE RunFrom(Step(m))
Walk(t) == RunFrom(Start(t))

\* ---- what C20 demands of a presented sequence (stated on the sequence alone)
NoDup(s) == \A i, j \in 1..Len(s) : i # j => s[i] # s[j]
\* size of a tree
RECURSIVE Size(_), SumSizes(_, _)
SumSizes(ks, i) == IF i > Len(ks) THEN 0 ELSE Size(ks[i]) + SumSizes(ks, i + 1)
Size(t) == 1 + SumSizes(t.kids, 1)
====================================================================================================
