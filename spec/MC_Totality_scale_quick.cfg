INIT Init
NEXT Next
CONSTANTS
  COMMA = ","
  EQ = "="
  BSL = "b"
  WS = {"s"}
  Family = "scale"
  MaxSoup = 1
  ScaleTier = "quick"
INVARIANTS Emit
CHECK_DEADLOCK FALSE
