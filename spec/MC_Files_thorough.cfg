INIT Init
NEXT Next
CONSTANTS
  Tree <- Skeleton
  SliceNames <- Names
  MaxSrc = 2
  MaxRef = 2
  SpellingSet = "all"
INVARIANT ResolveOk
CHECK_DEADLOCK FALSE
