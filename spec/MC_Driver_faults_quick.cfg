SPECIFICATION Spec
CONSTANTS
  NGen = 2
  PipeCap = 1
  Payload = 2
  ReplyLen = 2
  Mode = "faults"
  Behs = {"ok0", "ok1", "ok2", "okinfo", "okwarn", "oksource", "missing", "noexec", "exit1", "exit255", "sigkill", "sigsegv", "replykill", "replyabrt", "stderr0", "noread", "trunc1", "truncmid", "trunclast", "badbool", "badutf8", "badutf8cut", "badcontents", "badcontentsmid", "badmsg", "badmsgcut", "badsource", "badsourcecut", "badlevel", "hugesize", "empty"}
  AllowReplyFirst = FALSE
INVARIANTS GeneratorsOnlyAfterCleanCompile DryRunMeansNoGenerators WarningsDoNotBlock ExitNonZeroIffError EveryFailureNamesItsGenerator OtherGeneratorsHonoured FilesOnlyFromDecodedReply MeetsExpected DeadlockFree
PROPERTY NoHang
CHECK_DEADLOCK FALSE
