----------------------------------------- MODULE MC_Totality ----------------------------------------
(* Input generators for C01 (every input yields a verdict).  Families:                               *)
(*  "soup"    : token sequences of length 1..MaxSoup over the full token alphabet (keywords,          *)
(*              punctuation, literals, comment and preprocessor lexemes, error lexemes, exotic code   *)
(*              points) x the context they are spliced into x the glue between tokens                 *)
(*  "typepos" : every type form x optional in every type position; for bases and underlying types the *)
(*              specification knows the verdict (Legal)                                               *)
(*  "scale"   : families of programs whose size is the parameter n; the time bound is the property     *)
(*  "options" : one command-line option at a time over a value alphabet (binary runs with --dry-run);  *)
(*              UsageError says when the option grammar must reject (exit status 2): -G by the          *)
(*              reference parser Options!Ref, -A by the lint names, --diagnostic-format by its values  *)
EXTENDS Options, TLC, Json
CONSTANTS Family, MaxSoup, ScaleTier

SeqsOver(S, lo, hi) == UNION {[1..m -> S] : m \in lo..hi}

\* ---- soup.  Tokens are written as themselves when plain ASCII, otherwise by name (harness/src/fam_totality.rs TOKENS).
Keywords == {"module", "struct", "interface", "enum", "custom", "typealias", "Result", "Sequence", "Dictionary", "compact", "idempotent",
             "stream", "tag", "unchecked", "bool", "int32", "varuint62", "float64", "string"}
Punct == {"{", "}", "(", ")", "[", "]", "[[", "]]", "<", ">", ",", ":", "::", "=", "?", "->", "-", "#"}
Literals == {"Foo", "x", "<escaped-keyword>", "0", "5", "-1", "0x10", "<huge-int>", "<string>", "<empty-string>", "<unterminated-string>", "<doc>",
             "<line-comment>", "<block-comment>", "<unterminated-block-comment>", "<pp-if>", "<pp-endif>", "<pp-define>", "<pp-else>", "<pp-bogus>",
             \* directives that hold a letter outside ASCII, a digit first, a lone operator
             "<pp-define-accent>", "<pp-if-accent>", "<pp-undef-greek>", "<pp-if-digit>", "<pp-if-amp>", "<pp-elif-accent>"}
Exotic == {"<nul>", "<bom>", "<cr>", "<crlf>", "<nbsp>", "<emoji>", "<u3000>", "@", "<backslash>", "$", "'", ";", ".", "|"}
Tokens == Keywords \cup Punct \cup Literals \cup Exotic
Contexts == {"bare", "aftermodule", "structbody", "params", "attr", "typepos", "enumbody", "doc"}
Glues == {"sp", "none"}

\* ---- typepos
Forms == {"prim", "struct", "interface", "enum", "custom", "alias", "aliasprim", "aliasiface", "seq", "dict", "res", "missing", "module", "self", "seqself", "global"}
Positions == {"base", "base2", "underlying", "key", "value", "element", "aliastarget", "field", "taggedfield", "param", "streamparam", "ret", "retmember",
              "resok", "reserr", "enumfield"}
\* what the specification knows about the verdict ("unknown": only totality is required)
Legal(form, opt, pos) ==
  \* a base is an interface.  ('interface A : I? {}' is accepted by the compiler, the '?' is ignored; no listed rule speaks
  \* about optional bases, so the specification does not demand an error there - it did at first, a false alarm)
  CASE pos \in {"base", "base2"} -> IF form \in {"interface", "aliasiface"} THEN "unknown" ELSE "error"
    [] pos = "underlying" -> IF form \in {"prim", "aliasprim"} /\ ~opt THEN "ok" ELSE "error"                       \* an underlying type is integral
    [] form \in {"missing", "module"} -> "error"                                                                    \* designates nothing / not a type
    [] OTHER -> "unknown"

\* ---- scale: (family, n); the sizes stay below 8 KiB (the harness reports the byte size; the bound scales above that)
ScaleFamilies == {"dag", "cyc", "aliaschain", "ifacechain", "ifacedense", "seqnest", "dictnest", "resnest", "parens", "nots", "files", "longid", "fields",
                  "enumerators", "attrs", "doclines", "doctags", "optchain", "modulenest", "dagseq", "cycopt", "aliasdouble", "keydouble"}
ScaleSizes(f) ==
  CASE f \in {"dag", "dagseq"} -> IF ScaleTier = "quick" THEN {4, 8, 12, 16, 20, 24, 26, 28, 32} ELSE 2..40
    \* complete cyclic graphs: 9 nodes take about a second, 11 nodes minutes (n = 10 sits at the bound and is left out: a
    \* check must not depend on the load of the machine); 11 and 12 are recorded as an open finding
    [] f \in {"cyc", "cycopt"} -> IF ScaleTier = "quick" THEN {2, 3, 4, 5, 6, 7, 8, 9, 11} ELSE {2, 3, 4, 5, 6, 7, 8, 9, 11, 12}
    \* aliases that name the alias before them twice ('typealias A3 = Result<A2, A2>') and compact key structs that hold the one
    \* before them twice: what is walked doubles with every level.  20 levels take a second when the request is encoded too
    \* (24 levels: 1 s to validate, 16 s to encode - too close to the bound for a check that must not depend on the machine,
    \* as a run in a fresh sandbox showed; left out); 32 levels are recorded as an open finding
    [] f \in {"aliasdouble", "keydouble"} -> IF ScaleTier = "quick" THEN {4, 12, 16, 20, 32} ELSE {2, 4, 8, 12, 16, 18, 20, 32}
    [] f = "ifacedense" -> IF ScaleTier = "quick" THEN {4, 8, 12, 16, 20, 24, 28, 32, 40} ELSE 2..40   \* (40 interfaces: 5 KiB)
    [] f \in {"seqnest", "dictnest", "resnest", "parens", "nots", "modulenest"} -> IF ScaleTier = "quick" THEN {1, 8, 64, 256, 700} ELSE {1, 2, 4, 8, 16, 32, 64, 128, 256, 512, 700}
    [] f = "files" -> IF ScaleTier = "quick" THEN {1, 16, 64} ELSE {1, 2, 4, 8, 16, 32, 64}
    [] OTHER -> IF ScaleTier = "quick" THEN {1, 10, 100} ELSE {1, 2, 5, 10, 20, 50, 100, 150}

\* ---- options
Chars == {"a", "s", ",", "=", "b"}
OptValues == SeqsOver(Chars, 0, 3)
LintValues == {"All", "all", "Deprecated", "deprecated", "DUPLICATEFILE", "BrokenDocLink", "", "a", "s", "Nope", "Deprecated,All"}
FormatValues == {"human", "json", "JSON", "Human", "", "a", "xml"}
LintNames == {"all", "deprecated", "duplicatefile", "brokendoclink", "incorrectdoccomment", "malformeddoccomment"}
Lower(v) == CASE v = "All" -> "all" [] v = "Deprecated" -> "deprecated" [] v = "DUPLICATEFILE" -> "duplicatefile" [] v = "BrokenDocLink" -> "brokendoclink"
              [] v = "JSON" -> "json" [] v = "Human" -> "human" [] OTHER -> v
OptionCases == [opt : {"-G"}, chars : OptValues] \cup [opt : {"-D", "-O"}, chars : OptValues]
               \cup [opt : {"-A"}, word : LintValues] \cup [opt : {"--diagnostic-format"}, word : FormatValues]
               \cup [opt : {"--dry-run", "--disable-color", "none", "--bogus", "-G-missing-value"}, word : {""}]
UsageError(o) ==
  CASE o.opt = "-G" -> Ref(o.chars).res # "ok"
    [] o.opt = "-A" -> Lower(o.word) \notin LintNames
    [] o.opt = "--diagnostic-format" -> Lower(o.word) \notin {"human", "json"}
    [] o.opt \in {"--bogus", "-G-missing-value"} -> TRUE
    [] OTHER -> FALSE                                                       \* -D and -O take any text, also the empty string

\* definitions that take the name of something built in (written escaped), in a module or - illegally - outside of any, in
\* front of something that uses the plain keyword
TakenNames == {"int32", "string", "bool", "uint8", "varuint62", "float64", "Sequence", "Dictionary", "Result", "module", "Foo"}
DefKinds == {"struct", "cstruct", "enum", "enumu8", "custom", "alias", "interface"}
Uses == {"none", "field", "param", "ret", "underlying", "aliastarget", "element", "key", "base", "self"}
VARIABLE c
Init ==
  CASE Family = "taken" -> c \in [fam : {"taken"}, name : TakenNames, kind : DefKinds, use : Uses, inmodule : BOOLEAN, second : BOOLEAN]
    [] Family = "soup" -> c \in [fam : {"soup"}, ctx : Contexts, glue : Glues, toks : SeqsOver(Tokens, 1, MaxSoup)]
    [] Family = "typepos" -> c \in [fam : {"typepos"}, form : Forms, opt : BOOLEAN, pos : Positions]
    [] Family = "scale" -> c \in UNION {[fam : {"scale"}, f : {f}, n : ScaleSizes(f)] : f \in ScaleFamilies}
    [] Family = "options" -> c \in [fam : {"options"}, o : OptionCases, second : BOOLEAN]
Next == UNCHANGED c
Emit == PrintT(<<"CASE", ToJson(
  CASE c.fam = "typepos" -> [fam |-> "typepos", form |-> c.form, opt |-> c.opt, pos |-> c.pos, expect |-> Legal(c.form, c.opt, c.pos)]
    [] c.fam = "options" -> [fam |-> "options", o |-> c.o, second |-> c.second, usage |-> UsageError(c.o)]
    [] OTHER -> c)>>)
====================================================================================================
