INIT InitBigValues
NEXT Next
CONSTANTS
  D = 0
  Full16 = FALSE
  StrLen = 0
  FullLen = 0
  RepLen = 0
  Big = {31, 32, 33, 63, 64, 65}
INVARIANTS RoundTripHolds EmitValue
CHECK_DEADLOCK FALSE
