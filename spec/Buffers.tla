------------------------------------------ MODULE Buffers ------------------------------------------
(* Output targets and input sources of slice-codec (slice-codec/src/buffer/{mod,slice,vec}.rs).     *)
(*                                                                                                  *)
(* An output target is an append-only byte log with reservations:                                   *)
(*   kind  "slice" : fixed capacity cap; a reservation only advances the position, so unwritten      *)
(*                   reserved bytes keep what the caller's buffer held (Fill)                       *)
(*   kind  "vec"   : grows without bound; reserved bytes are zeroed                                 *)
(*   log           : the bytes up to the position (1-based)                                         *)
(*   resv          : live reservations [s, e] = half-open range s < i <= e of log indices that can  *)
(*                   still be written through the reservation (shrinks from the front)              *)
(* Every operation has an explicit failing variant that changes nothing.  `last` records the        *)
(* outcome of the operation just performed (it is what a caller observes).                          *)
EXTENDS Naturals, Sequences, FiniteSets

CONSTANTS Kinds,      \* subset of {"slice", "vec"}
          Caps,       \* capacities tried for the fixed slice
          MaxK        \* sizes 0..MaxK

VARIABLES kind, cap, log, resv, n, last
bvars == <<kind, cap, log, resv, n, last>>

\* payload bytes identify the step that wrote them; Fill is what the caller's slice held before
Byte(step, j) == (31 * step + 7 * j) % 251
Payload(step, k) == [j \in 1..k |-> Byte(step, j)]
Fill(i) == 255 - (i % 4)
Unwritten(i) == IF kind = "slice" THEN Fill(i) ELSE 0

Fits(k) == kind = "vec" \/ Len(log) + k <= cap
Remaining == IF kind = "slice" THEN cap - Len(log) ELSE 0        \* only meaningful for the fixed slice

Outcome(op, k, r, ok) == [op |-> op, k |-> k, r |-> r, ok |-> ok]

BInit == /\ kind \in Kinds
         /\ cap \in (IF kind = "slice" THEN Caps ELSE {0})
         /\ log = <<>> /\ resv = <<>> /\ n = 0
         /\ last = Outcome("init", 0, 0, TRUE)

WriteByteOk   == /\ Fits(1)
                 /\ log' = Append(log, Byte(n + 1, 1))
                 /\ UNCHANGED resv /\ last' = Outcome("wb", 1, 0, TRUE)
WriteByteFail == /\ ~Fits(1)
                 /\ UNCHANGED <<log, resv>> /\ last' = Outcome("wb", 1, 0, FALSE)

WriteBytesOk(k)   == /\ Fits(k)
                     /\ log' = log \o Payload(n + 1, k)
                     /\ UNCHANGED resv /\ last' = Outcome("w", k, 0, TRUE)
WriteBytesFail(k) == /\ ~Fits(k)
                     /\ UNCHANGED <<log, resv>> /\ last' = Outcome("w", k, 0, FALSE)

ReserveOk(k)   == /\ Fits(k)
                  /\ log' = log \o [j \in 1..k |-> Unwritten(Len(log) + j)]
                  /\ resv' = Append(resv, [s |-> Len(log), e |-> Len(log) + k])
                  /\ last' = Outcome("r", k, Len(resv) + 1, TRUE)
ReserveFail(k) == /\ ~Fits(k)
                  /\ UNCHANGED <<log, resv>> /\ last' = Outcome("r", k, 0, FALSE)

\* a reservation no address space can hold (k = 0: the largest size there is; k = 1: the smallest size for which position +
\* size no longer fits a machine word): it fails on both kinds of target and, like every failing operation, changes nothing
ReserveHuge(k) == /\ UNCHANGED <<log, resv>> /\ last' = Outcome("rh", k, 0, FALSE)

\* a write through a reservation that was made on ANOTHER, longer target and lies beyond the end of this one (k bytes into the
\* 3 bytes it spans): a reservation is only a range, so the target has to check it - it fails and changes nothing
WriteForeign(k) == /\ UNCHANGED <<log, resv>> /\ last' = Outcome("wf", k, 0, FALSE)

Room(r) == resv[r].e - resv[r].s
WriteResOk(r, k)   == /\ Room(r) >= k
                      /\ log' = [i \in 1..Len(log) |->
                                   IF i > resv[r].s /\ i <= resv[r].s + k THEN Byte(n + 1, i - resv[r].s) ELSE log[i]]
                      /\ resv' = [resv EXCEPT ![r].s = @ + k]                          \* shrunk from the front
                      /\ last' = Outcome("wr", k, r, TRUE)
WriteResFail(r, k) == /\ Room(r) < k
                      /\ UNCHANGED <<log, resv>> /\ last' = Outcome("wr", k, r, FALSE)

Tick  == n' = n + 1 /\ UNCHANGED <<kind, cap>>
BNext == /\ Tick
         /\ \/ WriteByteOk \/ WriteByteFail
            \/ \E k \in 0..MaxK : WriteBytesOk(k) \/ WriteBytesFail(k)
            \/ \E k \in 0..MaxK : ReserveOk(k) \/ ReserveFail(k)
            \/ \E k \in 0..1 : ReserveHuge(k)
            \/ \E k \in 0..1 : WriteForeign(k)
            \/ \E r \in 1..Len(resv), k \in 0..MaxK : WriteResOk(r, k) \/ WriteResFail(r, k)

----------------------------------------------------------------------------------------------------
(* Invariants (C12)                                                                                 *)

ReservationsInsideLog == \A r \in 1..Len(resv) : resv[r].s <= resv[r].e /\ resv[r].e <= Len(log)
ReservationsDisjoint  == \A a, b \in 1..Len(resv) : a < b => resv[a].e <= resv[b].s
NeverPastCap          == kind = "slice" => Len(log) <= cap
\* Unwritten reserved bytes still hold the initial value (zero in the growable target).
ReservedUntouched     == \A r \in 1..Len(resv) : \A i \in (resv[r].s + 1)..resv[r].e : log[i] = Unwritten(i)

InLiveReservation(i)  == \E r \in 1..Len(resv) : i > resv[r].s /\ i <= resv[r].e

\* Action properties: the old log survives every step except inside a reservation that was live before the step;
\* a failing operation changes nothing.
AppendOnlyStep == /\ Len(log') >= Len(log)
                  /\ \A i \in 1..Len(log) : log'[i] # log[i] => InLiveReservation(i)
FailureChangesNothingStep == ~last'.ok => (log' = log /\ resv' = resv)
ReservedWriteStaysInsideStep ==
   last'.op = "wr" /\ last'.ok =>
       /\ Len(log') = Len(log)
       /\ \A i \in 1..Len(log) : log'[i] # log[i] => (i > resv[last'.r].s /\ i <= resv[last'.r].s + last'.k)

====================================================================================================
