----------------------------------------- MODULE MC_Emitter -----------------------------------------
EXTENDS Emitter, TLC, Json
CONSTANTS MaxLen, Colours

N0 == <<>>
N1 == <<[msg |-> 2, span |-> "none"]>>
N2 == <<[msg |-> 3, span |-> "single"], [msg |-> 1, span |-> "multi"]>>
\* three notes that say the same about three different places: each is a note of its own
N3 == <<[msg |-> 2, span |-> "single"], [msg |-> 2, span |-> "multi"], [msg |-> 2, span |-> "none"]>>
\* ten shapes: error / lint x span x notes x message
Shapes == {
  [kind |-> "error", code |-> "E002", msg |-> 1, span |-> "none",   notes |-> N0],
  [kind |-> "error", code |-> "E002", msg |-> 2, span |-> "single", notes |-> N1],
  [kind |-> "error", code |-> "E001", msg |-> 3, span |-> "multi",  notes |-> N2],
  [kind |-> "error", code |-> "E002", msg |-> 4, span |-> "single", notes |-> N0],
  [kind |-> "lint",  code |-> "Deprecated",          msg |-> 1, span |-> "single", notes |-> N1],
  [kind |-> "lint",  code |-> "BrokenDocLink",       msg |-> 2, span |-> "none",   notes |-> N0],
  [kind |-> "lint",  code |-> "MalformedDocComment", msg |-> 3, span |-> "multi",  notes |-> N0],
  [kind |-> "lint",  code |-> "IncorrectDocComment", msg |-> 5, span |-> "single", notes |-> N2],
  [kind |-> "lint",  code |-> "DuplicateFile",       msg |-> 4, span |-> "none",   notes |-> N0],
  [kind |-> "lint",  code |-> "Deprecated",          msg |-> 5, span |-> "multi",  notes |-> N3]
}
Lists == UNION {[1..m -> Shapes] : m \in 0..MaxLen}
Allows == {{}, {"All"}, {"Deprecated"}, {"BrokenDocLink", "DuplicateFile"}}
VARIABLE colour
Init == EInit(Lists, Allows, {"human", "json"}) /\ colour \in Colours
DoSkipAllowed == SkipAllowed /\ UNCHANGED colour
DoEmitOne     == EmitOne /\ UNCHANGED colour
Next == DoSkipAllowed \/ DoEmitOne
Spec == Init /\ [][Next]_<<evars, colour>>
Emit == Finished => PrintT(<<"CASE", ToJson([diags |-> diags, allow |-> allow, format |-> format, colour |-> colour,
                                              expect |-> Expected(diags, allow, format)])>>)
====================================================================================================
