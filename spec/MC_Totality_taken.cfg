INIT Init
NEXT Next
CONSTANTS
  COMMA = ","
  EQ = "="
  BSL = "b"
  WS = {"s"}
  Family = "taken"
  MaxSoup = 1
  ScaleTier = "quick"
INVARIANTS Emit
CHECK_DEADLOCK FALSE
