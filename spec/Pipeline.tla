------------------------------------------- MODULE Pipeline -----------------------------------------
(* The compilation pipeline as a state machine (lib.rs compile_from_options / compile_files,          *)
(* compilation_state.rs apply, patchers/mod.rs patch_ast, validators/mod.rs validate_ast, main.rs;    *)
(* C01, also the frame of C07).  A phase either completes - possibly adding error diagnostics - or,    *)
(* in the pinned tree, crashes or fails to come back (the named deviations).  Every later phase of     *)
(* the front end runs only if no error was recorded so far; the binary then hands the program to the   *)
(* generators, rewrites the diagnostics, emits them and exits.                                        *)
(*   Reference : a run is Start followed by exactly one Verdict; exit = 1 <=> an error was reported;   *)
(*               exit = 2 only for a command line the option grammar rejects.                          *)
EXTENDS Naturals, Sequences, FiniteSets

CONSTANTS Mode,          \* "lib" (compile_from_strings / compile_from_options) or "bin" (the slicec binary)
          Dev            \* set of deviations of the pinned tree that are switched on (see CrashPoints)

Phases == <<"options", "resolve", "parse", "patch_attributes", "patch_types", "patch_links", "cycles", "redefinitions",
            "validate", "encode", "generate", "update", "emit">>
FrontEnd == {"parse", "patch_attributes", "patch_types", "patch_links", "cycles", "redefinitions", "validate"}
BinaryOnly == {"options", "encode", "generate", "update", "emit"}
\* where the pinned tree could leave the pipeline without a verdict; each is a defect found by the checks and repaired
CrashPoints == [baseUnwrap |-> "parse",          \* 'interface A : Sequence<int8>' : downcast(...).unwrap()
                dedentPanic |-> "parse",         \* mixed-width comment indentation: replace_range inside a character
                inheritLoop |-> "cycles",        \* 'A : B, B : A' : unbounded recursion in all_base_interfaces
                emptyGenerator |-> "options",    \* -G "" : assert!(!s.is_empty())
                noModule |-> "encode"]           \* a file without module: unwrap in the request converter
SlowPoints == [cycleSearch |-> "cycles"]         \* path enumeration exponential in dense graphs

VARIABLES pc,        \* index into Phases, or Len(Phases) + 1 when finished
          errors,    \* has an error diagnostic been recorded
          usage,     \* the command line was rejected by the option grammar
          outcome    \* "running" | "verdict" | "crash" | "hang"
vars == <<pc, errors, usage, outcome>>

Phase == IF pc <= Len(Phases) THEN Phases[pc] ELSE "end"
Runs(p) == /\ (p \in BinaryOnly => Mode = "bin")
           /\ (p \in FrontEnd \cup {"resolve"} => ~errors)          \* CompilationState::apply: only while error-free
           /\ (p \in {"encode", "generate"} => ~errors)             \* generators only see valid programs
Init == pc = 1 /\ errors = FALSE /\ usage = FALSE /\ outcome = "running"
Skip == /\ outcome = "running" /\ pc <= Len(Phases) /\ ~Runs(Phase)
        /\ pc' = pc + 1 /\ UNCHANGED <<errors, usage, outcome>>
Complete(addsError) ==
        /\ outcome = "running" /\ pc <= Len(Phases) /\ Runs(Phase)
        /\ (addsError => Phase \notin {"update", "emit", "options"})
        /\ errors' = (errors \/ addsError)
        /\ pc' = pc + 1 /\ UNCHANGED <<usage, outcome>>
UsageError == /\ outcome = "running" /\ Phase = "options" /\ Mode = "bin"
              /\ usage' = TRUE /\ outcome' = "verdict" /\ UNCHANGED <<pc, errors>>
Crash == /\ outcome = "running" /\ pc <= Len(Phases) /\ Runs(Phase)
         /\ \E d \in Dev \cap DOMAIN CrashPoints : CrashPoints[d] = Phase
         /\ outcome' = "crash" /\ UNCHANGED <<pc, errors, usage>>
Hang ==  /\ outcome = "running" /\ pc <= Len(Phases) /\ Runs(Phase)
         /\ \E d \in Dev \cap DOMAIN SlowPoints : SlowPoints[d] = Phase
         /\ outcome' = "hang" /\ UNCHANGED <<pc, errors, usage>>
Finish == /\ outcome = "running" /\ pc = Len(Phases) + 1
          /\ outcome' = "verdict" /\ UNCHANGED <<pc, errors, usage>>
Next == Skip \/ Complete(TRUE) \/ Complete(FALSE) \/ UsageError \/ Crash \/ Hang \/ Finish
Spec == Init /\ [][Next]_vars /\ WF_vars(Skip \/ Complete(TRUE) \/ Complete(FALSE) \/ Finish)

ExitStatus == IF usage THEN 2 ELSE IF errors THEN 1 ELSE 0
\* ---- properties
TypeOK == pc \in 1..(Len(Phases) + 1) /\ errors \in BOOLEAN /\ usage \in BOOLEAN /\ outcome \in {"running", "verdict", "crash", "hang"}
NeverCrashes == outcome \notin {"crash", "hang"}                       \* violated exactly when Dev # {}
VerdictConsistent == outcome = "verdict" => (ExitStatus = 1 <=> (errors /\ ~usage)) /\ (ExitStatus = 2 <=> usage)
\* an error stops the front end: no front-end phase completes after an error was recorded (action property)
ErrorGates == [][errors /\ Phase \in FrontEnd => (pc' = pc + 1 /\ errors' = errors /\ outcome' = outcome)]_vars
DoneReached == <>(outcome = "verdict")                                \* every run ends in a verdict (liveness; fails with Dev)
====================================================================================================
