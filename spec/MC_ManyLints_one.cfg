INIT Init
NEXT Next
CONSTANTS
  MaxSupp = 1
INVARIANTS RefEqOp NonInterference NoLeak Emit
CHECK_DEADLOCK FALSE
