INIT Init
NEXT Next
CONSTANTS
  MaxSupp = 1
INVARIANTS RefEqOp NonInterference Emit
CHECK_DEADLOCK FALSE
