SPECIFICATION Spec
CONSTANTS
  NGen = 2
  PipeCap = 1
  Payload = 2
  ReplyLen = 2
  Mode = "gating"
  Behs = {"ok1", "exit1", "missing"}
  AllowReplyFirst = FALSE
INVARIANTS GeneratorsOnlyAfterCleanCompile DryRunMeansNoGenerators WarningsDoNotBlock ExitNonZeroIffError EveryFailureNamesItsGenerator OtherGeneratorsHonoured FilesOnlyFromDecodedReply MeetsExpected DeadlockFree
PROPERTY NoHang
CHECK_DEADLOCK FALSE
