INIT InitAlias
NEXT NextNone
CONSTANTS
  Ns = {2, 3}
  Variants = {1, 2}
  Mixed = {FALSE}
  KindPats = {"struct"}
  Compacts = {FALSE}
  MaxEdges = 0
  Family = "alias"
INVARIANT EmitAlias
CHECK_DEADLOCK FALSE
