------------------------------------------- MODULE Emitter ------------------------------------------
(* Diagnostic emission (slicec/src/diagnostic_emitter.rs, diagnostics/diagnostic.rs get_totals,      *)
(* into_updated stage 1; C14).                                                                      *)
(*                                                                                                  *)
(* Input : a list of diagnostics [kind |-> "error" | "lint", code, msg, span, notes] where          *)
(*         span \in {"none", "single", "multi"} and notes is a sequence of [msg, span];             *)
(*         the --allow list; the format; colour on / off.                                           *)
(* Output: the sequence of emitted records, the totals and the exit status.                         *)
(* Reference layer  : Shown(diags) = the sub-sequence of diagnostics that are not suppressed.       *)
(* Operational layer: one step per diagnostic (SkipAllowed | EmitOne), then Totals.                 *)
EXTENDS Naturals, Sequences, FiniteSets

LintCodes == {"Deprecated", "BrokenDocLink", "IncorrectDocComment", "MalformedDocComment", "DuplicateFile"}

\* stage 1 of into_updated: a lint named by --allow (or All) is suppressed; errors never are
Suppressed(d, allow) == d.kind = "lint" /\ ("All" \in allow \/ d.code \in allow)
Severity(d) == IF d.kind = "error" THEN "error" ELSE "warning"

RECURSIVE Filter(_, _, _)
Filter(ds, i, allow) == IF i > Len(ds) THEN <<>>
                        ELSE (IF Suppressed(ds[i], allow) THEN <<>> ELSE <<ds[i]>>) \o Filter(ds, i + 1, allow)
Shown(ds, allow) == Filter(ds, 1, allow)

RecordOf(d) == [severity |-> Severity(d), code |-> d.code, msg |-> d.msg, span |-> d.span, notes |-> d.notes]
Count(recs, sev) == Cardinality({i \in 1..Len(recs) : recs[i].severity = sev})

\* what a run must produce
Expected(ds, allow, format) ==
  LET recs == [i \in 1..Len(Shown(ds, allow)) |-> RecordOf(Shown(ds, allow)[i])] IN
  [records  |-> recs,                                       \* exactly once each, in the order recorded
   warnings |-> Count(recs, "warning"),
   errors   |-> Count(recs, "error"),
   summary  |-> format = "human",                           \* no summary in JSON format
   exit     |-> IF Count(recs, "error") > 0 THEN 1 ELSE 0]

----------------------------------------------------------------------------------------------------
VARIABLES diags, allow, format, i, out
evars == <<diags, allow, format, i, out>>

EInit(lists, allows, formats) == /\ diags \in lists /\ allow \in allows /\ format \in formats
                                 /\ i = 1 /\ out = <<>>
SkipAllowed == /\ i <= Len(diags) /\ Suppressed(diags[i], allow)
               /\ i' = i + 1 /\ UNCHANGED <<diags, allow, format, out>>
EmitOne == /\ i <= Len(diags) /\ ~Suppressed(diags[i], allow)
           /\ out' = Append(out, RecordOf(diags[i]))
           /\ i' = i + 1 /\ UNCHANGED <<diags, allow, format>>
ENext == SkipAllowed \/ EmitOne
Finished == i > Len(diags)

EmittedEqFilterNonAllowedInOrder == Finished => out = Expected(diags, allow, format).records
ExactlyOnce == Finished => Len(out) = Cardinality({j \in 1..Len(diags) : ~Suppressed(diags[j], allow)})
SuppressedLeaveNoTrace == \A j \in 1..Len(out) : \E k \in 1..Len(diags) : out[j] = RecordOf(diags[k]) /\ ~Suppressed(diags[k], allow)
ErrorsNeverSuppressed == Finished => Count(out, "error") = Cardinality({j \in 1..Len(diags) : diags[j].kind = "error"})
PrefixOrder == \A j \in 1..Len(out) : out[j] = RecordOf(Shown(diags, allow)[j])
====================================================================================================
