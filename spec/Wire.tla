-------------------------------------------- MODULE Wire --------------------------------------------
(* The Slice wire format as slice-codec implements it (slice-codec/src/{encoding,decoding}.rs).     *)
(*                                                                                                  *)
(* 64-bit quantities are sequences of 8 base-256 digits, little endian, two's complement (TLC's     *)
(* integers are 32-bit).  Floats are opaque bit patterns (the model decides byte order and pattern  *)
(* preservation only).  Strings are sequences of code points.                                       *)
(*                                                                                                  *)
(*   Enc(t, v)        = [ok |-> TRUE, bytes |-> <<...>>]  or  [ok |-> FALSE]   (value refused)      *)
(*   Dec(t, bs, pos)  = [ok |-> TRUE, v |-> value, pos |-> position after the value]                *)
(*                      or [ok |-> FALSE, err |-> kind]                                             *)
(* Dec is total over byte strings (C11): every failure is an error value of a named kind.           *)
EXTENDS Naturals, Integers, Sequences, FiniteSets

----------------------------------------------------------------------------------------------------
(* Digit arithmetic                                                                                 *)

Zero8 == [i \in 1..8 |-> 0]
Pow2Digits(k) == [i \in 1..8 |-> IF i = (k \div 8) + 1 THEN 2 ^ (k % 8) ELSE 0]         \* 2^k, 0 <= k <= 63

RECURSIVE AddSmallAt(_, _, _)
AddSmallAt(ds, i, c) == IF i > 8 \/ c = 0 THEN ds
                        ELSE LET t == ds[i] + c IN AddSmallAt([ds EXCEPT ![i] = t % 256], i + 1, t \div 256)
AddSmall(ds, d) == AddSmallAt(ds, 1, d)                                                  \* + d (mod 2^64), d >= 0
Neg(ds) == AddSmall([i \in 1..8 |-> 255 - ds[i]], 1)                                    \* two's complement
SubSmall(ds, d) == Neg(AddSmall(Neg(ds), d))                                            \* - d (mod 2^64)
FromNat(x) == AddSmall(Zero8, x)
FromInt(x) == IF x >= 0 THEN FromNat(x) ELSE Neg(FromNat(0 - x))

HighZeroFrom(ds, i) == \A j \in i..8 : ds[j] = 0
HighOnesFrom(ds, i) == \A j \in i..8 : ds[j] = 255
IsNeg(ds) == ds[8] >= 128

\* value as a TLC integer when it is a small natural (< 2^24), else -1
ToSmallNat(ds) == IF HighZeroFrom(ds, 4) THEN ds[1] + 256 * ds[2] + 65536 * ds[3] ELSE 0 - 1

\* does the 64-bit value fit an integer type of w bytes?
FitsUnsigned(ds, w) == HighZeroFrom(ds, w + 1)
FitsSigned(ds, w)   == IF IsNeg(ds) THEN HighOnesFrom(ds, w + 1) /\ ds[w] >= 128
                       ELSE HighZeroFrom(ds, w + 1) /\ ds[w] < 128

----------------------------------------------------------------------------------------------------
(* Types                                                                                            *)

Fixed(w, signed) == [k |-> "fixed", w |-> w, signed |-> signed]
VarInt(w)  == [k |-> "varint", w |-> w]          \* decoded into a signed integer of w bytes (4: varint32, 8: varint62)
VarUInt(w) == [k |-> "varuint", w |-> w]         \* decoded into an unsigned integer of w bytes
SeqOf(e)   == [k |-> "seq", e |-> e]
DictOf(a, b) == [k |-> "dict", key |-> a, val |-> b]
BoolT   == [k |-> "bool"]
StringT == [k |-> "string"]
TaggedT == [k |-> "tagged"]                      \* Decoder::skip_tagged_fields

TypeOf(name) ==
  CASE name = "bool" -> BoolT
    [] name = "u8"  -> Fixed(1, FALSE) [] name = "i8"  -> Fixed(1, TRUE)
    [] name = "u16" -> Fixed(2, FALSE) [] name = "i16" -> Fixed(2, TRUE)
    [] name = "u32" -> Fixed(4, FALSE) [] name = "i32" -> Fixed(4, TRUE)
    [] name = "u64" -> Fixed(8, FALSE) [] name = "i64" -> Fixed(8, TRUE)
    [] name = "f32" -> Fixed(4, FALSE) [] name = "f64" -> Fixed(8, FALSE)          \* bit patterns
    [] name = "varint32"  -> VarInt(4)  [] name = "varint62"  -> VarInt(8)
    [] name = "varuint32" -> VarUInt(4) [] name = "varuint62" -> VarUInt(8) [] name = "size" -> VarUInt(8)
    [] name = "string" -> StringT
    [] name = "seq_u8" -> SeqOf(Fixed(1, FALSE))
    [] name = "seq_bool" -> SeqOf(BoolT)
    [] name = "seq_i16" -> SeqOf(Fixed(2, TRUE))
    [] name = "seq_string" -> SeqOf(StringT)
    [] name = "seq_seq_u8" -> SeqOf(SeqOf(Fixed(1, FALSE)))
    [] name = "seq_seq_seq_bool" -> SeqOf(SeqOf(SeqOf(BoolT)))
    [] name = "dict_u8_u8" -> DictOf(Fixed(1, FALSE), Fixed(1, FALSE))             \* BTreeMap<u8, u8>
    [] name = "hdict_u8_u8" -> DictOf(Fixed(1, FALSE), Fixed(1, FALSE))            \* HashMap<u8, u8>
    [] name = "dict_string_bool" -> DictOf(StringT, BoolT)
    [] name = "dict_u8_seq_u8" -> DictOf(Fixed(1, FALSE), SeqOf(Fixed(1, FALSE)))
    [] name = "dict_u8_dict_u8_bool" -> DictOf(Fixed(1, FALSE), DictOf(Fixed(1, FALSE), BoolT))
    [] name = "tagged" -> TaggedT

TypeNames == {"bool", "u8", "i8", "u16", "i16", "u32", "i32", "u64", "i64", "f32", "f64",
              "varint32", "varint62", "varuint32", "varuint62", "size", "string",
              "seq_u8", "seq_bool", "seq_i16", "seq_string", "seq_seq_u8", "seq_seq_seq_bool",
              "dict_u8_u8", "hdict_u8_u8", "dict_string_bool", "dict_u8_seq_u8", "dict_u8_dict_u8_bool", "tagged"}

----------------------------------------------------------------------------------------------------
(* Variable-width integers                                                                          *)

\* unsigned: the shortest of 1, 2, 4, 8 bytes that holds value * 4; 0 = out of range (>= 2^62)
UWidth(ds) == IF HighZeroFrom(ds, 2) /\ ds[1] < 64 THEN 1
              ELSE IF HighZeroFrom(ds, 3) /\ ds[2] < 64 THEN 2
              ELSE IF HighZeroFrom(ds, 5) /\ ds[4] < 64 THEN 4
              ELSE IF ds[8] < 64 THEN 8 ELSE 0
\* signed: value fits in 8w - 2 bits
SFitsVar(ds, w) == IF IsNeg(ds) THEN HighOnesFrom(ds, w + 1) /\ ds[w] >= 224
                   ELSE HighZeroFrom(ds, w + 1) /\ ds[w] < 32
SWidth(ds) == IF SFitsVar(ds, 1) THEN 1 ELSE IF SFitsVar(ds, 2) THEN 2
              ELSE IF SFitsVar(ds, 4) THEN 4 ELSE IF SFitsVar(ds, 8) THEN 8 ELSE 0
Code(w) == CASE w = 1 -> 0 [] w = 2 -> 1 [] w = 4 -> 2 [] w = 8 -> 3
RECURSIVE Shl2(_, _, _, _)
Shl2(ds, i, w, c) == IF i > w THEN <<>> ELSE LET t == ds[i] * 4 + c IN <<t % 256>> \o Shl2(ds, i + 1, w, t \div 256)

Refused == [ok |-> FALSE]
Bytes(bs) == [ok |-> TRUE, bytes |-> bs]

EncVarUInt(ds) == LET w == UWidth(ds) IN IF w = 0 THEN Refused ELSE Bytes(Shl2(ds, 1, w, Code(w)))
EncVarInt(ds)  == LET w == SWidth(ds) IN IF w = 0 THEN Refused ELSE Bytes(Shl2(ds, 1, w, Code(w)))

WidthOfCode(b) == CASE b % 4 = 0 -> 1 [] b % 4 = 1 -> 2 [] b % 4 = 2 -> 4 [] OTHER -> 8

----------------------------------------------------------------------------------------------------
(* UTF-8                                                                                            *)

IsScalar(cp) == (cp >= 0 /\ cp < 55296) \/ (cp > 57343 /\ cp < 1114112)
Utf8(cp) == IF cp < 128 THEN <<cp>>
            ELSE IF cp < 2048 THEN <<192 + (cp \div 64), 128 + (cp % 64)>>
            ELSE IF cp < 65536 THEN <<224 + (cp \div 4096), 128 + ((cp \div 64) % 64), 128 + (cp % 64)>>
            ELSE <<240 + (cp \div 262144), 128 + ((cp \div 4096) % 64), 128 + ((cp \div 64) % 64), 128 + (cp % 64)>>
RECURSIVE Utf8All(_)
Utf8All(cps) == IF cps = <<>> THEN <<>> ELSE Utf8(cps[1]) \o Utf8All(Tail(cps))

IsCont(b) == b >= 128 /\ b < 192
Invalid == <<0 - 1>>
\* decodes bs[i..j]; returns the code points or Invalid (overlong forms, surrogates, > U+10FFFF, stray bytes)
RECURSIVE Utf8Dec(_, _, _, _)
Utf8Dec(bs, i, j, acc) ==
  IF i > j THEN acc
  ELSE LET b == bs[i]
           c(n) == bs[i + n]
           has(n) == i + n <= j /\ \A h \in 1..n : IsCont(bs[i + h]) IN
    IF b < 128 THEN Utf8Dec(bs, i + 1, j, Append(acc, b))
    ELSE IF b >= 194 /\ b < 224 /\ has(1) THEN Utf8Dec(bs, i + 2, j, Append(acc, (b - 192) * 64 + (c(1) - 128)))
    ELSE IF b >= 224 /\ b < 240 /\ has(2) THEN
         LET cp == (b - 224) * 4096 + (c(1) - 128) * 64 + (c(2) - 128) IN
         IF cp >= 2048 /\ IsScalar(cp) THEN Utf8Dec(bs, i + 3, j, Append(acc, cp)) ELSE Invalid
    ELSE IF b >= 240 /\ b < 245 /\ has(3) THEN
         LET cp == (b - 240) * 262144 + (c(1) - 128) * 4096 + (c(2) - 128) * 64 + (c(3) - 128) IN
         IF cp >= 65536 /\ cp < 1114112 THEN Utf8Dec(bs, i + 4, j, Append(acc, cp)) ELSE Invalid
    ELSE Invalid

----------------------------------------------------------------------------------------------------
(* Encoding                                                                                         *)

RECURSIVE Enc(_, _), EncAll(_, _, _), EncPairs(_, _, _)
EncAll(t, vs, i) == IF i > Len(vs) THEN Bytes(<<>>)
                    ELSE LET a == Enc(t, vs[i]) b == EncAll(t, vs, i + 1) IN
                         IF a.ok /\ b.ok THEN Bytes(a.bytes \o b.bytes) ELSE Refused
EncPairs(t, ps, i) == IF i > Len(ps) THEN Bytes(<<>>)
                      ELSE LET a == Enc(t.key, ps[i].k) b == Enc(t.val, ps[i].v) c == EncPairs(t, ps, i + 1) IN
                           IF a.ok /\ b.ok /\ c.ok THEN Bytes(a.bytes \o b.bytes \o c.bytes) ELSE Refused
Enc(t, v) ==
  CASE t.k = "bool"    -> Bytes(<<IF v THEN 1 ELSE 0>>)
    [] t.k = "fixed"   -> Bytes(SubSeq(v, 1, t.w))                                   \* little endian, two's complement
    [] t.k = "varint"  -> EncVarInt(v)
    [] t.k = "varuint" -> EncVarUInt(v)
    [] t.k = "string"  -> LET body == Utf8All(v) IN Bytes(EncVarUInt(FromNat(Len(body))).bytes \o body)
    [] t.k = "seq"     -> LET body == EncAll(t.e, v, 1) IN
                          IF body.ok THEN Bytes(EncVarUInt(FromNat(Len(v))).bytes \o body.bytes) ELSE Refused
    [] t.k = "dict"    -> LET body == EncPairs(t, v, 1) IN
                          IF body.ok THEN Bytes(EncVarUInt(FromNat(Len(v))).bytes \o body.bytes) ELSE Refused

----------------------------------------------------------------------------------------------------
(* Decoding                                                                                         *)

Err(kind) == [ok |-> FALSE, err |-> kind]
Val(v, pos) == [ok |-> TRUE, v |-> v, pos |-> pos]
Has(bs, pos, n) == pos + n - 1 <= Len(bs)

\* logical shift right by 2 over w bytes
RECURSIVE Shr2(_, _, _, _)
Shr2(bs, pos, i, w) == IF i > w THEN <<>>
                       ELSE <<(bs[pos + i - 1] \div 4) + (IF i < w THEN (bs[pos + i] % 4) * 64 ELSE 0)>> \o Shr2(bs, pos, i + 1, w)

DecVarUIntRaw(bs, pos) ==
  IF ~Has(bs, pos, 1) THEN Err("Eob")
  ELSE LET w == WidthOfCode(bs[pos]) IN
       IF ~Has(bs, pos, w) THEN Err("Eob")
       ELSE Val(Shr2(bs, pos, 1, w) \o [i \in 1..(8 - w) |-> 0], pos + w)
DecVarIntRaw(bs, pos) ==
  IF ~Has(bs, pos, 1) THEN Err("Eob")
  ELSE LET w == WidthOfCode(bs[pos]) IN
       IF ~Has(bs, pos, w) THEN Err("Eob")
       ELSE LET neg == bs[pos + w - 1] >= 128
                v == Shr2(bs, pos, 1, w)
                vt == [v EXCEPT ![w] = IF neg THEN @ + 192 ELSE @] IN                  \* arithmetic shift
            Val(vt \o [i \in 1..(8 - w) |-> IF neg THEN 255 ELSE 0], pos + w)

RECURSIVE Dec(_, _, _), DecElems(_, _, _, _, _), DecPairs(_, _, _, _, _), SkipTagged(_, _)
\* n more elements of type t starting at pos
DecElems(t, bs, pos, n, acc) ==
  IF n = 0 THEN Val(acc, pos)
  ELSE LET e == Dec(t, bs, pos) IN IF ~e.ok THEN e ELSE DecElems(t, bs, e.pos, n - 1, Append(acc, e.v))
DecPairs(t, bs, pos, n, acc) ==
  IF n = 0 THEN Val(acc, pos)
  ELSE LET a == Dec(t.key, bs, pos) IN
       IF ~a.ok THEN a
       ELSE LET b == Dec(t.val, bs, a.pos) IN
            IF ~b.ok THEN b
            ELSE IF \E j \in 1..Len(acc) : acc[j].k = a.v THEN Err("DuplicateKey")
            ELSE DecPairs(t, bs, b.pos, n - 1, Append(acc, [k |-> a.v, v |-> b.v]))
SkipTagged(bs, pos) ==
  LET tag == DecVarIntRaw(bs, pos) IN
  IF ~tag.ok THEN tag
  ELSE IF ~FitsSigned(tag.v, 4) THEN Err("OutOfRange")
  ELSE IF tag.v = FromInt(0 - 1) THEN Val("skipped", tag.pos)
  ELSE LET size == DecVarUIntRaw(bs, tag.pos) IN
       IF ~size.ok THEN size
       ELSE LET nn == ToSmallNat(size.v) IN
            IF nn < 0 \/ ~Has(bs, size.pos, nn) THEN Err("Eob") ELSE SkipTagged(bs, size.pos + nn)

\* An announced element count larger than the number of bytes left can never be satisfied (every element occupies
\* at least one byte): the decoder must fail (as end of buffer, or as a refused allocation).
CountOk(bs, pos, ds) == LET nn == ToSmallNat(ds) IN nn >= 0 /\ nn <= Len(bs) - pos + 1

Dec(t, bs, pos) ==
  CASE t.k = "bool"    -> IF ~Has(bs, pos, 1) THEN Err("Eob")
                          ELSE IF bs[pos] > 1 THEN Err("IllegalBool") ELSE Val(bs[pos] = 1, pos + 1)
    [] t.k = "fixed"   -> IF ~Has(bs, pos, t.w) THEN Err("Eob")
                          ELSE LET neg == t.signed /\ bs[pos + t.w - 1] >= 128 IN
                               Val([i \in 1..8 |-> IF i <= t.w THEN bs[pos + i - 1] ELSE IF neg THEN 255 ELSE 0], pos + t.w)
    [] t.k = "varint"  -> LET r == DecVarIntRaw(bs, pos) IN
                          IF ~r.ok THEN r ELSE IF FitsSigned(r.v, t.w) THEN r ELSE Err("OutOfRange")
    [] t.k = "varuint" -> LET r == DecVarUIntRaw(bs, pos) IN
                          IF ~r.ok THEN r ELSE IF FitsUnsigned(r.v, t.w) THEN r ELSE Err("OutOfRange")
    [] t.k = "string"  -> LET n == DecVarUIntRaw(bs, pos) IN
                          IF ~n.ok THEN n
                          ELSE IF ~CountOk(bs, n.pos, n.v) THEN Err("Eob")
                          ELSE LET nn == ToSmallNat(n.v)
                                   cps == Utf8Dec(bs, n.pos, n.pos + nn - 1, <<>>) IN
                               IF cps = Invalid THEN Err("InvalidUtf8") ELSE Val(cps, n.pos + nn)
    [] t.k = "seq"     -> LET n == DecVarUIntRaw(bs, pos) IN
                          IF ~n.ok THEN n
                          ELSE IF ~CountOk(bs, n.pos, n.v) THEN Err("Eob")
                          ELSE DecElems(t.e, bs, n.pos, ToSmallNat(n.v), <<>>)
    [] t.k = "dict"    -> LET n == DecVarUIntRaw(bs, pos) IN
                          IF ~n.ok THEN n
                          ELSE IF ~CountOk(bs, n.pos, n.v) THEN Err("Eob")
                          ELSE DecPairs(t, bs, n.pos, ToSmallNat(n.v), <<>>)
    [] t.k = "tagged"  -> SkipTagged(bs, pos)

----------------------------------------------------------------------------------------------------
(* Properties of the format itself (checked by TLC on the model, C10)                               *)

\* decoding what was encoded yields the value and consumes exactly the bytes written, also with a suffix appended
RoundTrip(t, v) == LET e == Enc(t, v) IN
                   e.ok => /\ Dec(t, e.bytes, 1) = Val(v, Len(e.bytes) + 1)
                           /\ Dec(t, e.bytes \o <<255, 0, 1>>, 1) = Val(v, Len(e.bytes) + 1)
\* variable-width integers occupy the shortest of 1, 2, 4, 8 bytes that holds the value; out of the 62-bit range: refused
ShortestU(v) == LET e == EncVarUInt(v) IN
                IF v[8] >= 64 THEN ~e.ok
                ELSE e.ok /\ Len(e.bytes) \in {1, 2, 4, 8} /\ e.bytes[1] % 4 = Code(Len(e.bytes))
                          /\ \A w \in {1, 2, 4} : w < Len(e.bytes) => ~(HighZeroFrom(v, w + 1) /\ v[w] < 64)
ShortestS(v) == LET e == EncVarInt(v) IN
                IF ~SFitsVar(v, 8) THEN ~e.ok
                ELSE e.ok /\ Len(e.bytes) \in {1, 2, 4, 8} /\ e.bytes[1] % 4 = Code(Len(e.bytes))
                          /\ \A w \in {1, 2, 4} : w < Len(e.bytes) => ~SFitsVar(v, w)
====================================================================================================
