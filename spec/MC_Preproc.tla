---------------------------------------- MODULE MC_Preproc -----------------------------------------
(* C06.  The file grows one line at a time; the reference stack machine reacts to each appended line *)
(* (one TLA+ action per line form), so every reachable state is a complete file together with the    *)
(* reference's verdict on it.  In every state the operational semantics (lexer modes, tree parse,    *)
(* process_nodes) must give the same verdict, and the case is printed for replay into the compiler.  *)
(* A second family enumerates expression token sequences inside a fixed if / else skeleton.          *)
EXTENDS Preproc, TLC, Json

CONSTANTS MaxLen,        \* lines per file
          Syms,          \* symbols that -D may define
          IfExprs,       \* expressions used on #if lines (token sequences)
          ElifExprs,     \* expressions used on #elif lines
          BadVariants,   \* catalogue indices of malformed directives
          WellFormedOnly,\* prune ill-formed prefixes and leave room to close every open conditional (reaches deeper nesting)
          SrcKinds, BlankKinds, MaxDepth,
          MaxToks,       \* expression family: token sequences up to this length
          ExprToks       \* expression family: token alphabet

\* values for the expression constants (configuration files cannot write tuples)
IfExprs5   == {<<"A">>, <<"B">>, <<"!", "A">>, <<"A", "&&", "B">>, <<"A", "||", "B">>}
IfExprs3   == {<<"A">>, <<"!", "A">>, <<"A", "&&", "B">>}
IfExprsRich == IfExprs5 \cup {<<"!", "(", "A", "||", "B", ")">>, <<"A", "||", "B", "&&", "C">>, <<"(", "A", ")">>, <<"A", "&&", "!", "B">>}
ElifExprs2 == {<<"A">>, <<"B">>}
IfExprsA   == {<<"A">>, <<"!", "A">>}
ElifExprsA == {<<"A">>, <<"!", "A">>}
NoExprs    == {}
AllToks    == {"A", "B", "C", "!", "&&", "||", "(", ")"}

VARIABLES ls, cli, r
vars == <<ls, cli, r>>

Init == ls = <<>> /\ cli \in SUBSET Syms /\ r = R0(cli)

Append1(l) == /\ Len(ls) < MaxLen
              /\ ls' = Append(ls, l)
              /\ r' = RefStep(r, l, Len(ls) + 1)
              /\ UNCHANGED cli
              /\ Len(r'.st) <= MaxDepth
              /\ (WellFormedOnly => (~r'.err /\ Len(r'.st) <= MaxLen - Len(ls')))

SrcLine     == Len(ls) >= 0 /\ \E k \in SrcKinds : Append1([k |-> k])
BlankLine   == Len(ls) >= 0 /\ \E k \in BlankKinds : Append1([k |-> k])
DefineLine  == Len(ls) >= 0 /\ \E s \in Syms : Append1([k |-> "define", s |-> s])
UndefLine   == Len(ls) >= 0 /\ \E s \in Syms : Append1([k |-> "undef", s |-> s])
IfLine      == Len(ls) >= 0 /\ \E e \in IfExprs : Append1([k |-> "if", e |-> e])
ElifLine    == Len(ls) >= 0 /\ \E e \in ElifExprs : Append1([k |-> "elif", e |-> e])
ElseLine    == Len(ls) >= 0 /\ Append1([k |-> "else"])
EndifLine   == Len(ls) >= 0 /\ Append1([k |-> "endif"])
BadLine     == Len(ls) >= 0 /\ \E v \in BadVariants : Append1([k |-> "bad", v |-> v])

Next == SrcLine \/ BlankLine \/ DefineLine \/ UndefLine \/ IfLine \/ ElifLine \/ ElseLine \/ EndifLine \/ BadLine

\* ---- invariants
Expect == RefOutcome(r)
RefEqOp == Expect = Op(ls, cli)
\* the reference machine run from scratch gives the state the incremental machine holds
RECURSIVE RefRun(_, _, _)
RefRun(rr, lines, n) == IF n > Len(lines) THEN rr ELSE RefRun(RefStep(rr, lines[n], n), lines, n + 1)
Incremental == r = RefRun(R0(cli), ls, 1)
IllFormedIsError == (\E n \in 1..Len(ls) : LineBad(ls[n])) => Expect.err
StackDepthBound == Len(r.st) <= Len(ls)
\* #define / #undef change the set only in selected regions
DefinesOnlyWhenActive == [][(r'.def # r.def) => (~r.err /\ CurActive(r.st))]_vars

\* warn: the probe lines that carry a deprecated reference and survive
Emit == PrintT(<<"CASE", ToJson([lines |-> ls, cli |-> cli, err |-> Expect.err, sel |-> Expect.sel,
                                 warn |-> {n \in Expect.sel : ls[n].k = "srcw"}, second |-> cli])>>)

\* ---- expression family: #if <toks> / probe / #else / probe / #endif for every token sequence
SeqsOver(S, n) == UNION {[1..m -> S] : m \in 0..n}
InitExpr == /\ cli \in SUBSET Syms
            /\ \E e \in SeqsOver(ExprToks, MaxToks) :
                  ls = <<[k |-> "if", e |-> e], [k |-> "src"], [k |-> "else"], [k |-> "src"], [k |-> "endif"]>>
            /\ r = RefRun(R0(cli), ls, 1)
NextExpr == UNCHANGED vars
\* ---- deep expressions: compound groups that are parenthesised and negated, up to two levels, standing alone or as an operand -
\* far beyond what the token-sequence family reaches (X && (!(A || B)) has 11 tokens)
BinOps == {"&&", "||"}
Groups == {<<a, op, b>> : a \in {"A", "B"}, op \in BinOps, b \in {"A", "B"}}
Nested == UNION {{<<"(">> \o g \o <<")">>, <<"!", "(">> \o g \o <<")">>, <<"(", "!", "(">> \o g \o <<")", ")">>,
                  <<"!", "(", "!", "(">> \o g \o <<")", ")">>, <<"(", "(">> \o g \o <<")", ")">>} : g \in Groups}
DeepExprs == Nested
             \cup {<<x, op>> \o n : x \in Syms, op \in BinOps, n \in Nested} \cup {n \o <<op, x>> : x \in Syms, op \in BinOps, n \in Nested}
             \cup {<<"!", x, op>> \o n : x \in Syms, op \in BinOps, n \in Nested}
             \cup {n \o <<op>> \o m : op \in BinOps, n \in Nested, m \in {q \in Nested : Len(q) <= 6}}
InitDeep == /\ cli \in SUBSET Syms
            /\ \E e \in DeepExprs :
                  ls = <<[k |-> "if", e |-> e], [k |-> "src"], [k |-> "else"], [k |-> "src"], [k |-> "endif"]>>
            /\ r = RefRun(R0(cli), ls, 1)
\* grammar-shaped parse and declarative fold agree on well-formedness and value, for every valuation
ExprRefEqParse == LET e == ls[1].e IN
                  /\ ParseExpr(e).ok = RefWellFormed(e)
                  /\ ParseExpr(e).ok => \A D \in SUBSET Syms : EvalTree(ParseExpr(e).t, D) = RefEval(e, D)
====================================================================================================
