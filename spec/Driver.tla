------------------------------------------- MODULE Driver -------------------------------------------
(* The slicec binary as a process driver (slicec/src/main.rs; C07, C18).                            *)
(*                                                                                                  *)
(* Declarative layer : Expected(scn) - what the properties demand of a run, as a function of the    *)
(*                     scenario (compile outcome class, --dry-run, generator behaviours, output     *)
(*                     directory state).                                                            *)
(* Operational layer : the compiler process and up to NGen generator processes connected by bounded *)
(*                     pipes.  main.rs: compile; if clean, for each generator in order spawn it and *)
(*                     write the whole request (+ its arguments) to its stdin (blocking); then for  *)
(*                     each generator in order close its stdin, drain stdout/stderr until it exits, *)
(*                     judge (stderr, status, decode), write files; emit diagnostics; exit.         *)
(*                     Generators run concurrently with the compiler and with each other.           *)
(* Assumption (written in spawn_plugin_process): a generator reads the entire request before it     *)
(* writes anything; the out-of-catalogue behaviour "replyfirst" shows the deadlock otherwise.       *)
EXTENDS DriverSpec

CONSTANTS NGen,        \* number of generators given with -G
          PipeCap,     \* chunks a pipe holds
          Payload      \* chunks of the request (+ arguments)

G == 1..NGen

----------------------------------------------------------------------------------------------------
(* Operational layer                                                                                *)

VARIABLES scn,     \* [cls, dry, outdir, gens]
          c,       \* compiler: [pc, i (current generator), sent, exit]
          gs,      \* generators: [i -> [pc, read, wrote, status, errout]]
          pipes,   \* [i -> [inb (chunks in its stdin), outb (chunks in its stdout), closed (compiler closed stdin)]]
          res,     \* [i -> "none" | "spawn_failed" | "write_failed" | "stderr" | "status" | "decode_failed" | "ok"]
          drained, \* [i -> reply chunks the compiler has read]
          started, files, fileErrs
dvars == <<scn, c, gs, pipes, res, drained, started, files, fileErrs>>

Beh(i) == scn.gens[i]
Alive(i) == gs[i].pc = "running"

DInit(scenarios) ==
  /\ scn \in scenarios
  /\ c = [pc |-> "compile", i |-> 1, sent |-> 0, exit |-> 0 - 1]
  /\ gs = [i \in G |-> [pc |-> "none", read |-> 0, wrote |-> 0, status |-> "none", errout |-> FALSE]]
  /\ pipes = [i \in G |-> [inb |-> 0, outb |-> 0, closed |-> FALSE]]
  /\ res = [i \in G |-> "none"] /\ drained = [i \in G |-> 0]
  /\ started = {} /\ files = {} /\ fileErrs = 0

\* ---- compiler
Compile == /\ c.pc = "compile"
           /\ c' = [c EXCEPT !.pc = IF Runs(scn) THEN "spawn" ELSE "emit"]     \* the gate of C07
           /\ UNCHANGED <<scn, gs, pipes, res, drained, started, files, fileErrs>>
SpawnOk == /\ c.pc = "spawn" /\ c.i <= NGen /\ Beh(c.i) \notin NotStarted
           /\ gs' = [gs EXCEPT ![c.i].pc = "running"] /\ started' = started \cup {c.i}
           /\ c' = [c EXCEPT !.pc = "write", !.sent = 0]
           /\ UNCHANGED <<scn, pipes, res, drained, files, fileErrs>>
SpawnFails == /\ c.pc = "spawn" /\ c.i <= NGen /\ Beh(c.i) \in NotStarted       \* ENOENT / EACCES
              /\ res' = [res EXCEPT ![c.i] = "spawn_failed"]
              /\ c' = [c EXCEPT !.i = @ + 1]
              /\ UNCHANGED <<scn, gs, pipes, drained, started, files, fileErrs>>
WriteChunk == /\ c.pc = "write" /\ c.sent < Payload /\ Alive(c.i) /\ pipes[c.i].inb < PipeCap
              /\ pipes' = [pipes EXCEPT ![c.i].inb = @ + 1] /\ c' = [c EXCEPT !.sent = @ + 1]
              /\ UNCHANGED <<scn, gs, res, drained, started, files, fileErrs>>
WriteEpipe == /\ c.pc = "write" /\ c.sent < Payload /\ ~Alive(c.i)               \* the reader is gone
              /\ res' = [res EXCEPT ![c.i] = "write_failed"]
              /\ c' = [c EXCEPT !.pc = "spawn", !.i = @ + 1]
              /\ UNCHANGED <<scn, gs, pipes, drained, started, files, fileErrs>>
WriteDone == /\ c.pc = "write" /\ c.sent = Payload
             /\ c' = [c EXCEPT !.pc = "spawn", !.i = @ + 1]
             /\ UNCHANGED <<scn, gs, pipes, res, drained, started, files, fileErrs>>
SpawnDone == /\ c.pc = "spawn" /\ c.i > NGen
             /\ c' = [c EXCEPT !.pc = "collect", !.i = 1]
             /\ UNCHANGED <<scn, gs, pipes, res, drained, started, files, fileErrs>>
\* collect generator c.i: wait_with_output closes its stdin, then reads stdout / stderr until it has exited
CloseStdin == /\ c.pc = "collect" /\ c.i <= NGen /\ res[c.i] = "none" /\ ~pipes[c.i].closed
              /\ pipes' = [pipes EXCEPT ![c.i].closed = TRUE]
              /\ UNCHANGED <<scn, c, gs, res, drained, started, files, fileErrs>>
Drain == /\ c.pc = "collect" /\ c.i <= NGen /\ res[c.i] = "none" /\ pipes[c.i].closed /\ pipes[c.i].outb > 0
         /\ pipes' = [pipes EXCEPT ![c.i].outb = @ - 1] /\ drained' = [drained EXCEPT ![c.i] = @ + 1]
         /\ UNCHANGED <<scn, c, gs, res, started, files, fileErrs>>
Judgement(i) == IF gs[i].errout THEN "stderr"
                ELSE IF gs[i].status # "0" THEN "status"
                ELSE IF Beh(i) \in OkLike /\ drained[i] = ReplyLen THEN "ok"
                ELSE "decode_failed"
Judge == /\ c.pc = "collect" /\ c.i <= NGen /\ res[c.i] = "none" /\ pipes[c.i].closed
         /\ gs[c.i].pc = "exited" /\ pipes[c.i].outb = 0
         /\ LET r == Judgement(c.i) IN
            /\ res' = [res EXCEPT ![c.i] = r]
            /\ IF r = "ok" /\ NFilesOf(Beh(c.i)) > 0
               THEN IF Storable(scn) THEN files' = files \cup {c.i} /\ UNCHANGED fileErrs
                    ELSE fileErrs' = fileErrs + NFilesOf(Beh(c.i)) /\ UNCHANGED files       \* one E001 per file
               ELSE UNCHANGED <<files, fileErrs>>
         /\ c' = [c EXCEPT !.i = @ + 1]
         /\ UNCHANGED <<scn, gs, pipes, drained, started>>
SkipFailed == /\ c.pc = "collect" /\ c.i <= NGen /\ res[c.i] # "none"               \* spawn or write already failed
              /\ c' = [c EXCEPT !.i = @ + 1]
              /\ UNCHANGED <<scn, gs, pipes, res, drained, started, files, fileErrs>>
CollectDone == /\ c.pc = "collect" /\ c.i > NGen
               /\ c' = [c EXCEPT !.pc = "emit"]
               /\ UNCHANGED <<scn, gs, pipes, res, drained, started, files, fileErrs>>
Failed(i) == res[i] \notin {"none", "ok"}
EmitAndExit == /\ c.pc = "emit"
               /\ c' = [c EXCEPT !.pc = "done",
                                 !.exit = IF scn.cls \in ErrClasses \/ (\E i \in G : Failed(i)) \/ fileErrs > 0 THEN 1 ELSE 0]
               /\ UNCHANGED <<scn, gs, pipes, res, drained, started, files, fileErrs>>

\* ---- generators
GotAll(i) == gs[i].read = Payload
GRead(i) == /\ Alive(i) /\ (ReadsAll(Beh(i)) \/ (Beh(i) = "replyfirst" /\ gs[i].wrote = ReplyLen)) /\ pipes[i].inb > 0
            /\ pipes' = [pipes EXCEPT ![i].inb = @ - 1] /\ gs' = [gs EXCEPT ![i].read = @ + 1]
            /\ UNCHANGED <<scn, c, res, drained, started, files, fileErrs>>
GReply(i) == /\ Alive(i)
             /\ (GotAll(i) /\ ReadsAll(Beh(i))) \/ Beh(i) = "replyfirst"
             /\ gs[i].wrote < (IF Beh(i) = "replyfirst" THEN ReplyLen ELSE ReplyChunks(Beh(i))) /\ pipes[i].outb < PipeCap
             /\ pipes' = [pipes EXCEPT ![i].outb = @ + 1] /\ gs' = [gs EXCEPT ![i].wrote = @ + 1]
             /\ UNCHANGED <<scn, c, res, drained, started, files, fileErrs>>
GExit(i) == /\ Alive(i)
            /\ \/ Beh(i) = "noread"
               \/ ReadsAll(Beh(i)) /\ GotAll(i) /\ gs[i].wrote = ReplyChunks(Beh(i))
               \/ Beh(i) = "replyfirst" /\ GotAll(i) /\ gs[i].wrote = ReplyLen
               \/ ReadsAll(Beh(i)) /\ ~GotAll(i) /\ pipes[i].closed /\ pipes[i].inb = 0   \* EOF before the whole request
            /\ gs' = [gs EXCEPT ![i].pc = "exited",
                                ![i].status = CASE Beh(i) \in {"exit1", "exit255"} -> "nonzero"
                                                [] Beh(i) \in {"sigkill", "sigsegv", "replykill", "replyabrt"} -> "signal"
                                                [] ReadsAll(Beh(i)) /\ ~GotAll(i) -> "nonzero"
                                                [] OTHER -> "0",
                                ![i].errout = Beh(i) = "stderr0"]
            /\ UNCHANGED <<scn, c, pipes, res, drained, started, files, fileErrs>>

DNext == \/ Compile \/ SpawnOk \/ SpawnFails \/ WriteChunk \/ WriteEpipe \/ WriteDone \/ SpawnDone
         \/ CloseStdin \/ Drain \/ Judge \/ SkipFailed \/ CollectDone \/ EmitAndExit
         \/ \E i \in G : GRead(i) \/ GReply(i) \/ GExit(i)

----------------------------------------------------------------------------------------------------
(* Properties                                                                                       *)

Done == c.pc = "done"
\* C07
GeneratorsOnlyAfterCleanCompile == started # {} => (scn.cls \notin ErrClasses /\ ~scn.dry)
DryRunMeansNoGenerators         == scn.dry => started = {}
WarningsDoNotBlock              == Done /\ scn.cls \in WarnClasses /\ ~scn.dry => started = {i \in G : Beh(i) \notin NotStarted}
ExitNonZeroIffError             == Done => (c.exit # 0 <=> (scn.cls \in ErrClasses \/ (\E i \in G : Failed(i)) \/ fileErrs > 0))
\* C18
EveryFailureNamesItsGenerator   == Done /\ Runs(scn) => \A i \in G : Beh(i) \notin OkLike => Failed(i)
OtherGeneratorsHonoured         == Done /\ Runs(scn) => \A i \in G : Beh(i) \in OkLike => res[i] = "ok"
FilesOnlyFromDecodedReply       == files \subseteq {i \in G : res[i] = "ok"}
\* the operational machine produces exactly what the declarative layer demands
MeetsExpected == Done => LET e == Expected(scn) IN
                         /\ started = e.started
                         /\ {i \in G : Failed(i)} = e.failed
                         /\ files = e.filers
                         /\ c.exit = e.exit
NoHang == <>Done
DeadlockFree == (ENABLED DNext) \/ Done
====================================================================================================
