INIT Init
NEXT Next
CONSTANTS
  MaxLen = 3
INVARIANTS Agree Emit
CHECK_DEADLOCK FALSE
