INIT Init
NEXT Next
INVARIANTS Emit
CHECK_DEADLOCK FALSE
