INIT InitValues
NEXT Next
CONSTANTS
  D = 2
  Full16 = FALSE
  StrLen = 2
  FullLen = 0
  RepLen = 0
  Big = {}
INVARIANTS RoundTripHolds ShortestWidth OnlyVarRefused EmitValue
CHECK_DEADLOCK FALSE
