INIT Init
NEXT Next
CONSTANTS
  MaxSupp = 3
INVARIANTS RefEqOp NonInterference NoLeak Emit
CHECK_DEADLOCK FALSE
