INIT Init
NEXT Next
CONSTANTS
  MaxSupp = 3
INVARIANTS RefEqOp NonInterference Emit
CHECK_DEADLOCK FALSE
