----------------------------------------- MODULE MC_Pipeline ----------------------------------------
EXTENDS Pipeline
NoDev == {}
PinnedDev == {"baseUnwrap", "dedentPanic", "inheritLoop", "emptyGenerator", "noModule", "cycleSearch"}
====================================================================================================
