INIT InitDupKeys
NEXT Next
CONSTANTS
  D = 0
  Full16 = FALSE
  StrLen = 0
  FullLen = 0
  RepLen = 0
  Big = {}
INVARIANTS Total DecodedIsEncodable EmitBytes
CHECK_DEADLOCK FALSE
