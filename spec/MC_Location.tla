----------------------------------------- MODULE MC_Location ----------------------------------------
EXTENDS Location, TLC, Json
CONSTANTS MaxLen, Classes, Bases, Multi
VARIABLES lines, base, s, e, crlf
Lines(n) == UNION {[1..m -> Classes] : m \in 0..n}
InitSingle == /\ base \in Bases /\ crlf \in BOOLEAN
              /\ \E l \in Lines(MaxLen) : lines = <<l>>
              /\ \E a \in 1..(Len(lines[1]) + 1), b \in 1..(Len(lines[1]) + 1) :
                    a <= b /\ s = [row |-> base, col |-> a] /\ e = [row |-> base, col |-> b]
\* spans over two or three short lines
InitMulti == /\ base \in Bases /\ crlf \in BOOLEAN
             /\ \E l1 \in Lines(2), l2 \in Lines(2), l3 \in Lines(2), k \in {2, 3} :
                   /\ lines = IF k = 2 THEN <<l1, l2>> ELSE <<l1, l2, l3>>
                   /\ \E a \in 1..(Len(l1) + 1), b \in 1..(Len(lines[k]) + 1) :
                         s = [row |-> base, col |-> a] /\ e = [row |-> base + k - 1, col |-> b]
Init == IF Multi THEN InitMulti ELSE InitSingle
Next == UNCHANGED <<lines, base, s, e, crlf>>
\* the emitter's arithmetic shows what the reference demands, on every line of every span
RefEqOp == \A n \in s.row..e.row : LET line == lines[n - base + 1] IN
              RefUnderline(line, HStart(n, s), HEnd(n, e, line)) = OpUnderline(line, HStart(n, s), HEnd(n, e, line))
Emit == PrintT(<<"CASE", ToJson([lines |-> lines, base |-> base, s |-> <<s.row, s.col>>, e |-> <<e.row, e.col>>, crlf |-> crlf,
                                 expect |-> Snippet(lines, base, s, e)])>>)
====================================================================================================
