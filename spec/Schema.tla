-------------------------------------------- MODULE Schema ------------------------------------------
(* A decoder for Slice2-encoded values that is driven only by schema DATA (CompilerSchema.tla, which  *)
(* is generated from slice/Compiler/*.slice): structs (bit sequence for the optional fields, fields in *)
(* declaration order, tag end marker unless compact), enums with fields (discriminant, the fields of   *)
(* the enumerator, tag end marker unless compact), enums with an underlying type, sequences,          *)
(* dictionaries, strings and the fixed-size and variable-size integers (Wire.tla has the arithmetic    *)
(* on unbounded digits; here values are machine-size because every number of the request is a size,    *)
(* a tag or a marker).  All operators are position-indexed over a byte sequence b (1-based).          *)
(*                                                                                                  *)
(* C08: the request handed to a generator must decode with THIS decoder - completely - and the       *)
(* decoded tree, with numeric type ids replaced by the anonymous types they refer to (Norm), must     *)
(* equal Convert(the compiled program).                                                             *)
EXTENDS Naturals, Integers, Sequences, FiniteSets, TLC, CompilerSchema

Err(why, pos) == [ok |-> FALSE, why |-> why, pos |-> pos]
Ok(v, pos) == [ok |-> TRUE, v |-> v, pos |-> pos]
Has(b, pos, k) == pos + k - 1 <= Len(b)
VarWidth(x) == CASE x % 4 = 0 -> 1 [] x % 4 = 1 -> 2 [] x % 4 = 2 -> 4 [] OTHER -> 8
SignedByte(x) == IF x >= 128 THEN x - 256 ELSE x

\* varuint62 restricted to what fits the model's integers (sizes of a request are far below)
DecVarUInt(b, pos) ==
  IF ~Has(b, pos, 1) THEN Err("end of buffer", pos)
  ELSE LET w == VarWidth(b[pos]) IN
       IF ~Has(b, pos, w) THEN Err("end of buffer", pos)
       ELSE CASE w = 1 -> Ok(b[pos] \div 4, pos + 1)
              [] w = 2 -> Ok((b[pos] \div 4) + 64 * b[pos + 1], pos + 2)
              [] w = 4 -> Ok((b[pos] \div 4) + 64 * b[pos + 1] + 16384 * b[pos + 2] + 4194304 * b[pos + 3], pos + 4)
              [] OTHER -> IF b[pos + 4] <= 1 /\ b[pos + 5] = 0 /\ b[pos + 6] = 0 /\ b[pos + 7] = 0
                          THEN Ok((b[pos] \div 4) + 64 * b[pos + 1] + 16384 * b[pos + 2] + 4194304 * b[pos + 3] + 1073741824 * b[pos + 4], pos + 8)
                          ELSE Err("size beyond the model's integers", pos)
\* varint32 / varint62 restricted to the 32-bit range: two's complement little endian, two width bits
DecVarInt(b, pos) ==
  IF ~Has(b, pos, 1) THEN Err("end of buffer", pos)
  ELSE LET w == VarWidth(b[pos]) IN
       IF ~Has(b, pos, w) THEN Err("end of buffer", pos)
       ELSE CASE w = 1 -> Ok(SignedByte(b[pos]) \div 4, pos + 1)
              [] w = 2 -> Ok((b[pos] \div 4) + 64 * SignedByte(b[pos + 1]), pos + 2)
              [] w = 4 -> Ok((b[pos] \div 4) + 64 * b[pos + 1] + 16384 * b[pos + 2] + 4194304 * SignedByte(b[pos + 3]), pos + 4)
              [] OTHER -> IF b[pos + 4] <= 1 /\ b[pos + 5] = 0 /\ b[pos + 6] = 0 /\ b[pos + 7] = 0
                          THEN Ok((b[pos] \div 4) + 64 * b[pos + 1] + 16384 * b[pos + 2] + 4194304 * b[pos + 3] + 1073741824 * b[pos + 4], pos + 8)
                          ELSE IF b[pos + 4] >= 254 /\ b[pos + 5] = 255 /\ b[pos + 6] = 255 /\ b[pos + 7] = 255
                          THEN Ok((b[pos] \div 4) + 64 * b[pos + 1] + 16384 * b[pos + 2] + 4194304 * b[pos + 3] + 1073741824 * (b[pos + 4] - 256), pos + 8)
                          ELSE Err("integer beyond 32 bits", pos)
FixedWidth(t) == CASE t \in {"int8", "uint8", "bool"} -> 1 [] t \in {"int16", "uint16"} -> 2 [] t \in {"int32", "uint32", "float32"} -> 4 [] OTHER -> 8

\* fixed-size numbers are returned as their bytes (little endian): the request's numbers are compared with the bytes the
\* harness computed from the AST's values
DecPrim(b, t, pos) ==
  CASE t = "bool" -> IF ~Has(b, pos, 1) THEN Err("end of buffer", pos) ELSE IF b[pos] \in {0, 1} THEN Ok(b[pos] = 1, pos + 1) ELSE Err("bool byte", pos)
    [] t = "string" -> LET n == DecVarUInt(b, pos) IN
                       IF ~n.ok THEN n ELSE IF ~Has(b, n.pos, n.v) THEN Err("end of buffer", n.pos) ELSE Ok(SubSeq(b, n.pos, n.pos + n.v - 1), n.pos + n.v)
    [] t \in {"varint32", "varint62"} -> DecVarInt(b, pos)
    [] t \in {"varuint32", "varuint62"} -> DecVarUInt(b, pos)
    [] t \in {"int8", "uint8", "int16", "uint16", "int32", "uint32", "int64", "uint64", "float32", "float64"} ->
         IF ~Has(b, pos, FixedWidth(t)) THEN Err("end of buffer", pos) ELSE Ok(SubSeq(b, pos, pos + FixedWidth(t) - 1), pos + FixedWidth(t))
    [] OTHER -> Err("unknown primitive", pos)

NOptional(fs) == Cardinality({i \in 1..Len(fs) : fs[i].o /\ fs[i].g < 0})
\* bit j (1-based) of the bit sequence that starts at pos: least significant bit first
Bit(b, pos, j) == (b[pos + ((j - 1) \div 8)] \div (2 ^ ((j - 1) % 8))) % 2 = 1

RECURSIVE Dec(_, _, _), DecSeq(_, _, _, _, _), DecDict(_, _, _, _, _, _), DecFields(_, _, _, _, _, _, _), DecBody(_, _, _, _)
DecSeq(b, e, cnt, pos, acc) ==
  IF cnt = 0 THEN Ok(acc, pos)
  ELSE LET r == Dec(b, e, pos) IN IF ~r.ok THEN r ELSE DecSeq(b, e, cnt - 1, r.pos, Append(acc, r.v))
DecDict(b, kt, vt, cnt, pos, acc) ==
  IF cnt = 0 THEN Ok(acc, pos)
  ELSE LET k == Dec(b, kt, pos) IN
       IF ~k.ok THEN k
       ELSE LET v == Dec(b, vt, k.pos) IN IF ~v.ok THEN v ELSE DecDict(b, kt, vt, cnt - 1, v.pos, Append(acc, <<k.v, v.v>>))
\* fields i.. of a field list; bitsAt = position of the bit sequence, oi = number of optional fields seen so far.
\* An optional field decodes to <<>> or <<value>>.
DecFields(b, fs, i, pos, bitsAt, oi, acc) ==
  IF i > Len(fs) THEN Ok(acc, pos)
  ELSE LET f == fs[i] IN
       IF f.g >= 0 THEN Err("tagged fields are not used by the compiler schema", pos)
       ELSE IF f.o /\ ~Bit(b, bitsAt, oi + 1) THEN DecFields(b, fs, i + 1, pos, bitsAt, oi + 1, acc @@ (f.n :> <<>>))
       ELSE LET r == Dec(b, f.t, pos) IN
            IF ~r.ok THEN r
            ELSE DecFields(b, fs, i + 1, r.pos, bitsAt, IF f.o THEN oi + 1 ELSE oi, acc @@ (f.n :> (IF f.o THEN <<r.v>> ELSE r.v)))
\* a struct body or the fields of an enumerator: bit sequence, fields, tag end marker unless compact
DecBody(b, fs, compact, pos) ==
  LET nb == (NOptional(fs) + 7) \div 8 IN
  IF ~Has(b, pos, nb) THEN Err("end of buffer", pos)
  ELSE LET r == DecFields(b, fs, 1, pos + nb, pos, 0, <<>>) IN
       IF ~r.ok \/ compact THEN r
       ELSE LET m == DecVarInt(b, r.pos) IN
            IF ~m.ok THEN m ELSE IF m.v # 0 - 1 THEN Err("tag end marker expected", r.pos) ELSE Ok(r.v, m.pos)
Dec(b, t, pos) ==
  CASE t.k = "prim" -> DecPrim(b, t.t, pos)
    [] t.k = "seq" -> LET n == DecVarUInt(b, pos) IN
                      IF ~n.ok THEN n
                      ELSE IF t.e.k = "opt" THEN Err("sequences of optionals are not used by the compiler schema", pos)
                      ELSE DecSeq(b, t.e, n.v, n.pos, <<>>)
    [] t.k = "dict" -> LET n == DecVarUInt(b, pos) IN IF ~n.ok THEN n ELSE DecDict(b, t.a, t.b, n.v, n.pos, <<>>)
    [] t.k = "struct" -> DecBody(b, Structs[t.n].fields, Structs[t.n].compact, pos)
    [] t.k = "enum" ->
         LET e == Enums[t.n] IN
         IF e.underlying.t # "none" THEN DecPrim(b, e.underlying.t, pos)
         ELSE LET d == DecVarInt(b, pos) IN
              IF ~d.ok THEN d
              ELSE LET hits == {i \in 1..Len(e.ens) : e.ens[i].disc = d.v} IN
                   IF hits = {} THEN Err("unknown discriminant", pos)
                   ELSE LET en == e.ens[CHOOSE i \in hits : TRUE]
                            r == DecBody(b, en.fields, e.compact, d.pos) IN
                        IF ~r.ok THEN r ELSE Ok([disc |-> d.v, name |-> en.name, v |-> r.v], r.pos)
    [] OTHER -> Err("unsupported schema type", pos)

DiscOf(enum, name) == LET e == Enums[enum].ens IN e[CHOOSE i \in 1..Len(e) : e[i].name = name].disc

----------------------------------------------------------------------------------------------------
(* Norm: the decoded tree with every TypeRef whose typeId is numeric replaced by the anonymous type   *)
(* it refers to - which must be an EARLIER symbol of the same file and one of the anonymous kinds -    *)
(* and the anonymous symbols removed from the file's contents.                                       *)
AnonymousSymbols == {"SequenceType", "DictionaryType", "ResultType"}
IsDigit(x) == x >= 48 /\ x <= 57
Numeric(s) == Len(s) >= 1 /\ Len(s) <= 6 /\ \A i \in 1..Len(s) : IsDigit(s[i])
RECURSIVE NumOf(_, _)
NumOf(s, n) == IF n = 0 THEN 0 ELSE 10 * NumOf(s, n - 1) + (s[n] - 48)

RECURSIVE Rw(_, _, _, _), RwFields(_, _, _, _, _, _)
\* contents: the decoded contents of the file (raw); idx: index of the symbol being rewritten
ResolveRef(v, contents, idx) ==
  IF ~Numeric(v.typeId) THEN v
  ELSE LET n == NumOf(v.typeId, Len(v.typeId)) IN
       IF n + 1 >= idx \/ n + 1 > Len(contents) THEN [bad |-> "numeric type id does not refer to an earlier symbol", id |-> v.typeId, at |-> idx]
       ELSE IF contents[n + 1].name \notin AnonymousSymbols THEN [bad |-> "numeric type id refers to a named symbol", id |-> v.typeId, at |-> idx]
       ELSE [anon |-> [sym |-> contents[n + 1].name, v |-> Rw(TStruct(contents[n + 1].name), contents[n + 1].v.v, contents, n + 1)],
             isOptional |-> v.isOptional, typeAttributes |-> v.typeAttributes]
RwFields(fs, i, v, contents, idx, acc) ==
  IF i > Len(fs) THEN acc
  ELSE LET f == fs[i]
           x == v[f.n]
           y == IF f.o THEN (IF x = <<>> THEN <<>> ELSE <<Rw(f.t, x[1], contents, idx)>>) ELSE Rw(f.t, x, contents, idx) IN
       RwFields(fs, i + 1, v, contents, idx, acc @@ (f.n :> y))
Rw(t, v, contents, idx) ==
  CASE t.k = "seq" -> [i \in 1..Len(v) |-> Rw(t.e, v[i], contents, idx)]
    [] t.k = "struct" -> IF t.n = "TypeRef" THEN ResolveRef(v, contents, idx) ELSE RwFields(Structs[t.n].fields, 1, v, contents, idx, <<>>)
    [] t.k = "enum" -> IF Enums[t.n].underlying.t # "none" THEN v
                       ELSE LET e == Enums[t.n].ens  en == e[CHOOSE i \in 1..Len(e) : e[i].disc = v.disc] IN
                            [disc |-> v.disc, v |-> RwFields(en.fields, 1, v.v, contents, idx, <<>>)]
    [] OTHER -> v
Named(contents) == SelectSeq([i \in 1..Len(contents) |-> [i |-> i, s |-> contents[i]]], LAMBDA x : x.s.name \notin AnonymousSymbols)
NormFile(f) ==
  LET named == Named(f.contents) IN
  [path |-> f.path, moduleDeclaration |-> f.moduleDeclaration, attributes |-> f.attributes,
   contents |-> [j \in 1..Len(named) |-> Rw(TEnum("Symbol"), named[j].s, f.contents, named[j].i)]]

\* every type id written anywhere in a decoded value (schema guided)
RECURSIVE TypeIds(_, _)
TypeIds(t, v) ==
  CASE t.k = "seq" -> UNION {TypeIds(t.e, v[i]) : i \in 1..Len(v)}
    [] t.k = "struct" -> IF t.n = "TypeRef" THEN {v.typeId}
                         ELSE LET fs == Structs[t.n].fields IN
                              UNION {IF fs[i].o THEN (IF v[fs[i].n] = <<>> THEN {} ELSE TypeIds(fs[i].t, v[fs[i].n][1])) ELSE TypeIds(fs[i].t, v[fs[i].n]) : i \in 1..Len(fs)}
    [] t.k = "enum" -> IF Enums[t.n].underlying.t # "none" THEN {}
                       ELSE LET e == Enums[t.n].ens  fs == e[CHOOSE i \in 1..Len(e) : e[i].disc = v.disc].fields IN
                            UNION {TypeIds(fs[i].t, v.v[fs[i].n]) : i \in 1..Len(fs)}
    [] OTHER -> {}
====================================================================================================
