------------------------------------------ MODULE Inheritance ----------------------------------------
(* Interface inheritance (slicec/src/grammar/elements/interface.rs: base_interfaces,                 *)
(* all_base_interfaces, all_inherited_operations, all_operations; validators/mod.rs visit_interface   *)
(* -> validators/identifiers.rs validate_inherited_identifiers).                                      *)
(*                                                                                                    *)
(* A hierarchy is a function from interfaces 1..N to [bases, ops]: bases is the written list of base  *)
(* interfaces (distinct, declared "earlier" in the numbering, so the graph is acyclic - loops are the  *)
(* business of Cycles / C05), ops the set of operation names the interface declares itself.            *)
(*                                                                                                    *)
(* Reference layer: Anc = transitive closure of the base relation; an interface redeclares an          *)
(* inherited operation iff one of its own operation names is declared by an ancestor (C04: "no         *)
(* redeclaration of an inherited operation", code E011).                                               *)
(* Operational layer: the recursive closure as the code computes it - own bases first, then the        *)
(* closures of the bases, duplicates (diamonds) dropped keeping the first occurrence - and the         *)
(* operation lists built from it.  The two layers are compared on every hierarchy (MC_Inherit).        *)
EXTENDS Naturals, Sequences, FiniteSets

ToSet(s) == {s[i] : i \in 1..Len(s)}
NoDup(s) == \A i, j \in 1..Len(s) : i # j => s[i] # s[j]

\* ---- reference: transitive closure
RECURSIVE AncUpTo(_, _, _)
\* ancestors of k reachable in at most d steps
AncUpTo(h, k, d) == IF d = 0 THEN {} ELSE LET direct == ToSet(h[k].bases) IN direct \cup UNION {AncUpTo(h, b, d - 1) : b \in direct}
Anc(h, k) == AncUpTo(h, k, Len(h))
Redeclares(h, k) == {o \in h[k].ops : \E a \in Anc(h, k) : o \in h[a].ops}
RuleViolated(h) == \E k \in 1..Len(h) : Redeclares(h, k) # {}

\* ---- operational: interface.rs
RECURSIVE Dedup(_, _, _), Flat(_, _)
\* retain(|x| seen.insert(x)): keep the first occurrence
Dedup(s, i, acc) == IF i > Len(s) THEN acc ELSE Dedup(s, i + 1, IF s[i] \in ToSet(acc) THEN acc ELSE Append(acc, s[i]))
Flat(ss, i) == IF i > Len(ss) THEN <<>> ELSE ss[i] \o Flat(ss, i + 1)
RECURSIVE AllBases(_, _)
\* all_base_interfaces: base_interfaces() extended by flat_map(all_base_interfaces) over the bases, then de-duplicated
AllBases(h, k) == LET bs == h[k].bases IN Dedup(bs \o Flat([i \in 1..Len(bs) |-> AllBases(h, bs[i])], 1), 1, <<>>)
\* operations are identified by <<interface, name>> (their scoped identifier)
OpsOf(h, a) == LET names == h[a].ops IN {<<a, o>> : o \in names}
\* all_inherited_operations: every operation of every (transitive) base exactly once
InheritedOps(h, k) == UNION {OpsOf(h, a) : a \in ToSet(AllBases(h, k))}
AllOps(h, k) == OpsOf(h, k) \cup InheritedOps(h, k)
\* check_for_shadowing: own identifier equal to an inherited identifier
Shadowing(h, k) == {o \in h[k].ops : \E p \in InheritedOps(h, k) : p[2] = o}

\* ---- the two layers agree
ClosureIsTransitive(h) == \A k \in 1..Len(h) : ToSet(AllBases(h, k)) = Anc(h, k) /\ NoDup(AllBases(h, k))
ShadowingIsRedeclaration(h) == \A k \in 1..Len(h) : Shadowing(h, k) = Redeclares(h, k)
\* known deviation used to document what a truncated closure does (Dev = "twoLevels": bases and their bases only)
AllBases2(h, k) == LET bs == h[k].bases IN Dedup(bs \o Flat([i \in 1..Len(bs) |-> h[bs[i]].bases], 1), 1, <<>>)
====================================================================================================
