INIT InitRT
NEXT Next
CONSTANTS
  COMMA = ","
  EQ = "="
  BSL = "b"
  WS = {"s", "u"}
  Chars = {"a", "s", ",", "=", "b", "u"}
  MaxLen = 5
  CompLen = 2
  PathLen = 2
  Emitting = TRUE
INVARIANTS TypeOK MachineMeetsWant RefMeetsWant RunIsSteps RejectsExactly Emit
CHECK_DEADLOCK FALSE
