---------------------------------------- MODULE MC_DocComment ---------------------------------------
(* Case generator and model check for DocComment.tla (C16).  Families:                               *)
(*   dedent    : 1..MaxLines overview lines (indentation x content kind) on every commentable kind    *)
(*   tags      : optional overview + 1..MaxTags block tags (@param / @returns / @see; inline message   *)
(*               none / text / padded / link; continuation lines) on operations of every return arity, *)
(*               a struct and an enumerator; which tags fit is decided here (Fits)                      *)
(*   links     : {@link} / @see / link inside a tag message, from every commentable position, to       *)
(*               targets of every kind and scope distance; expected binding by the outward scope       *)
(*               search starting at the documented element itself (Designated)                         *)
(*   malformed : the defect catalogue on four positions                                                *)
EXTENDS DocComment, TLC, Json
CONSTANTS Family, MaxLines, MaxTags, Dev, PosSet, IndentSet, KindSet

SeqsOver(S, lo, hi) == UNION {[1..m -> S] : m \in lo..hi}
\* ("enfield": a field of an enumerator, W(g: int32) of enum E2, written over several lines)
Positions == {"struct", "field", "interface", "op", "enum", "enumerator", "custom", "alias", "enfield"}

----------------------------------------------------------------------------------------------------
(* tags *)
\* op0(p, q); op1(p) -> bool; op2(p) -> (r: bool, s: int32); op3(p) -> (p: bool, s: int32) - a return member named like a
\* parameter; enumerator A(f: int32)
TagPositions == {"op0", "op1", "op2", "op3", "struct", "enumerator", "field", "enfield"}
Conts == <<  <<>>,
             << [indent |-> <<"sp", "sp", "sp">>, k |-> "t"] >>,
             << [indent |-> <<"sp", "sp">>, k |-> "t"], [indent |-> <<"sp", "sp", "sp">>, k |-> "lt"], [indent |-> <<>>, k |-> "blank"], [indent |-> <<"sp", "sp">>, k |-> "tl"] >>  >>
\* "textlink": text, a blank, then a link, then more text - the blanks around the link belong to the message
Inlines == {"none", "emptycolon", "text", "padded", "link", "textlink"}
\* the inline link of the j-th tag of a comment names LinkTargets[((j - 1) % 3) + 1]: links of different tags of one comment
\* have different targets (all three exist in module M), so a link bound to another tag's target is visible
LinkTargets == <<"T", "S", "E">>
\* (the name that fits nothing is long: the tag head is then longer than the continuation lines of its message)
TagSpecs == [t : {"param"}, id : {"p", "q", "zzNameThatFitsNoParameterAtAll"}, inline : Inlines, cont : 1..3]
            \cup [t : {"returns"}, id : {"", "r", "p", "zzNameThatFitsNoParameterAtAll"}, inline : Inlines, cont : 1..3]
            \cup [t : {"see"}, id : {"T", "Nope"}, inline : {"none"}, cont : {1}]
ParamsOf(pos) == CASE pos = "op0" -> {"p", "q"} [] pos \in {"op1", "op2", "op3"} -> {"p"} [] OTHER -> {}
Fits(tag, pos) ==
  CASE tag.t = "see" -> TRUE
    [] tag.t = "param" -> pos = "enumerator" \/ (pos \in {"op0", "op1", "op2", "op3"} /\ tag.id \in ParamsOf(pos))
    [] tag.t = "returns" -> CASE pos = "op1" -> tag.id = ""
                              [] pos = "op2" -> tag.id \in {"", "r", "s"}
                              [] pos = "op3" -> tag.id \in {"", "p", "s"}
                              [] OTHER -> FALSE
LinksIn(tag) == (IF tag.inline \in {"link", "textlink"} THEN 1 ELSE 0) + (IF tag.t # "see" /\ tag.cont = 3 THEN 2 ELSE 0)
ExpTag(tag) == [id |-> tag.id, inline |-> tag.inline, cont |-> IF tag.t = "see" THEN <<>> ELSE RefMessage(Conts[tag.cont])]
Sel(tags, t) == LET RECURSIVE Go(_)
                    Go(i) == IF i > Len(tags) THEN <<>> ELSE (IF tags[i].t = t THEN <<ExpTag(tags[i])>> ELSE <<>>) \o Go(i + 1)
                IN Go(1)
CountIf(tags, P(_)) == Cardinality({i \in 1..Len(tags) : P(tags[i])})
ExpTags(tags, pos) ==
  [params |-> Sel(tags, "param"), returns |-> Sel(tags, "returns"), see |-> Sel(tags, "see"),
   incorrect |-> CountIf(tags, LAMBDA g : ~Fits(g, pos)),
   broken |-> CountIf(tags, LAMBDA g : g.t = "see" /\ g.id = "Nope")]

----------------------------------------------------------------------------------------------------
(* links: the program of the family (harness/src/fam_doccomment.rs LINK_PROGRAM) as a key table *)
Keys == {
  [key |-> <<"M">>, kind |-> "module"], [key |-> <<"M", "S">>, kind |-> "struct"], [key |-> <<"M", "S", "x">>, kind |-> "field"],
  [key |-> <<"M", "S", "y">>, kind |-> "field"], [key |-> <<"M", "I">>, kind |-> "interface"], [key |-> <<"M", "I", "op">>, kind |-> "operation"],
  [key |-> <<"M", "I", "op", "p">>, kind |-> "parameter"], [key |-> <<"M", "I", "op2">>, kind |-> "operation"],
  [key |-> <<"M", "E">>, kind |-> "enum"], [key |-> <<"M", "E", "A">>, kind |-> "enumerator"], [key |-> <<"M", "E", "B">>, kind |-> "enumerator"],
  [key |-> <<"M", "C">>, kind |-> "custom"], [key |-> <<"M", "L">>, kind |-> "alias"], [key |-> <<"M", "T">>, kind |-> "struct"],
  [key |-> <<"M", "N">>, kind |-> "module"], [key |-> <<"M", "N", "Other">>, kind |-> "struct"], [key |-> <<"M", "N", "Other", "z">>, kind |-> "field"],
  [key |-> <<"M", "N", "S">>, kind |-> "struct"], [key |-> <<"K">>, kind |-> "module"], [key |-> <<"K", "Far">>, kind |-> "struct"],
  [key |-> <<"int32">>, kind |-> "primitive"], [key |-> <<"string">>, kind |-> "primitive"] }
KeySet == {e.key : e \in Keys}
KindOf(k) == (CHOOSE e \in Keys : e.key = k).kind
\* the commented elements: where the search starts
LinkPositions == {<<"M", "S">>, <<"M", "S", "x">>, <<"M", "I", "op">>, <<"M", "E", "A">>, <<"M", "N", "Other">>, <<"M", "L">>}
Targets == { <<"S">>, <<"x">>, <<"y">>, <<"S", "x">>, <<"I">>, <<"op">>, <<"I", "op">>, <<"op2">>, <<"E">>, <<"A">>, <<"E", "A">>, <<"C">>, <<"L">>, <<"T">>,
             <<"N", "Other">>, <<"M", "N", "Other">>, <<"M", "S">>, <<"K", "Far">>, <<"Far">>, <<"int32">>, <<"M">>, <<"N">>, <<"p">>, <<"op", "p">>,
             <<"I", "op", "p">>, <<"Nope">>, <<"S", "nope">>, <<"Other">>, <<"z">>, <<"Other", "z">> }
Linkable(kind) == kind \notin {"module", "parameter", "primitive"}
Prefix(s, k) == SubSeq(s, 1, k)
\* the same outward search as for types (NameTable!Designated), started at the documented element itself
Designated(scope, segs, global) ==
  LET cand(j) == Prefix(scope, j) \o segs
      hits == {j \in 0..Len(scope) : cand(j) \in KeySet} IN
  IF global THEN (IF segs \in KeySet THEN [found |-> TRUE, key |-> segs] ELSE [found |-> FALSE, key |-> <<>>])
  ELSE IF hits = {} THEN [found |-> FALSE, key |-> <<>>]
  ELSE [found |-> TRUE, key |-> cand(CHOOSE x \in hits : \A y \in hits : y <= x)]
ExpLink(it) == LET d == Designated(it.pos, it.target, it.global) IN
               IF d.found /\ Linkable(KindOf(d.key)) THEN [bound |-> TRUE, key |-> d.key] ELSE [bound |-> FALSE, key |-> <<>>]
LinkItems == [pos : LinkPositions, where : {"link", "see", "taglink"}, target : Targets, global : BOOLEAN]
\* queue alignment: several comments with several links each, some broken
MultiTargets == {<<"T">>, <<"Nope">>, <<"x">>, <<"int32">>}
MultiItems == [pos : LinkPositions, where : {"link", "see"}, target : MultiTargets, global : {FALSE}]

----------------------------------------------------------------------------------------------------
(* malformed *)
Forms == {"unknown_tag", "at_alone", "missing_brace", "inline_param", "block_link", "param_no_id", "see_no_target", "stray_symbol",
          "link_no_target", "returns_stray", "see_with_message", "double_colon_end", "unknown_inline"}
MalPositions == {"struct", "field", "op", "enumerator", "enfield"}
\* "never cost the documented element or its siblings": these elements (a sibling field after x, a sibling enumerator after A,
\* the last definition of the file) carry a well-formed comment 'Kept {@link S}.' which must survive - text, link and all -
\* wherever the malformed comment stands (before them in the same file)
Neighbours == <<"M::S::y", "M::E::B", "M::T">>

----------------------------------------------------------------------------------------------------
VARIABLES c
Init ==
  CASE Family = "dedent" -> c \in [fam : {"dedent"}, pos : Positions \cap PosSet, lines : SeqsOver([indent : Indents \cap IndentSet, k : Kinds \cap KindSet], 1, MaxLines)]
    [] Family = "tags" -> c \in [fam : {"tags"}, pos : TagPositions \cap PosSet, intro : BOOLEAN, tags : SeqsOver(TagSpecs, 1, MaxTags)]
    [] Family = "links" -> c \in [fam : {"links"}, items : SeqsOver(LinkItems, 1, 1)]
    [] Family = "multi" -> c \in [fam : {"links"}, items : {s \in SeqsOver(MultiItems, 2, 3) : \A i, j \in 1..Len(s) : i < j => s[i].pos # s[j].pos \/ s[i].where # s[j].where}]
    [] Family = "malformed" -> c \in [fam : {"malformed"}, pos : MalPositions, form : Forms]
Next == UNCHANGED c

\* (M) the operational dedent equals the reference on every comment, and never cuts inside a character
RefEqOp == Family = "dedent" => OpMessage(c.lines, Dev) = RefMessage(c.lines)
\* properties of the reference itself: the shortest contentful line starts at column 0; nothing but indentation is removed
NoPanic == Family = "dedent" => ByteCutOk(c.lines)
RefSane == Family = "dedent" =>
  LET m == RefMessage(c.lines) IN
  /\ \A i \in 1..Len(m) : m[i].k = c.lines[i].k
  /\ (\E i \in 1..Len(m) : HasContent(c.lines[i])) => \E i \in 1..Len(m) : HasContent(c.lines[i]) /\ m[i].ws = <<>>
  /\ \A i, j \in 1..Len(m) : HasContent(c.lines[i]) /\ HasContent(c.lines[j]) =>
        Len(c.lines[i].indent) - Len(m[i].ws) = Len(c.lines[j].indent) - Len(m[j].ws)

Emit ==
  PrintT(<<"CASE", ToJson(
    CASE c.fam = "dedent" -> [fam |-> "dedent", pos |-> c.pos, lines |-> c.lines, exp |-> RefMessage(c.lines)]
      [] c.fam = "tags" -> [fam |-> "tags", pos |-> c.pos, intro |-> c.intro, conts |-> Conts, ltargets |-> LinkTargets, tags |-> c.tags, exp |-> ExpTags(c.tags, c.pos)]
      [] c.fam = "links" -> [fam |-> "links", items |-> c.items, exp |-> [i \in 1..Len(c.items) |-> ExpLink(c.items[i])]]
      [] c.fam = "malformed" -> [fam |-> "malformed", pos |-> c.pos, form |-> c.form, kept |-> Neighbours])>>)
AllPos == Positions \cup TagPositions
AllIndents == Indents
AllKinds == Kinds
FieldOnly == {"field"}
Op2Only == {"op2"}
Op3Only == {"op3"}
FewIndents == {<<>>, <<"sp">>, <<"wide">>, <<"sp", "sp">>}
FewKinds == {"t", "lt", "ws", "blank"}
====================================================================================================
