INIT Init
NEXT Next
CONSTANTS
  Ns = {1, 2, 3}
  Variants = {1, 2, 3, 4, 5, 6, 7, 8, 9, 10, 11, 12, 13}
  Mixed = {FALSE, TRUE}
  KindPats = {"struct", "enum", "alt", "enumu"}
  Compacts = {FALSE, TRUE}
  MaxEdges = 9
  Family = "contain"
INVARIANT Emit
CHECK_DEADLOCK FALSE
