------------------------------------------ MODULE MC_Rules ------------------------------------------
(* C04: bounded-exhaustive small-scope families per rule; every item is printed with the codes that   *)
(* belong to the rules it violates.  Sanity (vacuity): every family contains well-formed and          *)
(* ill-formed items, and every code of the catalogue occurs.                                          *)
EXTENDS Rules, TLC, Json
CONSTANTS Family, MaxLen
VARIABLE it
Items == CASE Family = "members" -> MemberItems(MaxLen) [] Family = "enums" -> EnumItems(MaxLen) [] Family = "keys" -> KeyItems
           [] Family = "stream" -> StreamItems [] Family = "names" -> NameItems [] Family = "attrs" -> AttrItems
           [] Family = "attrlists" -> AttrListItems(MaxLen) [] Family = "enumorder" -> EnumOrderItems
Init == it \in Items
Next == UNCHANGED it
V == Violations(Family, it)
Emit == PrintT(<<"CASE", ToJson([fam |-> Family, item |-> it, violations |-> V])>>)
\* vacuity: checked once, on the whole family
ASSUME \E x \in Items : WellFormed(Family, x)
ASSUME \E x \in Items : ~WellFormed(Family, x)
====================================================================================================
