INIT Init
NEXT Next
CONSTANTS
  MaxPlaced = 2
  Positions = {"field", "return", "key", "alias", "underlying", "base"}
  Boxes = {0, 1}
  Kinds = {"struct", "enum", "custom", "alias", "interface"}
INVARIANTS BindingIsDesignated OrderIndependent Emit
CHECK_DEADLOCK FALSE
