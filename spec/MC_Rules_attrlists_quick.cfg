INIT Init
NEXT Next
CONSTANTS
  Family = "attrlists"
  MaxLen = 3
INVARIANT Emit
CHECK_DEADLOCK FALSE
