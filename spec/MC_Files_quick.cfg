INIT Init
NEXT Next
CONSTANTS
  Tree <- Skeleton
  SliceNames <- Names
  MaxSrc = 2
  MaxRef = 1
  SpellingSet = "some"
INVARIANT ResolveOk
CHECK_DEADLOCK FALSE
