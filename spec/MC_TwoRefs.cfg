INIT Init
NEXT Next
INVARIANTS EachIsDesignated Emit
CHECK_DEADLOCK FALSE
