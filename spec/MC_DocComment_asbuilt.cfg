INIT Init
NEXT Next
CONSTANTS
  Family = "dedent"
  MaxLines = 2
  MaxTags = 2
  Dev <- AsBuilt
  PosSet <- FieldOnly
  IndentSet <- AllIndents
  KindSet <- AllKinds
INVARIANTS RefEqOp NoPanic
CHECK_DEADLOCK FALSE
