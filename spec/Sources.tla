------------------------------------------ MODULE Sources ------------------------------------------
(* Input sources of slice-codec (slice-codec/src/buffer/slice.rs, SliceInputSource): a buffer `src` *)
(* with a read position `ipos`; peeks never consume, reads consume exactly what they return, and a  *)
(* request that does not fit fails and changes nothing.                                             *)
EXTENDS Naturals, Sequences, FiniteSets

CONSTANTS Lens,       \* buffer lengths tried
          MaxK        \* sizes 0..MaxK


VARIABLES src, ipos, ilast, m
ivars == <<src, ipos, ilast, m>>

SrcByte(i) == 100 + i
IInit == /\ src \in {[i \in 1..L |-> SrcByte(i)] : L \in Lens}
         /\ ipos = 0 /\ m = 0
         /\ ilast = [op |-> "init", k |-> 0, ok |-> TRUE, bytes |-> <<>>]

Avail == Len(src) - ipos
View(k) == SubSeq(src, ipos + 1, ipos + k)

PeekOk(k)   == Avail >= k /\ UNCHANGED ipos /\ ilast' = [op |-> "peek", k |-> k, ok |-> TRUE, bytes |-> View(k)]
PeekFail(k) == Avail < k /\ UNCHANGED ipos /\ ilast' = [op |-> "peek", k |-> k, ok |-> FALSE, bytes |-> <<>>]
ReadOk(k)   == Avail >= k /\ ipos' = ipos + k /\ ilast' = [op |-> "read", k |-> k, ok |-> TRUE, bytes |-> View(k)]
ReadFail(k) == Avail < k /\ UNCHANGED ipos /\ ilast' = [op |-> "read", k |-> k, ok |-> FALSE, bytes |-> <<>>]

INext == /\ m' = m + 1 /\ UNCHANGED src
         /\ \E k \in 0..MaxK : PeekOk(k) \/ PeekFail(k) \/ ReadOk(k) \/ ReadFail(k)

NeverOutsideBuffer == ipos <= Len(src) /\ \A j \in 1..Len(ilast.bytes) : \E i \in 1..Len(src) : ilast.bytes[j] = src[i]
PeekDoesNotConsumeStep == ilast'.op = "peek" => ipos' = ipos
ReadConsumesExactlyStep == ilast'.op = "read" => ipos' = (IF ilast'.ok THEN ipos + ilast'.k ELSE ipos)
====================================================================================================
