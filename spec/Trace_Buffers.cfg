SPECIFICATION Spec
INVARIANT Inv
POSTCONDITION Accepted
CHECK_DEADLOCK FALSE
