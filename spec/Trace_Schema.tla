---------------------------------------- MODULE Trace_Schema ----------------------------------------
(* Trace validation for C08: the trace is the byte stream.  One event per run of the binary:          *)
(*   [bytes  |-> what the capturing generator received on stdin,                                      *)
(*    files  |-> the compiled program as seen through the library API, in compilation order           *)
(*               (neutral projection; every text as its UTF-8 bytes), each with its source flag,      *)
(*    args   |-> the generator's arguments as written on the command line (pairs of byte strings)]     *)
(* The event is accepted iff the bytes decode - with the schema-driven decoder of Schema.tla -         *)
(* completely into (operation name, sources, references, arguments) and Norm(decoded) =               *)
(* Convert(files), the numeric ids point back to anonymous symbols, and every named id exists.        *)
EXTENDS Schema, Json, IOUtils
Rec == ndJsonDeserialize(IOEnv.TRACE)
VARIABLE l

----------------------------------------------------------------------------------------------------
(* Convert: what the request must say about a compiled program                                        *)
CAttrs(as) == [i \in 1..Len(as) |-> [directive |-> as[i].d, args |-> as[i].args]]
CMsg(m) == [i \in 1..Len(m) |-> [disc |-> IF m[i].l THEN DiscOf("MessageComponent", "Link") ELSE DiscOf("MessageComponent", "Text"), v |-> [v |-> m[i].v]]]
CComment(c) == [overview |-> CMsg(c.overview), seeTags |-> [i \in 1..Len(c.see) |-> c.see[i].v]]
CInfo(x) == [identifier |-> x.name, attributes |-> CAttrs(x.attrs), comment |-> IF x.comment = <<>> THEN <<>> ELSE <<CComment(x.comment[1])>>]
RECURSIVE CTypeRef(_)
CTypeRef(t) ==
  IF t.t.f = "id" THEN [typeId |-> t.t.id, isOptional |-> t.opt, typeAttributes |-> CAttrs(t.attrs)]
  ELSE [anon |-> CASE t.t.f = "seq" -> [sym |-> "SequenceType", v |-> [elementType |-> CTypeRef(t.t.e)]]
                   [] t.t.f = "dict" -> [sym |-> "DictionaryType", v |-> [keyType |-> CTypeRef(t.t.k), valueType |-> CTypeRef(t.t.v)]]
                   [] t.t.f = "res" -> [sym |-> "ResultType", v |-> [successType |-> CTypeRef(t.t.s), failureType |-> CTypeRef(t.t.x)]],
        isOptional |-> t.opt, typeAttributes |-> CAttrs(t.attrs)]
CField(f) == [entityInfo |-> CInfo(f), tag |-> f.tag, dataType |-> CTypeRef(f.type)]
\* documentation of a parameter: the message of the first @param tag that names it; of a return value: the message of
\* the first @returns tag without identifier (single return value) / that names the member (return tuple)
First(S) == CHOOSE i \in S : \A j \in S : i <= j
DocOf(tags, hits) == IF hits = {} THEN <<>> ELSE <<[overview |-> CMsg(tags[First(hits)].msg), seeTags |-> <<>>]>>
ParamDoc(op, p) == IF op.comment = <<>> THEN <<>>
                   ELSE LET tags == op.comment[1].params IN DocOf(tags, {i \in 1..Len(tags) : tags[i].id = p.name})
ReturnDoc(op, r) == IF op.comment = <<>> THEN <<>>
                    ELSE LET tags == op.comment[1].returns IN
                         DocOf(tags, {i \in 1..Len(tags) : IF Len(op.rets) = 1 THEN tags[i].id = <<>> ELSE tags[i].id = <<r.name>>})
CParam(p, doc) == [entityInfo |-> [identifier |-> p.name, attributes |-> CAttrs(p.attrs), comment |-> doc], tag |-> p.tag, dataType |-> CTypeRef(p.type)]
COp(o) == [entityInfo |-> CInfo(o), isIdempotent |-> o.idem,
           parameters |-> [i \in 1..Len(o.params) |-> CParam(o.params[i], ParamDoc(o, o.params[i]))], hasStreamedParameter |-> o.sp,
           returnType |-> [i \in 1..Len(o.rets) |-> CParam(o.rets[i], ReturnDoc(o, o.rets[i]))], hasStreamedReturn |-> o.sr]
Sym(name, v) == [disc |-> DiscOf("Symbol", name), v |-> [v |-> v]]
CDef(d) ==
  CASE d.k = "struct" -> Sym("Struct", [entityInfo |-> CInfo(d), isCompact |-> d.compact, fields |-> [i \in 1..Len(d.fields) |-> CField(d.fields[i])]])
    [] d.k = "interface" -> Sym("Interface", [entityInfo |-> CInfo(d), bases |-> d.bases, operations |-> [i \in 1..Len(d.ops) |-> COp(d.ops[i])]])
    [] d.k = "custom" -> Sym("CustomType", [entityInfo |-> CInfo(d)])
    [] d.k = "alias" -> Sym("TypeAlias", [entityInfo |-> CInfo(d), underlyingType |-> CTypeRef(d.type)])
    [] d.k = "enum" ->
         IF d.underlying # <<>>
         THEN Sym("BasicEnum", [entityInfo |-> CInfo(d), isUnchecked |-> d.unchecked, underlying |-> d.underlying[1],
                                enumerators |-> [i \in 1..Len(d.ens) |-> [entityInfo |-> CInfo(d.ens[i]), absoluteValue |-> d.ens[i].abs, hasNegativeValue |-> d.ens[i].neg]]])
         ELSE Sym("VariantEnum", [entityInfo |-> CInfo(d), isCompact |-> d.compact, isUnchecked |-> d.unchecked,
                                  variants |-> [i \in 1..Len(d.ens) |-> [entityInfo |-> CInfo(d.ens[i]), discriminant |-> d.ens[i].disc,
                                                                         fields |-> [j \in 1..Len(d.ens[i].fields) |-> CField(d.ens[i].fields[j])]]]])
Convert(f) == [path |-> f.path, moduleDeclaration |-> [identifier |-> f.module.id, attributes |-> CAttrs(f.module.attrs)], attributes |-> CAttrs(f.attrs),
               contents |-> [i \in 1..Len(f.defs) |-> CDef(f.defs[i])]]
\* a file without a module declaration has no content (definitions need a module): it is not transmitted
Select(files, src) == SelectSeq(files, LAMBDA f : f.source = src /\ f.hasmodule)

----------------------------------------------------------------------------------------------------
(* the identifiers that exist in the transmitted files *)
Join(a, c) == a \o ScopeSeparator \o c
MemberIds(m, s) ==
  LET id == Join(m, s.v.v.entityInfo.identifier)
      members == CASE s.name = "Struct" -> s.v.v.fields [] s.name = "Interface" -> s.v.v.operations [] s.name = "BasicEnum" -> s.v.v.enumerators
                   [] s.name = "VariantEnum" -> s.v.v.variants [] OTHER -> <<>> IN
  {id} \cup {Join(id, members[i].entityInfo.identifier) : i \in 1..Len(members)}
EntityIds(files) == UNION {UNION {MemberIds(files[i].moduleDeclaration.identifier, files[i].contents[j]) :
                                  j \in {k \in 1..Len(files[i].contents) : files[i].contents[k].name \notin AnonymousSymbols}} : i \in 1..Len(files)}
TypeLikeIds(files) == UNION {{Join(files[i].moduleDeclaration.identifier, files[i].contents[j].v.v.entityInfo.identifier) :
                              j \in {k \in 1..Len(files[i].contents) : files[i].contents[k].name \in {"Struct", "BasicEnum", "VariantEnum", "CustomType"}}} : i \in 1..Len(files)}
InterfaceIds(files) == UNION {{Join(files[i].moduleDeclaration.identifier, files[i].contents[j].v.v.entityInfo.identifier) :
                               j \in {k \in 1..Len(files[i].contents) : files[i].contents[k].name = "Interface"}} : i \in 1..Len(files)}
NamedIdsExist(files) ==
  LET types == TypeLikeIds(files) \cup PrimitiveNames
      ifaces == InterfaceIds(files) IN
  /\ \A i \in 1..Len(files) : \A id \in TypeIds(TStruct("SliceFile"), files[i]) : Numeric(id) \/ id \in types
  /\ \A i \in 1..Len(files) : \A j \in 1..Len(files[i].contents) :
        LET s == files[i].contents[j] IN
        /\ s.name = "Interface" => \A k \in 1..Len(s.v.v.bases) : s.v.v.bases[k] \in ifaces
        /\ s.name = "BasicEnum" => s.v.v.underlying \in PrimitiveNames
\* links that the compiler resolved name an entity of a transmitted file (which links are resolved is known from the AST)
RECURSIVE MsgLinksOk(_, _)
MsgLinksOk(m, ids) == \A i \in 1..Len(m) : (m[i].l /\ m[i].bound) => m[i].v \in ids
CommentLinksOk(c, ids) == c = <<>> \/ (/\ MsgLinksOk(c[1].overview, ids)
                                       /\ \A i \in 1..Len(c[1].see) : c[1].see[i].bound => c[1].see[i].v \in ids
                                       /\ \A i \in 1..Len(c[1].params) : MsgLinksOk(c[1].params[i].msg, ids)
                                       /\ \A i \in 1..Len(c[1].returns) : MsgLinksOk(c[1].returns[i].msg, ids))
MembersOf(d) == CASE d.k = "struct" -> d.fields [] d.k = "interface" -> d.ops [] d.k = "enum" -> d.ens [] OTHER -> <<>>
LinksExist(exp, ids) == \A i \in 1..Len(exp) : \A j \in 1..Len(exp[i].defs) :
                          LET d == exp[i].defs[j] IN
                          /\ CommentLinksOk(d.comment, ids)
                          /\ \A k \in 1..Len(MembersOf(d)) : CommentLinksOk(MembersOf(d)[k].comment, ids)

----------------------------------------------------------------------------------------------------
FirstDiff(a, c) == IF Len(a) # Len(c) THEN 0 ELSE LET D == {i \in 1..Len(a) : a[i] # c[i]} IN IF D = {} THEN 0 - 1 ELSE First(D)
Verdict(e) ==
  LET b == e.bytes
      ps == Operations.generateCode.params
      op == DecPrim(b, "string", 1) IN
  IF ~op.ok THEN <<"operation name does not decode", op.why, op.pos>>
  ELSE IF op.v # OperationNameBytes.generateCode THEN <<"operation name", op.v>>
  ELSE LET src == Dec(b, ps[1].t, op.pos) IN
  IF ~src.ok THEN <<"source files do not decode", src.why, src.pos>>
  ELSE LET ref == Dec(b, ps[2].t, src.pos) IN
  IF ~ref.ok THEN <<"reference files do not decode", ref.why, ref.pos>>
  ELSE LET args == Dec(b, ps[3].t, ref.pos) IN
  IF ~args.ok THEN <<"arguments do not decode", args.why, args.pos>>
  ELSE IF args.pos # Len(b) + 1 THEN <<"bytes left over", args.pos, Len(b)>>
  ELSE IF args.v # [i \in 1..Len(e.args) |-> <<e.args[i][1], e.args[i][2]>>] THEN <<"arguments differ", args.v>>
  ELSE LET ns == [i \in 1..Len(src.v) |-> NormFile(src.v[i])]
           nr == [i \in 1..Len(ref.v) |-> NormFile(ref.v[i])]
           es == [i \in 1..Len(Select(e.files, TRUE)) |-> Convert(Select(e.files, TRUE)[i])]
           er == [i \in 1..Len(Select(e.files, FALSE)) |-> Convert(Select(e.files, FALSE)[i])] IN
  IF ns # es THEN <<"source files differ", FirstDiff(ns, es), IF FirstDiff(ns, es) > 0 THEN <<ns[FirstDiff(ns, es)], es[FirstDiff(ns, es)]>> ELSE <<Len(ns), Len(es)>>>>
  ELSE IF nr # er THEN <<"reference files differ", FirstDiff(nr, er), IF FirstDiff(nr, er) > 0 THEN <<nr[FirstDiff(nr, er)], er[FirstDiff(nr, er)]>> ELSE <<Len(nr), Len(er)>>>>
  ELSE IF ~NamedIdsExist(src.v \o ref.v) THEN <<"a named type id, base or underlying type names nothing that was transmitted">>
  ELSE IF ~LinksExist(e.files, EntityIds(src.v \o ref.v)) THEN <<"a resolved link names nothing that was transmitted">>
  ELSE <<"ok">>

Init == l = 1 /\ TLCSet(1, <<>>)
Step == /\ l <= Len(Rec)
        /\ LET v == Verdict(Rec[l]) IN IF v = <<"ok">> THEN TRUE ELSE TLCSet(1, Append(TLCGet(1), <<l, v>>))
        /\ l' = l + 1
Spec == Init /\ [][Step]_l
Accepted == LET d == TLCGet("stats").diameter  bad == TLCGet(1) IN
            IF d - 1 = Len(Rec) /\ bad = <<>> THEN PrintT(<<"ACCEPTED", Len(Rec)>>)
            ELSE /\ PrintT(<<"REJECTED-COUNT", Len(bad), "of", Len(Rec), "consumed", d - 1>>)
                 /\ \A i \in 1..(IF Len(bad) < 12 THEN Len(bad) ELSE 12) : PrintT(<<"REJECTED", bad[i][1], ToJson(bad[i][2])>>)
                 /\ FALSE
====================================================================================================
