INIT Init
NEXT Next
CONSTANTS
  MaxLen = 4
  Classes = {"a", "sp", "tab", "mb2", "mb3"}
  Bases = {1, 9, 100}
  Multi = FALSE
INVARIANTS RefEqOp Emit
CHECK_DEADLOCK FALSE
