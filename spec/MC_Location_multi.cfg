INIT Init
NEXT Next
CONSTANTS
  MaxLen = 4
  Classes = {"a", "tab", "mb3"}
  Bases = {1, 9, 99}
  Multi = TRUE
INVARIANTS RefEqOp Emit
CHECK_DEADLOCK FALSE
