INIT Init
NEXT Next
CONSTANTS
  Ns = {6, 8, 10}
  Variants = {1, 2, 3, 4, 5, 6, 7, 8, 9, 10, 11, 12, 13}
  Mixed = {TRUE}
  KindPats = {"struct", "enum", "alt"}
  Compacts = {FALSE, TRUE}
  MaxEdges = 14
  Family = "contain"
INVARIANT Emit
CHECK_DEADLOCK FALSE
