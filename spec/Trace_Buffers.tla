--------------------------------------- MODULE Trace_Buffers ---------------------------------------
(* Trace validation for C12: recorded histories of operations on the real SliceOutputTarget and      *)
(* VecOutputTarget must be behaviours of Buffers.tla.  One event per public call, logged after it    *)
(* returns (also on the error path):                                                                 *)
(*   [ev |-> "reset", kind, cap]                         a fresh target                              *)
(*   [ev |-> "op", op, k, r, ok, len, rem, probes]       len/rem = -1 when not observable;           *)
(*                                                       probes = <<<<index, byte>>, ...>> read back *)
(*   [ev |-> "end", contents]                            the underlying buffer up to the position    *)
(* Payload bytes are a function of the step number (Buffers!Byte), so events stay small; TLC         *)
(* re-computes the whole log and compares what was observed.                                         *)
EXTENDS Naturals, Integers, Sequences, FiniteSets, TLC, Json, IOUtils

Rec == ndJsonDeserialize(IOEnv.TRACE)

VARIABLES kind, cap, log, resv, n, last, l
B == INSTANCE Buffers WITH Kinds <- {"slice", "vec"}, Caps <- 0..65536, MaxK <- 65536

tvars == <<kind, cap, log, resv, n, last, l>>

Init == /\ kind = "vec" /\ cap = 0 /\ log = <<>> /\ resv = <<>> /\ n = 0
        /\ last = B!Outcome("init", 0, 0, TRUE)
        /\ l = 1

Consume == l <= Len(Rec) /\ l' = l + 1
E == Rec[l]

Reset == /\ Consume /\ E.ev = "reset"
         /\ kind' = E.kind /\ cap' = E.cap
         /\ log' = <<>> /\ resv' = <<>> /\ n' = 0
         /\ last' = B!Outcome("init", 0, 0, TRUE)

Observed == /\ last'.ok = E.ok
            /\ E.len >= 0 => Len(log') = E.len
            /\ E.rem >= 0 => cap - Len(log') = E.rem
            /\ \A p \in 1..Len(E.probes) : log'[E.probes[p][1]] = E.probes[p][2]

Op == /\ Consume /\ E.ev = "op"
      /\ B!Tick
      /\ CASE E.op = "wb" -> B!WriteByteOk \/ B!WriteByteFail
           [] E.op = "w"  -> B!WriteBytesOk(E.k) \/ B!WriteBytesFail(E.k)
           [] E.op = "r"  -> B!ReserveOk(E.k) \/ B!ReserveFail(E.k)
           [] E.op = "rh" -> B!ReserveHuge(E.k)
           [] E.op = "wf" -> B!WriteForeign(E.k)
           [] E.op = "wr" -> E.r \in 1..Len(resv) /\ (B!WriteResOk(E.r, E.k) \/ B!WriteResFail(E.r, E.k))
      /\ Observed

End == /\ Consume /\ E.ev = "end"
       /\ log = E.contents
       /\ UNCHANGED <<kind, cap, log, resv, n, last>>

Next == Reset \/ Op \/ End
Spec == Init /\ [][Next]_tvars

\* the invariants of Buffers are evaluated in every state of every recorded history
Inv == /\ B!ReservationsInsideLog /\ B!ReservationsDisjoint /\ B!NeverPastCap /\ B!ReservedUntouched

Accepted == LET d == TLCGet("stats").diameter IN
            IF d - 1 = Len(Rec) THEN PrintT(<<"ACCEPTED", Len(Rec)>>)
            ELSE Print(<<"REJECTED", d, ToJson([E2 \in {"event"} |-> Rec[d]])>>, FALSE)
====================================================================================================
