INIT InitTagged
NEXT Next
CONSTANTS
  D = 8
  Full16 = FALSE
  StrLen = 0
  FullLen = 2
  RepLen = 4
  Big = {}
INVARIANTS Total DecodedIsEncodable EmitBytes
CHECK_DEADLOCK FALSE
