------------------------------------------ MODULE Options ------------------------------------------
(* The value of --generator / -G (slicec/src/slice_options.rs, plugin_parser).                      *)
(*                                                                                                  *)
(* Reference layer : Ref(s)      - the property read declaratively: tokenise (a backslash escapes   *)
(*                                 only ',' and '='), drop one trailing comma, split at commas,     *)
(*                                 split each argument at its '=', trim, validate.                  *)
(* Operational layer: the character machine of plugin_parser, one named branch per match arm.       *)
(*                    Branch/Apply are pure so that the same definition serves the step-wise model  *)
(*                    (MC_Options: one TLA+ action per arm, coverage per arm) and the functional    *)
(*                    form Machine(s) used by trace validation (Trace_Options).                     *)
(* Characters are opaque: the constants say which values are the comma, the equals sign, the        *)
(* backslash and white space (strings in MC_Options, code points in Trace_Options).                 *)
EXTENDS Naturals, Sequences, FiniteSets

CONSTANTS COMMA, EQ, BSL, WS       \* WS: the set of characters trimmed by str::trim (Unicode White_Space)

IsWs(c) == c \in WS

RECURSIVE TrimL(_), TrimR(_)
TrimL(x) == IF x # <<>> /\ IsWs(x[1]) THEN TrimL(Tail(x)) ELSE x
TrimR(x) == IF x # <<>> /\ IsWs(x[Len(x)]) THEN TrimR(SubSeq(x, 1, Len(x) - 1)) ELSE x
Trim(x)  == TrimR(TrimL(x))

Rejected      == [res |-> "rejected"]
Ok(path, args) == [res |-> "ok", path |-> path, args |-> args]

----------------------------------------------------------------------------------------------------
(* Operational layer                                                                                *)

St0 == [i |-> 1, mode |-> "Path", path |-> <<>>, args |-> <<>>, err |-> FALSE]

Halted(st, s) == st.err \/ st.i > Len(s)

\* Which arm of the `match c` in plugin_parser handles position st.i.
Branch(st, s) ==
  LET c == s[st.i]  hasNext == st.i < Len(s) IN
  IF c = BSL /\ hasNext /\ s[st.i + 1] \in {COMMA, EQ} THEN "EscapeNext"
  ELSE IF c = COMMA THEN (IF hasNext THEN "CommaStartsArg" ELSE "TrailingCommaIgnored")
  ELSE IF c = EQ THEN (CASE st.mode = "Path"  -> "EqualsInPath"
                         [] st.mode = "Key"   -> "KeyToValue"
                         [] st.mode = "Value" -> "SecondEqualsRejected")
  ELSE "PushChar"

Push(st, ch) == CASE st.mode = "Path"  -> [st EXCEPT !.path = Append(@, ch)]
                  [] st.mode = "Key"   -> [st EXCEPT !.args[Len(st.args)].k = Append(@, ch)]
                  [] st.mode = "Value" -> [st EXCEPT !.args[Len(st.args)].v = Append(@, ch)]

Apply(st, s, b) ==
  LET c == s[st.i] IN
  CASE b = "EscapeNext"           -> [Push(st, s[st.i + 1]) EXCEPT !.i = st.i + 2]
    [] b = "CommaStartsArg"       -> [st EXCEPT !.i = @ + 1, !.mode = "Key", !.args = Append(@, [k |-> <<>>, v |-> <<>>])]
    [] b = "TrailingCommaIgnored" -> [st EXCEPT !.i = @ + 1]
    [] b = "EqualsInPath"         -> [Push(st, c) EXCEPT !.i = st.i + 1]
    [] b = "KeyToValue"           -> [st EXCEPT !.i = @ + 1, !.mode = "Value"]
    [] b = "SecondEqualsRejected" -> [st EXCEPT !.err = TRUE]
    [] b = "PushChar"             -> [Push(st, c) EXCEPT !.i = st.i + 1]

RECURSIVE Run(_, _)
Run(st, s) == IF Halted(st, s) THEN st ELSE Run(Apply(st, s, Branch(st, s)), s)

\* Post-processing after the loop: trim, then validate path and keys.
Finish(st) ==
  LET path == Trim(st.path)
      args == [j \in 1..Len(st.args) |-> [k |-> Trim(st.args[j].k), v |-> Trim(st.args[j].v)]] IN
  IF st.err THEN Rejected
  ELSE IF path = <<>> THEN Rejected
  ELSE IF \E j \in 1..Len(args) : args[j].k = <<>> THEN Rejected
  ELSE Ok(path, args)

\* The property demands a usage error for the empty string (the pinned tree asserts instead; the deviation is
\* not part of the intended machine).
Machine(s) == IF s = <<>> THEN Rejected ELSE Finish(Run(St0, s))

----------------------------------------------------------------------------------------------------
(* Reference layer                                                                                  *)

\* items: [c, lit]; lit = TRUE for an escaped separator (it never separates)
RECURSIVE Items(_, _)
Items(s, i) == IF i > Len(s) THEN <<>>
               ELSE IF s[i] = BSL /\ i < Len(s) /\ s[i + 1] \in {COMMA, EQ}
                    THEN <<[c |-> s[i + 1], lit |-> TRUE]>> \o Items(s, i + 2)
                    ELSE <<[c |-> s[i], lit |-> FALSE]>> \o Items(s, i + 1)
IsSep(it, ch) == it.c = ch /\ ~it.lit
DropTrailingComma(its) == IF its # <<>> /\ IsSep(its[Len(its)], COMMA) THEN SubSeq(its, 1, Len(its) - 1) ELSE its
RECURSIVE SplitAt(_, _, _)
SplitAt(its, ch, cur) == IF its = <<>> THEN <<cur>>
                         ELSE IF IsSep(its[1], ch) THEN <<cur>> \o SplitAt(Tail(its), ch, <<>>)
                         ELSE SplitAt(Tail(its), ch, Append(cur, its[1]))
Text(its) == [j \in 1..Len(its) |-> its[j].c]
NEq(its) == Cardinality({j \in 1..Len(its) : IsSep(its[j], EQ)})
FirstEq(its) == CHOOSE j \in 1..Len(its) : IsSep(its[j], EQ) /\ \A h \in 1..(j - 1) : ~IsSep(its[h], EQ)

Ref(s) ==
  IF s = <<>> THEN Rejected
  ELSE LET comps == SplitAt(DropTrailingComma(Items(s, 1)), COMMA, <<>>)
           \* '=' has no meaning in the path: it is the first component, taken literally
           path == Trim(Text(comps[1]))
           rest == SubSeq(comps, 2, Len(comps))
           arg(c) == IF NEq(c) = 0 THEN [k |-> Trim(Text(c)), v |-> <<>>]
                     ELSE [k |-> Trim(Text(SubSeq(c, 1, FirstEq(c) - 1))),
                           v |-> Trim(Text(SubSeq(c, FirstEq(c) + 1, Len(c))))]
           args == [j \in 1..Len(rest) |-> arg(rest[j])] IN
       IF \E j \in 1..Len(rest) : NEq(rest[j]) > 1 THEN Rejected
       ELSE IF path = <<>> \/ \E j \in 1..Len(args) : args[j].k = <<>> THEN Rejected
       ELSE Ok(path, args)

----------------------------------------------------------------------------------------------------
(* Rendering: PATH,KEY=VALUE,... with every ',' and '=' inside a component escaped by a backslash    *)

RECURSIVE Esc(_)
Esc(x) == IF x = <<>> THEN <<>>
          ELSE IF x[1] \in {COMMA, EQ} THEN <<BSL, x[1]>> \o Esc(Tail(x)) ELSE <<x[1]>> \o Esc(Tail(x))
RECURSIVE RenderArgs(_)
RenderArgs(as) == IF as = <<>> THEN <<>>
                  ELSE <<COMMA>> \o Esc(as[1].k) \o (IF as[1].v = <<>> /\ as[1].bare THEN <<>> ELSE <<EQ>> \o Esc(as[1].v))
                       \o RenderArgs(Tail(as))
\* as[j].bare: write a key with an empty value without '='.  trailing: append one trailing comma.
Render(path, as, trailing) == Esc(path) \o RenderArgs(as) \o (IF trailing THEN <<COMMA>> ELSE <<>>)

\* Components the syntax can express: they do not end in a backslash (it would escape the separator that follows).
Expressible(x) == x = <<>> \/ x[Len(x)] # BSL

Intended(path, as) ==
  LET p == Trim(path)
      a == [j \in 1..Len(as) |-> [k |-> Trim(as[j].k), v |-> Trim(as[j].v)]] IN
  IF p = <<>> \/ \E j \in 1..Len(a) : a[j].k = <<>> THEN Rejected ELSE Ok(p, a)
====================================================================================================
