---------------------------------------- MODULE MC_Sources -----------------------------------------
EXTENDS Sources, TLC, Json
CONSTANTS MaxOps, Paths
VARIABLE hist
vars == <<ivars, hist>>
Init == IInit /\ hist = <<>>
Wrap(A) == /\ m < MaxOps
           /\ m' = m + 1 /\ UNCHANGED src
           /\ A
           /\ hist' = (IF Paths THEN Append(hist, [op |-> ilast'.op, k |-> ilast'.k, ok |-> ilast'.ok,
                                                   bytes |-> ilast'.bytes, rem |-> Len(src) - ipos']) ELSE hist)
DoPeekOk   == \E k \in 0..MaxK : Wrap(PeekOk(k))
DoPeekFail == \E k \in 0..MaxK : Wrap(PeekFail(k))
DoReadOk   == \E k \in 0..MaxK : Wrap(ReadOk(k))
DoReadFail == \E k \in 0..MaxK : Wrap(ReadFail(k))
Next == DoPeekOk \/ DoPeekFail \/ DoReadOk \/ DoReadFail
Spec == Init /\ [][Next]_vars
PeekDoesNotConsume  == [][PeekDoesNotConsumeStep]_vars
ReadConsumesExactly == [][ReadConsumesExactlyStep]_vars
Emit == (Paths /\ m >= 1) => PrintT(<<"CASE", ToJson([kind |-> "source", len |-> Len(src), ops |-> hist])>>)
====================================================================================================
