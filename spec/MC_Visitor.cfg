SPECIFICATION Spec
CONSTANTS
  N = 6
INVARIANTS PrefixOfReference ExactlyOnce ContainersFirst Complete WalkIsRun
PROPERTY Terminates
CHECK_DEADLOCK FALSE
