------------------------------------------- MODULE MC_Visitor ----------------------------------------
(* Model check of Visitor.tla: on every tree of up to N nodes (every shape; node i is presented as     *)
(* callback "n" with identity i) the stack machine presents exactly the pre-order traversal: every     *)
(* element once, containers before their contents, children in source order, nothing after the walk    *)
(* has returned.                                                                                       *)
EXTENDS Visitor, TLC
CONSTANT N
\* a shape: parent[i] < i for nodes 2..n (node 1 is the root); children ordered by their number
Shapes(n) == [2..n -> 1..n]
Valid(par, n) == \A i \in 2..n : par[i] < i
RECURSIVE Build(_, _, _)
KidsOf(par, n, i) == {j \in 2..n : par[j] = i}
SortedSeq(S) == LET RECURSIVE Go(_, _)
                    Go(T, acc) == IF T = {} THEN acc ELSE LET m == CHOOSE x \in T : \A y \in T : x <= y IN Go(T \ {m}, Append(acc, m))
                IN Go(S, <<>>)
Build(par, n, i) == LET ks == SortedSeq(KidsOf(par, n, i)) IN
                    [cb |-> "n", id |-> i, kids |-> [k \in 1..Len(ks) |-> Build(par, n, ks[k])]]
VARIABLES tree, m
Init == \E n \in 1..N : \E par \in Shapes(n) : Valid(par, n) /\ tree = Build(par, n, 1) /\ m = Start(tree)
DoDescend == CanDescend(m) /\ m' = Descend(m) /\ UNCHANGED tree
DoReturn == CanReturn(m) /\ m' = Return(m) /\ UNCHANGED tree
Next == DoDescend \/ DoReturn
Spec == Init /\ [][Next]_<<tree, m>> /\ WF_<<tree, m>>(Next)
\* at every moment what has been presented is a prefix of the reference traversal
PrefixOfReference == LET r == PreOrder(tree) IN Len(m.out) <= Len(r) /\ SubSeq(r, 1, Len(m.out)) = m.out
ExactlyOnce == NoDup(m.out)
\* containers before their contents: when a node is presented, all frames below it on the stack were presented before
ContainersFirst == \A k \in 1..Len(m.stack) : \E i \in 1..Len(m.out) : m.out[i].id = m.stack[k].node.id
Complete == Halted(m) => m.out = PreOrder(tree) /\ Len(m.out) = Size(tree)
WalkIsRun == Walk(tree) = PreOrder(tree)
Terminates == <>Halted(m)
====================================================================================================
