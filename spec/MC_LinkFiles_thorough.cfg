INIT Init
NEXT Next
CONSTANT MaxFiles = 3
INVARIANT Emit
CHECK_DEADLOCK FALSE
