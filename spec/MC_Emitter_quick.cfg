SPECIFICATION Spec
CONSTANTS
  MaxLen = 3
  Colours = {TRUE, FALSE}
INVARIANTS EmittedEqFilterNonAllowedInOrder ExactlyOnce SuppressedLeaveNoTrace ErrorsNeverSuppressed PrefixOrder Emit
CHECK_DEADLOCK FALSE
