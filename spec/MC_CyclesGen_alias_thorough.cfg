INIT InitAlias
NEXT NextNone
CONSTANTS
  Ns = {5}
  Variants = {1, 2, 3, 4, 5, 6}
  Mixed = {FALSE, TRUE}
  KindPats = {"struct"}
  Compacts = {FALSE}
  MaxEdges = 0
  Family = "alias"
INVARIANT EmitAlias
CHECK_DEADLOCK FALSE
