INIT InitAlias
NEXT NextNone
CONSTANTS
  Ns = {5}
  Variants = {1}
  Mixed = {FALSE}
  KindPats = {"struct"}
  Compacts = {FALSE}
  MaxEdges = 0
  Family = "alias"
INVARIANT EmitAlias
CHECK_DEADLOCK FALSE
