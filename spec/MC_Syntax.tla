----------------------------------------- MODULE MC_Syntax ------------------------------------------
(* Construction layer of SliceSyntax: well-formed programs are built by actions that mirror grammar   *)
(* productions; the guards are the language rules (so that every finished program must compile       *)
(* without errors).  Used with TLC's simulator for random programs (C02, C09, C20, C08).              *)
EXTENDS SliceSyntax, Json, Visitor

CONSTANTS MaxFiles, MaxDefs, MaxMembers, MaxTypeOps, MaxAttrs

VARIABLES prog,      \* finished files
          file,      \* the file being written [mod, fattrs, mattrs, defs] or NoFile
          cur,       \* the open definition, or NoDef
          pend,      \* what waits for a type: [what, ...] or NoPend
          ty,        \* stack of type references under construction
          tops,      \* type operations used for the pending type
          cat,       \* catalogue of finished definitions [name, k, mod, scoped, keyOk, etype, opnames]
          scope,     \* the parser's scope stack (module, then open containers)
          prevEnum,  \* the parser's previous_enumerator_value, symbolically [idx, plus] or <<>>
          counter,   \* for unique names
          ch,        \* printing choices
          done
vars == <<prog, file, cur, pend, ty, tops, cat, scope, prevEnum, counter, ch, done>>

NoFile == [none |-> TRUE]
NoDef  == [none |-> TRUE]
NoPend == [none |-> TRUE]
IsNone(x) == "none" \in DOMAIN x
\* One element of S drawn by TLC's seeded generator (none when S is empty).  The simulator computes every successor of
\* a state before it picks one, so a choice written as \E x \in S costs |S| successor states per step; drawing the
\* element first keeps the random walk the same in kind (every element of S can be drawn) at one successor per action.
Pick(S) == IF S = {} THEN {} ELSE {RandomElement(S)}

RECURSIVE JoinSegs(_, _)
JoinSegs(segs, i) == IF i > Len(segs) THEN "" ELSE segs[i] \o (IF i < Len(segs) THEN "::" ELSE "") \o JoinSegs(segs, i + 1)
Scoped(mod, name) == JoinSegs(Append(mod, name), 1)

Modules == {<<"A">>, <<"A", "B">>, <<"C">>, <<"A", "B", "D">>}
\* attributes that are legal everywhere a local attribute may stand: foreign-prefixed directives, kept verbatim
ForeignAttrs == {
  [d |-> <<"cs", "attr">>, paren |-> FALSE, args |-> <<>>],
  [d |-> <<"x", "y", "z">>, paren |-> TRUE, args |-> <<[q |-> TRUE, id |-> 2, s |-> ""]>>],
  [d |-> <<"go", "struct">>, paren |-> TRUE, args |-> <<[q |-> FALSE, id |-> 0, s |-> "module"], [q |-> TRUE, id |-> 5, s |-> ""]>>],
  [d |-> <<"cs", "type">>, paren |-> TRUE, args |-> <<[q |-> TRUE, id |-> 4, s |-> ""], [q |-> TRUE, id |-> 3, s |-> ""], [q |-> FALSE, id |-> 0, s |-> "tag"]>>],
  [d |-> <<"rust", "int32">>, paren |-> TRUE, args |-> <<>>],
  \* foreign directives whose last segment is spelled like one of the compiler's own, and twice the same argument in a row
  [d |-> <<"cs", "deprecated">>, paren |-> TRUE, args |-> <<[q |-> TRUE, id |-> 2, s |-> ""], [q |-> TRUE, id |-> 2, s |-> ""]>>],
  [d |-> <<"rust", "allow">>, paren |-> TRUE, args |-> <<[q |-> FALSE, id |-> 0, s |-> "dead_code"], [q |-> FALSE, id |-> 0, s |-> "dead_code"], [q |-> FALSE, id |-> 0, s |-> "x"]>>],
  [d |-> <<"a", "b">>, paren |-> TRUE, args |-> <<[q |-> TRUE, id |-> 6, s |-> ""], [q |-> TRUE, id |-> 7, s |-> ""]>>],
  [d |-> <<"p", "q">>, paren |-> TRUE, args |-> <<[q |-> TRUE, id |-> 8, s |-> ""], [q |-> TRUE, id |-> 9, s |-> ""], [q |-> TRUE, id |-> 10, s |-> ""]>>]
}
DefAttrs == ForeignAttrs \cup {
  [d |-> <<"deprecated">>, paren |-> FALSE, args |-> <<>>],
  [d |-> <<"deprecated">>, paren |-> TRUE, args |-> <<[q |-> TRUE, id |-> 1, s |-> ""]>>],
  [d |-> <<"allow">>, paren |-> TRUE, args |-> <<[q |-> FALSE, id |-> 0, s |-> "Deprecated"]>>]
}
MemberNames == <<"a", "b", "int32", "c", "tag", "d">>
\* names are unique in the whole program (a few of them collide with keywords and must be written escaped)
DefName(kind) == LET n == Len(cat) + 1 IN
                 IF n = 3 /\ kind = "struct" THEN "struct" ELSE IF n = 4 /\ kind = "enum" THEN "enum" ELSE IF n = 2 /\ kind = "custom" THEN "custom"
                 \* the names of built-in types too: written escaped they are ordinary names, and the plain keyword keeps meaning the built-in
                 ELSE IF n = 5 /\ kind = "struct" THEN "string" ELSE IF n = 1 /\ kind = "custom" THEN "int32" ELSE IF n = 6 /\ kind = "enum" THEN "uint8"
                 ELSE IF n = 2 /\ kind = "alias" THEN "bool"
                 ELSE (CASE kind = "struct" -> "S" [] kind = "enum" -> "E" [] kind = "interface" -> "I" [] kind = "custom" -> "C" [] kind = "alias" -> "L") \o ToString(n)
OpName == CASE counter % 33 = 5 -> "idempotent" [] counter % 33 = 16 -> "stream" [] counter % 33 = 27 -> "unchecked" [] OTHER -> "op" \o ToString(counter)
EnName == IF counter % 11 = 7 THEN "compact" ELSE "N" \o ToString(counter)

Init == /\ prog = <<>> /\ file = NoFile /\ cur = NoDef /\ pend = NoPend /\ ty = <<>> /\ tops = 0 /\ cat = <<>>
        /\ scope = <<>> /\ prevEnum = <<>> /\ counter = 0 /\ done = FALSE
        /\ ch \in [escAll : BOOLEAN, seed : 1..40]

Idle == ~done /\ IsNone(pend)
U(vs) == UNCHANGED vs

\* ---- files and modules
NewFile == /\ Idle /\ IsNone(file) /\ IsNone(cur) /\ Len(prog) < MaxFiles
           /\ \E m \in Pick(Modules), fa \in Pick({<<>>} \cup {<<a>> : a \in ForeignAttrs}), ma \in Pick({<<>>} \cup {<<a>> : a \in ForeignAttrs}) :
                /\ file' = [mod |-> m, fattrs |-> fa, mattrs |-> ma, defs |-> <<>>]
                /\ scope' = <<JoinSegs(m, 1)>>
           /\ U(<<prog, cur, pend, ty, tops, cat, prevEnum, counter, ch, done>>)
\* a file that consists of file attributes only: no module declaration, no definitions (legal; in a third of the programs)
AttrOnlyFile == /\ Idle /\ IsNone(file) /\ IsNone(cur) /\ Len(prog) < MaxFiles /\ ch.seed % 3 = 0
                /\ (prog # <<>> => prog[Len(prog)].mod # <<>>)
                /\ \E fa \in Pick({<<a>> : a \in ForeignAttrs} \cup {<<a, b>> : a \in ForeignAttrs, b \in ForeignAttrs}) :
                     prog' = Append(prog, [mod |-> <<>>, fattrs |-> fa, mattrs |-> <<>>, defs |-> <<>>])
                /\ U(<<file, cur, pend, ty, tops, cat, scope, prevEnum, counter, ch, done>>)
\* (a file may declare its module and nothing else: allowed in a quarter of the programs)
EndFile == /\ Idle /\ ~IsNone(file) /\ IsNone(cur) /\ (Len(file.defs) >= 1 \/ ch.seed % 4 = 1)
           /\ prog' = Append(prog, file) /\ file' = NoFile /\ scope' = <<>>
           /\ U(<<cur, pend, ty, tops, cat, prevEnum, counter, ch, done>>)
CanBegin == Idle /\ ~IsNone(file) /\ IsNone(cur) /\ Len(file.defs) < MaxDefs
AttrChoices(S) == {<<>>} \cup {<<a>> : a \in S} \cup {<<a, b>> : a \in ForeignAttrs, b \in {x \in S : x.d = <<"deprecated">>}}

\* ---- structs
BeginStruct == /\ CanBegin
               /\ \E c \in Pick(BOOLEAN), as \in Pick(AttrChoices(DefAttrs)) :
                    cur' = [k |-> "struct", name |-> DefName("struct"), compact |-> c, attrs |-> as, fields |-> <<>>]
               /\ scope' = Append(scope, DefName("struct"))        \* ContainerIdentifier pushes the scope
               /\ counter' = counter + 1
               /\ U(<<prog, file, pend, ty, tops, cat, prevEnum, ch, done>>)
UsedNames(ms) == {ms[i].name : i \in 1..Len(ms)}
UsedTags(ms)  == {ms[i].tag[1].cls : i \in {j \in 1..Len(ms) : ms[j].tag # <<>>}}
TagRows == {r \in NumRows : ~r.neg /\ r.cls \in {"zero", "one", "seven", "n42", "u16max1", "i32max"}}
\* begin a member (field of the open struct / of the last enumerator, parameter, return member): needs a type next
BeginMember(what, existing, allowTag, allowStream) ==
  /\ Len(existing) < MaxMembers
  /\ \E nm \in Pick({MemberNames[i] : i \in 1..Len(MemberNames)} \ UsedNames(existing)),
        tg \in Pick({<<>>, <<>>} \cup (IF allowTag THEN {<<r>> : r \in {x \in TagRows : x.cls \notin UsedTags(existing)}} ELSE {})),
        st \in Pick(IF allowStream /\ ~(what = "ret" /\ existing = <<>>) THEN BOOLEAN ELSE {FALSE}),
        as \in Pick({<<>>} \cup {<<a>> : a \in ForeignAttrs}) :
        pend' = [what |-> what, name |-> nm, tag |-> tg, stream |-> st, attrs |-> as]
  /\ ty' = <<>> /\ tops' = 0
AddField == /\ Idle /\ ~IsNone(cur) /\ cur.k = "struct"
            /\ BeginMember("field", cur.fields, ~cur.compact, FALSE)
            /\ U(<<prog, file, cur, cat, scope, prevEnum, counter, ch, done>>)

\* ---- the type stack machine
Typing == ~done /\ ~IsNone(pend)
TR(t) == [opt |-> FALSE, attrs |-> <<>>, t |-> t]
\* references to finished definitions that are types, written bare / qualified / global
RefSegs(e) == IF ~IsNone(file) /\ e.mod = file.mod THEN {<<e.name>>, Append(e.mod, e.name), <<"">> \o Append(e.mod, e.name)}
              ELSE {Append(e.mod, e.name), <<"">> \o Append(e.mod, e.name)}
\* leaves while fewer than two operands wait; combining operands is always possible, so every type can be finished
TLeafPrim == /\ Typing /\ tops < MaxTypeOps /\ Len(ty) < 2
             /\ \E p \in Pick(Prims) : ty' = Append(ty, TR([f |-> "prim", n |-> p]))
             /\ tops' = tops + 1 /\ U(<<prog, file, cur, pend, cat, scope, prevEnum, counter, ch, done>>)
TLeafNamed == /\ Typing /\ tops < MaxTypeOps /\ Len(ty) < 2
              /\ \E i \in Pick({j \in 1..Len(cat) : cat[j].k \in {"struct", "enum", "custom", "alias"}}) : \E w \in Pick(RefSegs(cat[i])) :
                   ty' = Append(ty, TR([f |-> "named", w |-> w, ref |-> i]))
              /\ tops' = tops + 1 /\ U(<<prog, file, cur, pend, cat, scope, prevEnum, counter, ch, done>>)
TSeq == /\ Typing /\ tops < MaxTypeOps /\ Len(ty) >= 1
        /\ ty' = Append(SubSeq(ty, 1, Len(ty) - 1), TR([f |-> "seq", e |-> ty[Len(ty)]]))
        /\ tops' = tops + 1 /\ U(<<prog, file, cur, pend, cat, scope, prevEnum, counter, ch, done>>)
\* is a finished type reference legal as a dictionary key (validators/dictionary.rs)
KeyLegal(tr) == /\ ~tr.opt
                /\ \/ tr.t.f = "prim" /\ tr.t.n \in KeyPrims
                   \/ tr.t.f = "named" /\ cat[tr.t.ref].keyOk
TDict == /\ Typing /\ Len(ty) >= 2 /\ KeyLegal(ty[Len(ty) - 1])
         /\ ty' = Append(SubSeq(ty, 1, Len(ty) - 2), TR([f |-> "dict", k |-> ty[Len(ty) - 1], v |-> ty[Len(ty)]]))
         /\ tops' = tops + 1 /\ U(<<prog, file, cur, pend, cat, scope, prevEnum, counter, ch, done>>)
TRes == /\ Typing /\ Len(ty) >= 2
        /\ ty' = Append(SubSeq(ty, 1, Len(ty) - 2), TR([f |-> "res", s |-> ty[Len(ty) - 1], x |-> ty[Len(ty)]]))
        /\ tops' = tops + 1 /\ U(<<prog, file, cur, pend, cat, scope, prevEnum, counter, ch, done>>)
TOpt == /\ Typing /\ Len(ty) >= 1 /\ ~ty[Len(ty)].opt
        /\ ~(pend.what = "alias" /\ Len(ty) = 1)                      \* the aliased type itself is never optional
        /\ ty' = [ty EXCEPT ![Len(ty)].opt = TRUE]
        /\ U(<<prog, file, cur, pend, tops, cat, scope, prevEnum, counter, ch, done>>)
TAttr == /\ Typing /\ Len(ty) >= 1 /\ Len(ty[Len(ty)].attrs) < MaxAttrs
         /\ \E a \in Pick(ForeignAttrs) : ty' = [ty EXCEPT ![Len(ty)].attrs = Append(@, a)]
         /\ U(<<prog, file, cur, pend, tops, cat, scope, prevEnum, counter, ch, done>>)

\* ---- attaching the finished type
Member(p, tr) == [name |-> p.name, tag |-> p.tag, stream |-> p.stream, attrs |-> p.attrs, type |-> tr]
Ready == Typing /\ Len(ty) = 1
\* a tagged member must be optional
TagOk(p, tr) == IF p.tag = <<>> THEN TRUE ELSE tr.opt
AttachField == /\ Ready /\ pend.what = "field" /\ TagOk(pend, ty[1])
               /\ cur' = [cur EXCEPT !.fields = Append(@, Member(pend, ty[1]))]
               /\ pend' = NoPend /\ ty' = <<>> /\ tops' = 0
               /\ U(<<prog, file, cat, scope, prevEnum, counter, ch, done>>)

\* ---- enums
IdxOf(cls) == CHOOSE i \in 1..Len(NumOrder) : NumOrder[i] = cls
DecOf(cls) == (CHOOSE r \in NumRows : r.cls = cls).dec
Integral == Prims \ {"bool", "float32", "float64", "string"}
MinCls(u) == CASE u = "int8" -> "i8min" [] u = "int16" -> "i16min" [] u \in {"int32", "varint32"} -> "i32min" [] u = "int64" -> "i64min"
               [] u = "varint62" -> "v62min" [] OTHER -> "zero"
MaxCls(u) == CASE u = "int8" -> "i8max" [] u = "uint8" -> "u8max" [] u = "int16" -> "i16max" [] u = "uint16" -> "u16max"
               [] u \in {"int32", "varint32", "none"} -> "i32max" [] u \in {"uint32", "varuint32"} -> "u32max" [] u = "int64" -> "i64max"
               [] u = "uint64" -> "u64max" [] u = "varint62" -> "v62max" [] u = "varuint62" -> "vu62max"
BeginEnum == /\ CanBegin
             /\ \E sh \in Pick({x \in ({"none"} \cup Integral) \X BOOLEAN \X BOOLEAN : x[2] => (x[1] = "none" /\ ~x[3])}),   \* compact enums are neither backed nor unchecked
                   as \in Pick(AttrChoices(DefAttrs)) :
                  LET u == sh[1]  c == sh[2]  un == sh[3] IN
                  /\ cur' = [k |-> "enum", name |-> DefName("enum"), compact |-> c, unchecked |-> un,
                             underlying |-> IF u = "none" THEN <<>> ELSE <<TR([f |-> "prim", n |-> u])>>, attrs |-> as, ens |-> <<>>, u |-> u]
             /\ scope' = Append(scope, DefName("enum"))
             /\ counter' = counter + 1 /\ prevEnum' = <<>>
             /\ U(<<prog, file, pend, ty, tops, cat, ch, done>>)
\* implicit: previous + 1, starting from 0; the symbolic value [idx in NumOrder, plus] must stay inside the range
ImplicitNext == IF prevEnum = <<>> THEN [idx |-> IdxOf("zero"), plus |-> 0] ELSE [idx |-> prevEnum[1].idx, plus |-> prevEnum[1].plus + 1]
InRange(v, u) == /\ v.idx >= IdxOf(MinCls(u))
                 /\ IF v.plus = 0 THEN v.idx <= IdxOf(MaxCls(u)) ELSE v.idx < IdxOf(MaxCls(u)) /\ v.plus <= 5
\* an explicit value must exceed everything used so far (keeps values unique without arithmetic): at least two table
\* positions above the previous explicit one, and above the small implicit run that starts at zero
Exceeds(row) == IF prevEnum = <<>> THEN TRUE ELSE (IdxOf(row.cls) >= prevEnum[1].idx + 2 /\ IdxOf(row.cls) >= IdxOf("i8max"))
AddEnumerator == /\ Idle /\ ~IsNone(cur) /\ cur.k = "enum" /\ Len(cur.ens) < MaxMembers + 1
                 /\ \E as \in Pick({<<>>} \cup {<<a>> : a \in ForeignAttrs}), wf \in Pick(BOOLEAN) :
                    \/ /\ InRange(ImplicitNext, cur.u) /\ (IF prevEnum = <<>> THEN TRUE ELSE (prevEnum[1].plus < 1 \/ prevEnum[1].idx = IdxOf("zero")))
                       /\ cur' = [cur EXCEPT !.ens = Append(@, [name |-> EnName, explicit |-> FALSE, num |-> [neg |-> FALSE, lit |-> "0"],
                                                                value |-> [base |-> DecOf(NumOrder[ImplicitNext.idx]), plus |-> ImplicitNext.plus],
                                                                fields |-> IF wf /\ cur.u = "none" THEN <<<<>>>> ELSE <<>>, attrs |-> as])]
                       /\ prevEnum' = <<ImplicitNext>>
                    \/ \E row \in Pick({r \in NumRows : Exceeds(r) /\ InRange([idx |-> IdxOf(r.cls), plus |-> 0], cur.u)}) :
                       /\ Exceeds(row) /\ InRange([idx |-> IdxOf(row.cls), plus |-> 0], cur.u)
                       /\ cur' = [cur EXCEPT !.ens = Append(@, [name |-> EnName, explicit |-> TRUE, num |-> [neg |-> row.neg, lit |-> row.lit],
                                                                value |-> [base |-> row.dec, plus |-> 0],
                                                                fields |-> IF wf /\ cur.u = "none" THEN <<<<>>>> ELSE <<>>, attrs |-> as])]
                       /\ prevEnum' = <<[idx |-> IdxOf(row.cls), plus |-> 0]>>
                 /\ counter' = counter + 1
                 /\ U(<<prog, file, pend, ty, tops, cat, scope, ch, done>>)
LastEn == cur.ens[Len(cur.ens)]
AddEnumeratorField == /\ Idle /\ ~IsNone(cur) /\ cur.k = "enum" /\ cur.ens # <<>> /\ LastEn.fields # <<>>
                      /\ BeginMember("enfield", LastEn.fields[1], ~cur.compact, FALSE)
                      /\ U(<<prog, file, cur, cat, scope, prevEnum, counter, ch, done>>)
AttachEnField == /\ Ready /\ pend.what = "enfield" /\ TagOk(pend, ty[1])
                 /\ cur' = [cur EXCEPT !.ens[Len(cur.ens)].fields[1] = Append(@, Member(pend, ty[1]))]
                 /\ pend' = NoPend /\ ty' = <<>> /\ tops' = 0
                 /\ U(<<prog, file, cat, scope, prevEnum, counter, ch, done>>)

\* ---- interfaces and operations
BeginInterface == /\ CanBegin
                  /\ \E bs \in Pick({b \in SUBSET {j \in 1..Len(cat) : cat[j].k = "interface"} : Cardinality(b) <= 2}), as \in Pick(AttrChoices(DefAttrs)) :
                       /\ Cardinality(bs) <= 2
                       /\ LET order == CHOOSE s \in [1..Cardinality(bs) -> bs] : \A a, b \in 1..Cardinality(bs) : a < b => s[a] < s[b] IN
                          cur' = [k |-> "interface", name |-> DefName("interface"), attrs |-> as, ops |-> <<>>,
                                  bases |-> [i \in 1..Cardinality(bs) |->
                                               TR([f |-> "named", ref |-> order[i],
                                                   w |-> IF (counter + i) % 2 = 0 THEN Append(cat[order[i]].mod, cat[order[i]].name)
                                                         ELSE <<"">> \o Append(cat[order[i]].mod, cat[order[i]].name)])]]
                  /\ scope' = Append(scope, DefName("interface"))
                  /\ counter' = counter + 1
                  /\ U(<<prog, file, pend, ty, tops, cat, prevEnum, ch, done>>)
BArg(x) == [q |-> FALSE, id |-> 0, s |-> x]
\* the attributes that are legal on operations: foreign ones, compress / slicedFormat with each argument list, deprecated
\* with and without a reason, and - on operations that return nothing - oneway
OpAttrs(shape) ==
  {<<>>} \cup {<<a>> : a \in ForeignAttrs}
  \cup {<<[d |-> <<dir>>, paren |-> TRUE, args |-> as]>> : dir \in {"compress", "slicedFormat"}, as \in {<<BArg("Args")>>, <<BArg("Return")>>, <<BArg("Args"), BArg("Return")>>}}
  \cup {<<[d |-> <<"deprecated">>, paren |-> FALSE, args |-> <<>>]>>, <<[d |-> <<"deprecated">>, paren |-> TRUE, args |-> <<[q |-> TRUE, id |-> 1, s |-> ""]>>]>>}
  \cup (IF shape = "none" THEN {<<[d |-> <<"oneway">>, paren |-> FALSE, args |-> <<>>]>>} ELSE {})
\* no redeclaration of an inherited operation: the names of the operations of all (transitive) bases are taken
InheritedOpNames == UNION {cat[cur.bases[i].t.ref].opnames : i \in 1..Len(cur.bases)}
AddOperation == /\ Idle /\ ~IsNone(cur) /\ cur.k = "interface" /\ Len(cur.ops) < MaxMembers
                /\ OpName \notin InheritedOpNames
                /\ (IF cur.ops = <<>> THEN TRUE ELSE cur.ops[Len(cur.ops)].closed)
                /\ \E idem \in Pick(BOOLEAN), shape \in Pick({"none", "single", "tuple"}) : \E as \in Pick(OpAttrs(shape)) :
                     cur' = [cur EXCEPT !.ops = Append(@, [name |-> OpName, idem |-> idem, attrs |-> as, params |-> <<>>,
                                                           rets |-> <<>>, single |-> shape = "single", shape |-> shape, closed |-> FALSE])]
                /\ counter' = counter + 1
                /\ U(<<prog, file, pend, ty, tops, cat, scope, prevEnum, ch, done>>)
LastOp == cur.ops[Len(cur.ops)]
OpOpen == Idle /\ ~IsNone(cur) /\ cur.k = "interface" /\ cur.ops # <<>> /\ ~LastOp.closed
\* 'stream' only on the last parameter: a parameter may be added only while no streamed one exists
NoStreamYet(ms) == \A i \in 1..Len(ms) : ~ms[i].stream
AddParam == /\ OpOpen /\ LastOp.rets = <<>> /\ NoStreamYet(LastOp.params)
            /\ BeginMember("param", LastOp.params, TRUE, TRUE)
            /\ U(<<prog, file, cur, cat, scope, prevEnum, counter, ch, done>>)
AddReturn == /\ OpOpen /\ LastOp.shape # "none" /\ NoStreamYet(LastOp.rets)
             /\ (LastOp.shape = "single" => LastOp.rets = <<>>)
             /\ BeginMember(IF LastOp.shape = "single" THEN "ret1" ELSE "ret", LastOp.rets, TRUE, TRUE)
             /\ U(<<prog, file, cur, cat, scope, prevEnum, counter, ch, done>>)
AttachParam == /\ Ready /\ pend.what = "param" /\ TagOk(pend, ty[1])
               /\ cur' = [cur EXCEPT !.ops[Len(cur.ops)].params = Append(@, Member(pend, ty[1]))]
               /\ pend' = NoPend /\ ty' = <<>> /\ tops' = 0
               /\ U(<<prog, file, cat, scope, prevEnum, counter, ch, done>>)
AttachReturn == /\ Ready /\ pend.what \in {"ret", "ret1"} /\ TagOk(pend, ty[1])
                /\ cur' = [cur EXCEPT !.ops[Len(cur.ops)].rets =
                             Append(@, IF pend.what = "ret1" THEN [Member(pend, ty[1]) EXCEPT !.name = "returnValue", !.attrs = <<>>] ELSE Member(pend, ty[1]))]
                /\ pend' = NoPend /\ ty' = <<>> /\ tops' = 0
                /\ U(<<prog, file, cat, scope, prevEnum, counter, ch, done>>)
CloseOperation == /\ OpOpen
                  /\ (LastOp.shape = "single" => Len(LastOp.rets) = 1)
                  /\ (LastOp.shape = "tuple" => Len(LastOp.rets) >= 2)             \* return tuples of at least two
                  /\ cur' = [cur EXCEPT !.ops[Len(cur.ops)].closed = TRUE]
                  /\ U(<<prog, file, pend, ty, tops, cat, scope, prevEnum, counter, ch, done>>)

\* ---- custom types and aliases
AddCustom == /\ CanBegin
             /\ \E as \in Pick(AttrChoices(DefAttrs)) :
                  cur' = [k |-> "custom", name |-> DefName("custom"), attrs |-> as]
             /\ counter' = counter + 1
             /\ U(<<prog, file, pend, ty, tops, cat, scope, prevEnum, ch, done>>)
BeginAlias == /\ CanBegin
              /\ \E as \in Pick(AttrChoices(DefAttrs)) :
                   /\ cur' = [k |-> "alias", name |-> DefName("alias"), attrs |-> as]
                   /\ pend' = [what |-> "alias", name |-> "", tag |-> <<>>, stream |-> FALSE, attrs |-> <<>>]
              /\ ty' = <<>> /\ tops' = 0 /\ counter' = counter + 1
              /\ U(<<prog, file, cat, scope, prevEnum, ch, done>>)
AttachAlias == /\ Ready /\ pend.what = "alias" /\ ~ty[1].opt                      \* no alias of an optional type
               /\ cur' = cur @@ [type |-> ty[1]]
               /\ pend' = NoPend /\ ty' = <<>> /\ tops' = 0
               /\ U(<<prog, file, cat, scope, prevEnum, counter, ch, done>>)

\* ---- expectation: alias references are replaced by what they finally name, attributes accumulate along the chain
RECURSIVE ExpectTR(_)
ExpectTR(tr) ==
  LET t == tr.t IN
  CASE t.f = "prim"  -> [opt |-> tr.opt, attrs |-> tr.attrs, t |-> t]
    [] t.f = "seq"   -> [opt |-> tr.opt, attrs |-> tr.attrs, t |-> [f |-> "seq", e |-> ExpectTR(t.e)]]
    [] t.f = "dict"  -> [opt |-> tr.opt, attrs |-> tr.attrs, t |-> [f |-> "dict", k |-> ExpectTR(t.k), v |-> ExpectTR(t.v)]]
    [] t.f = "res"   -> [opt |-> tr.opt, attrs |-> tr.attrs, t |-> [f |-> "res", s |-> ExpectTR(t.s), x |-> ExpectTR(t.x)]]
    [] t.f = "named" -> LET e == cat[t.ref] IN
                        IF e.k = "alias" THEN [opt |-> tr.opt, attrs |-> tr.attrs \o e.etype.attrs, t |-> e.etype.t]
                        ELSE [opt |-> tr.opt, attrs |-> tr.attrs, t |-> [f |-> "named", target |-> e.scoped, tk |-> e.k, name |-> e.name]]
ExpectMember(m) == [name |-> m.name, tag |-> IF m.tag = <<>> THEN "" ELSE m.tag[1].dec, stream |-> m.stream, attrs |-> m.attrs, type |-> ExpectTR(m.type)]
ExpectMembers(ms) == [i \in 1..Len(ms) |-> ExpectMember(ms[i])]
ExpectDef(d) ==
  CASE d.k = "struct" -> [k |-> "struct", name |-> d.name, compact |-> d.compact, attrs |-> d.attrs, fields |-> ExpectMembers(d.fields)]
    [] d.k = "enum" -> [k |-> "enum", name |-> d.name, compact |-> d.compact, unchecked |-> d.unchecked, attrs |-> d.attrs,
                        underlying |-> [i \in 1..Len(d.underlying) |-> ExpectTR(d.underlying[i])],
                        ens |-> [i \in 1..Len(d.ens) |-> [name |-> d.ens[i].name, explicit |-> d.ens[i].explicit, value |-> d.ens[i].value, attrs |-> d.ens[i].attrs,
                                                          fields |-> [j \in 1..Len(d.ens[i].fields) |-> ExpectMembers(d.ens[i].fields[j])]]]]
    [] d.k = "interface" -> [k |-> "interface", name |-> d.name, attrs |-> d.attrs, bases |-> [i \in 1..Len(d.bases) |-> ExpectTR(d.bases[i])],
                             ops |-> [i \in 1..Len(d.ops) |-> [name |-> d.ops[i].name, idem |-> d.ops[i].idem, attrs |-> d.ops[i].attrs,
                                                               params |-> ExpectMembers(d.ops[i].params), rets |-> ExpectMembers(d.ops[i].rets)]]]
    [] d.k = "custom" -> [k |-> "custom", name |-> d.name, attrs |-> d.attrs]
    [] d.k = "alias" -> [k |-> "alias", name |-> d.name, attrs |-> d.attrs, type |-> ExpectTR(d.type)]

\* ---- closing a definition: rules that look at the whole definition
StructKeyOk(d) == d.compact /\ \A i \in 1..Len(d.fields) : KeyLegal(d.fields[i].type)
CatEntry(d) ==
  [name |-> d.name, k |-> d.k, mod |-> file.mod, scoped |-> Scoped(file.mod, d.name),
   keyOk |-> CASE d.k = "struct" -> StructKeyOk(d) [] d.k = "enum" -> d.underlying # <<>> [] d.k = "custom" -> TRUE
               [] d.k = "alias" -> KeyLegal([d.type EXCEPT !.opt = FALSE]) [] OTHER -> FALSE,
   etype |-> IF d.k = "alias" THEN ExpectTR(d.type) ELSE <<>>,
   opnames |-> IF d.k = "interface" THEN {d.ops[i].name : i \in 1..Len(d.ops)} \cup UNION {cat[d.bases[i].t.ref].opnames : i \in 1..Len(d.bases)} ELSE {}]
EndDef == /\ Idle /\ ~IsNone(cur)
          /\ (cur.k = "struct" /\ cur.compact => cur.fields # <<>>)                       \* compact structs are non-empty
          /\ (cur.k = "enum" /\ ~cur.unchecked => cur.ens # <<>>)                         \* checked enums are non-empty
          /\ (cur.k = "interface" => (IF cur.ops = <<>> THEN TRUE ELSE LastOp.closed))
          /\ (cur.k = "alias" => "type" \in DOMAIN cur)
          /\ file' = [file EXCEPT !.defs = Append(@, cur)]
          /\ cat' = Append(cat, CatEntry(cur))
          /\ cur' = NoDef /\ prevEnum' = <<>>                                              \* previous_enumerator_value is cleared at the end of an enum
          /\ scope' = IF cur.k \in {"struct", "enum", "interface"} THEN SubSeq(scope, 1, Len(scope) - 1) ELSE scope
          /\ U(<<prog, pend, ty, tops, counter, ch, done>>)
Finish == /\ Idle /\ IsNone(file) /\ IsNone(cur) /\ Len(prog) >= 1
          /\ done' = TRUE /\ U(<<prog, file, cur, pend, ty, tops, cat, scope, prevEnum, counter, ch>>)

Next == \/ NewFile \/ AttrOnlyFile \/ EndFile \/ BeginStruct \/ AddField \/ AttachField
        \/ TLeafPrim \/ TLeafNamed \/ TSeq \/ TDict \/ TRes \/ TOpt \/ TAttr
        \/ BeginEnum \/ AddEnumerator \/ AddEnumeratorField \/ AttachEnField
        \/ BeginInterface \/ AddOperation \/ AddParam \/ AddReturn \/ AttachParam \/ AttachReturn \/ CloseOperation
        \/ AddCustom \/ BeginAlias \/ AttachAlias \/ EndDef \/ Finish
Spec == Init /\ [][Next]_vars

\* ---- invariants of the parser state
ScopeBalanced == (IsNone(file) => scope = <<>>) /\ (~IsNone(file) /\ IsNone(cur) => Len(scope) = 1)
                 /\ (~IsNone(cur) /\ cur.k \in {"struct", "enum", "interface"} => Len(scope) = 2)
PrevEnumResetAtEnumEnd == (IsNone(cur) \/ cur.k # "enum") => prevEnum = <<>>

ExpectFile(fl) == [module |-> JoinSegs(fl.mod, 1), fattrs |-> fl.fattrs, mattrs |-> fl.mattrs, defs |-> [i \in 1..Len(fl.defs) |-> ExpectDef(fl.defs[i])]]

\* ---- C20: the element tree of a file as a visitor is shown it (Visitor.tla: [cb, id, kids]); the reference traversal
\* is its pre-order walk
RECURSIVE TypeString(_), TypeTree(_)
TypeString(tr) ==
  (CASE tr.t.f = "prim"  -> tr.t.n
     [] tr.t.f = "named" -> tr.t.name                     \* identifiers are reported unqualified
     [] tr.t.f = "seq"   -> "Sequence<" \o TypeString(tr.t.e) \o ">"
     [] tr.t.f = "dict"  -> "Dictionary<" \o TypeString(tr.t.k) \o ", " \o TypeString(tr.t.v) \o ">"
     [] tr.t.f = "res"   -> "Result<" \o TypeString(tr.t.s) \o ", " \o TypeString(tr.t.x) \o ">")
  \o (IF tr.opt THEN "?" ELSE "")
\* a type reference, then the element / key, value / success, failure types nested inside it
TypeTree(tr) ==
  [cb |-> "type_ref", id |-> TypeString(tr),
   kids |-> CASE tr.t.f = "seq"  -> <<TypeTree(tr.t.e)>>
              [] tr.t.f = "dict" -> <<TypeTree(tr.t.k), TypeTree(tr.t.v)>>
              [] tr.t.f = "res"  -> <<TypeTree(tr.t.s), TypeTree(tr.t.x)>>
              [] OTHER -> <<>>]
RECURSIVE Concat(_, _)
Concat(ss, i) == IF i > Len(ss) THEN <<>> ELSE ss[i] \o Concat(ss, i + 1)
\* the type of a member is presented right after its owner
MemberTrees(cb, owner, ms) == [i \in 1..Len(ms) |-> [cb |-> cb, id |-> owner \o "::" \o ms[i].name, kids |-> <<TypeTree(ms[i].type)>>]]
DefTree(mod, d) ==
  LET id == Scoped(mod, d.name) IN
  CASE d.k = "struct" -> [cb |-> "struct", id |-> id, kids |-> MemberTrees("field", id, d.fields)]
    [] d.k = "enum" -> [cb |-> "enum", id |-> id,
                        kids |-> [i \in 1..Len(d.ens) |->
                                    [cb |-> "enumerator", id |-> id \o "::" \o d.ens[i].name,
                                     kids |-> IF d.ens[i].fields = <<>> THEN <<>> ELSE MemberTrees("field", id \o "::" \o d.ens[i].name, d.ens[i].fields[1])]]]
    [] d.k = "interface" -> [cb |-> "interface", id |-> id,
                             kids |-> [i \in 1..Len(d.ops) |->
                                         [cb |-> "operation", id |-> id \o "::" \o d.ops[i].name,      \* parameters, then return members
                                          kids |-> MemberTrees("parameter", id \o "::" \o d.ops[i].name, d.ops[i].params)
                                                   \o MemberTrees("parameter", id \o "::" \o d.ops[i].name, d.ops[i].rets)]]]
    [] d.k = "custom" -> [cb |-> "custom", id |-> id, kids |-> <<>>]
    [] d.k = "alias" -> [cb |-> "alias", id |-> id, kids |-> <<TypeTree(d.type)>>]
\* the file, then its module, then every definition in source order, containers before their contents
FileTree(fl) == LET ef == ExpectFile(fl) IN
                [cb |-> "file", id |-> "",
                 kids |-> (IF fl.mod = <<>> THEN <<>> ELSE <<[cb |-> "module", id |-> ef.module, kids |-> <<>>]>>)
                          \o [i \in 1..Len(ef.defs) |-> DefTree(fl.mod, ef.defs[i])]]
Traversal(fl) == PreOrder(FileTree(fl))

\* nothing from another file is presented: every declared element shown while file f is walked lies in file f (the
\* types nested in an alias are reached through their users, wherever the alias was written: 0 = not constrained)
InFile(evs, f) == [i \in 1..Len(evs) |-> evs[i] @@ [f |-> IF evs[i].cb = "type_ref" THEN 0 ELSE f]]

\* ---- output
AllToks == LET RECURSIVE Go(_)
               Go(f) == IF f > Len(prog) THEN <<>> ELSE <<FileToks(prog[f], f, ch)>> \o Go(f + 1)
           IN Go(1)
Rendered(f) == LET placed == Place(AllToks[f], 1, [row |-> 1, col |-> 1], ch.seed + f, <<>>) IN
               [out |-> [i \in 1..Len(placed) |-> [sep |-> placed[i].sep, tok |-> placed[i].tok]],
                spans |-> {SpanFacts(placed, el) : el \in Els(placed)}]
Emit == done => PrintT(<<"CASE", ToJson([files |-> [f \in 1..Len(prog) |-> Rendered(f)],
                                         expect |-> [f \in 1..Len(prog) |-> ExpectFile(prog[f])],
                                         visit |-> [f \in 1..Len(prog) |-> InFile(Traversal(prog[f]), f)],
                                         tree |-> [f \in 1..Len(prog) |-> FileTree(prog[f])]])>>)

----------------------------------------------------------------------------------------------------
(* C04 in context: ONE violation of a language rule is injected into a finished, well-formed program   *)
(* (at a site chosen by the seed), and the program is printed with the codes that belong to the        *)
(* violated rule.  The surrounding program is whatever the random walk built - nested modules, several *)
(* files, attributes, tags, streams, inheritance - so every rule is met in contexts no template has.   *)
(* Used with INVARIANT EmitInjected (MC_Syntax_inject.cfg); the actions above are untouched.           *)

\* member lists of a program: [f, d, kind, j]  (kind: "fields" of struct d; "en": the fields of enumerator j of enum d;
\* "params" / "rets": of operation j of interface d)
ListsOfDef(p, f, d) ==
  LET x == p[f].defs[d] IN
  CASE x.k = "struct" -> {[f |-> f, d |-> d, kind |-> "fields", j |-> 0]}
    [] x.k = "enum" -> {[f |-> f, d |-> d, kind |-> "en", j |-> j] : j \in {i \in 1..Len(x.ens) : x.ens[i].fields # <<>>}}
    [] x.k = "interface" -> {[f |-> f, d |-> d, kind |-> "params", j |-> j] : j \in 1..Len(x.ops)}
                            \cup {[f |-> f, d |-> d, kind |-> "rets", j |-> j] : j \in {i \in 1..Len(x.ops) : x.ops[i].shape = "tuple"}}
    [] OTHER -> {}
AllLists(p) == UNION {UNION {ListsOfDef(p, f, d) : d \in 1..Len(p[f].defs)} : f \in 1..Len(p)}
ML(p, l) == LET x == p[l.f].defs[l.d] IN
            CASE l.kind = "fields" -> x.fields [] l.kind = "en" -> x.ens[l.j].fields[1]
              [] l.kind = "params" -> x.ops[l.j].params [] OTHER -> x.ops[l.j].rets
SetML(p, l, ms) == CASE l.kind = "fields" -> [p EXCEPT ![l.f].defs[l.d].fields = ms]
                     [] l.kind = "en" -> [p EXCEPT ![l.f].defs[l.d].ens[l.j].fields = <<ms>>]
                     [] l.kind = "params" -> [p EXCEPT ![l.f].defs[l.d].ops[l.j].params = ms]
                     [] OTHER -> [p EXCEPT ![l.f].defs[l.d].ops[l.j].rets = ms]
\* may the members of this list carry tags (compact types are untagged)
Taggable(p, l) == LET x == p[l.f].defs[l.d] IN ~(x.k \in {"struct", "enum"} /\ x.compact)
InCompact(p, l) == LET x == p[l.f].defs[l.d] IN x.k \in {"struct", "enum"} /\ x.compact
FreshTag(ms) == CHOOSE r \in TagRows : r.cls \notin UsedTags(ms) /\ r.lit = r.dec
Row(cls) == CHOOSE r \in NumRows : r.cls = cls /\ r.lit = r.dec /\ ~r.neg
HexRow(cls) == CHOOSE r \in NumRows : r.cls = cls /\ r.sp = "hex"
Over(u) == CASE u \in {"int8"} -> "i8max1" [] u = "uint8" -> "u8max1" [] u = "int16" -> "i16max1" [] u = "uint16" -> "u16max1"
             [] u \in {"int32", "varint32", "none"} -> "i32max1" [] u \in {"uint32", "varuint32"} -> "u32max1" [] OTHER -> ""
Defs(p, Pred(_)) == {fd \in UNION {{<<f, d>> : d \in 1..Len(p[f].defs)} : f \in 1..Len(p)} : Pred(p[fd[1]].defs[fd[2]])}
Bogus == [d |-> <<"bogus">>, paren |-> FALSE, args |-> <<>>]
Depr == [d |-> <<"deprecated">>, paren |-> FALSE, args |-> <<>>]
FloatKeyDict == TR([f |-> "dict", k |-> TR([f |-> "prim", n |-> "float32"]), v |-> TR([f |-> "prim", n |-> "bool"])])

\* the catalogue: every entry is a set of [prog, rule, codes] - one per site where the injection applies
Injections(p) ==
  \* names unique within their scope: the second member takes the name of the first
  {[prog |-> SetML(p, l, [ML(p, l) EXCEPT ![2].name = ML(p, l)[1].name]), rule |-> "member names unique", codes |-> {"E010"}]
     : l \in {x \in AllLists(p) : Len(ML(p, x)) >= 2}}
  \* tags unique: the first two members get the same tag (both optional)
  \cup {LET ms == ML(p, l)  t == <<FreshTag(ms)>> IN
        [prog |-> SetML(p, l, [ms EXCEPT ![1].tag = t, ![1].type.opt = TRUE, ![2].tag = t, ![2].type.opt = TRUE]), rule |-> "tags unique", codes |-> {"E012"}]
     : l \in {x \in AllLists(p) : Len(ML(p, x)) >= 2 /\ Taggable(p, x)}}
  \* tags only on optional members
  \cup {LET ms == ML(p, l) IN
        [prog |-> SetML(p, l, [ms EXCEPT ![Len(ms)].tag = <<FreshTag(ms)>>, ![Len(ms)].type.opt = FALSE]), rule |-> "tags only on optional members", codes |-> {"E016"}]
     : l \in {x \in AllLists(p) : Len(ML(p, x)) >= 1 /\ Taggable(p, x)}}
  \* compact types untagged
  \cup {LET ms == ML(p, l) IN
        \* (the member's type stays as it is - making it optional could make the struct an illegal dictionary key elsewhere, a
        \* second violation; a tag on a member that is not optional violates "tags only on optional members" as well)
        [prog |-> SetML(p, l, [ms EXCEPT ![1].tag = <<FreshTag(ms)>>]), rule |-> "compact types untagged",
         codes |-> IF ms[1].type.opt THEN {"E015"} ELSE {"E015", "E016"}]
     : l \in {x \in AllLists(p) : Len(ML(p, x)) >= 1 /\ InCompact(p, x)}}
  \* tags within 0..2^31-1
  \cup {LET ms == ML(p, l) IN
        [prog |-> SetML(p, l, [ms EXCEPT ![1].tag = <<HexRow("i32max1")>>, ![1].type.opt = TRUE]), rule |-> "tags within range", codes |-> {"E021"}]
     : l \in {x \in AllLists(p) : Len(ML(p, x)) >= 1 /\ Taggable(p, x)}}
  \* 'stream' only on the single last parameter
  \cup {[prog |-> SetML(p, l, [ML(p, l) EXCEPT ![1].stream = TRUE]), rule |-> "stream only on the last member", codes |-> {"E013", "E029"}]
     : l \in {x \in AllLists(p) : x.kind \in {"params", "rets"} /\ Len(ML(p, x)) >= 2}}
  \* return tuples of at least two
  \cup {[prog |-> SetML(p, l, <<ML(p, l)[1]>>), rule |-> "return tuples of at least two", codes |-> {"E014"}]
     : l \in {x \in AllLists(p) : x.kind = "rets"}}
  \* dictionary keys of a legal type: the first field becomes a dictionary keyed by float32
  \cup {[prog |-> SetML(p, l, [ML(p, l) EXCEPT ![1].type = FloatKeyDict, ![1].tag = <<>>]), rule |-> "dictionary keys of a legal type", codes |-> {"E003", "E004", "E005", "E006"}]
     : l \in {x \in AllLists(p) : x.kind = "fields" /\ Len(ML(p, x)) >= 1}}
  \* compact structs non-empty
  \cup {[prog |-> [p EXCEPT ![fd[1]].defs[fd[2]].fields = <<>>], rule |-> "compact structs non-empty", codes |-> {"E018"}]
     : fd \in Defs(p, LAMBDA x : x.k = "struct" /\ x.compact)}
  \* enumerators: names unique, values unique (the same value in two spellings), values within the range, checked enums non-empty
  \cup {[prog |-> [p EXCEPT ![fd[1]].defs[fd[2]].ens[2].name = p[fd[1]].defs[fd[2]].ens[1].name], rule |-> "enumerator names unique", codes |-> {"E010"}]
     : fd \in Defs(p, LAMBDA x : x.k = "enum" /\ Len(x.ens) >= 2)}
  \cup {[prog |-> [p EXCEPT ![fd[1]].defs[fd[2]].ens[1].explicit = TRUE, ![fd[1]].defs[fd[2]].ens[1].num = [neg |-> FALSE, lit |-> "7"],
                            ![fd[1]].defs[fd[2]].ens[2].explicit = TRUE, ![fd[1]].defs[fd[2]].ens[2].num = [neg |-> FALSE, lit |-> "0x7"]],
         rule |-> "enumerator values unique", codes |-> {"E022"}]
     : fd \in Defs(p, LAMBDA x : x.k = "enum" /\ Len(x.ens) >= 2)}
  \cup {LET x == p[fd[1]].defs[fd[2]]  n == Len(x.ens)  r == Row(Over(x.u)) IN
        [prog |-> [p EXCEPT ![fd[1]].defs[fd[2]].ens[n].explicit = TRUE, ![fd[1]].defs[fd[2]].ens[n].num = [neg |-> FALSE, lit |-> r.lit]],
         rule |-> "enumerator values within the range", codes |-> {"E020"}]
     : fd \in Defs(p, LAMBDA x : x.k = "enum" /\ Len(x.ens) >= 1 /\ Over(x.u) # "")}
  \cup {[prog |-> [p EXCEPT ![fd[1]].defs[fd[2]].ens = <<>>], rule |-> "checked enums non-empty", codes |-> {"E008"}]
     : fd \in Defs(p, LAMBDA x : x.k = "enum" /\ ~x.unchecked)}
  \* no alias of an optional type
  \cup {[prog |-> [p EXCEPT ![fd[1]].defs[fd[2]].type.opt = TRUE], rule |-> "no alias of an optional type", codes |-> {"E034"}]
     : fd \in Defs(p, LAMBDA x : x.k = "alias")}
  \* attributes: unknown unprefixed directive; a non-repeatable one twice
  \cup {[prog |-> [p EXCEPT ![fd[1]].defs[fd[2]].attrs = Append(@, Bogus)], rule |-> "unknown attribute", codes |-> {"E024"}]
     : fd \in Defs(p, LAMBDA x : Len(x.attrs) <= 1)}
  \cup {[prog |-> [p EXCEPT ![fd[1]].defs[fd[2]].attrs = <<Depr, Depr>>], rule |-> "attributes not repeated", codes |-> {"E026"}]
     : fd \in Defs(p, LAMBDA x : TRUE)}
  \* operations: names unique within the interface
  \cup {[prog |-> [p EXCEPT ![fd[1]].defs[fd[2]].ops[2].name = p[fd[1]].defs[fd[2]].ops[1].name], rule |-> "operation names unique", codes |-> {"E010"}]
     : fd \in Defs(p, LAMBDA x : x.k = "interface" /\ Len(x.ops) >= 2)}
  \* definitions: two new definitions with one name (a custom type and a struct) at the end of a file - nothing refers to them
  \cup {[prog |-> [p EXCEPT ![f].defs = @ \o <<[k |-> "custom", name |-> "Dup", attrs |-> <<>>],
                                               [k |-> "struct", name |-> "Dup", compact |-> FALSE, attrs |-> <<>>, fields |-> <<>>]>>],
         rule |-> "definition names unique", codes |-> {"E010"}]
     : f \in {g \in 1..Len(p) : p[g].mod # <<>>}}

\* the injection the seed selects: first a rule among those the program offers a site for, then a site (bound through
\* singleton sets so that each draw is made once)
InjToks(p) == LET RECURSIVE Go(_)
                  Go(f) == IF f > Len(p) THEN <<>> ELSE <<FileToks(p[f], f, ch)>> \o Go(f + 1)
              IN Go(1)
InjRendered(p, f) == LET placed == Place(InjToks(p)[f], 1, [row |-> 1, col |-> 1], ch.seed + f, <<>>) IN
                     [out |-> [i \in 1..Len(placed) |-> [sep |-> placed[i].sep, tok |-> placed[i].tok]]]
EmitInjected == done =>
  LET S == Injections(prog)  rules == {x.rule : x \in S} IN
  S = {} \/ \A r \in {RandomElement(rules)} : \A x \in {RandomElement({y \in S : y.rule = r})} :
               PrintT(<<"CASE", ToJson([fam |-> "inject", item |-> [rule |-> x.rule], violations |-> x.codes,
                                        files |-> [f \in 1..Len(x.prog) |-> InjRendered(x.prog, f)]])>>)
====================================================================================================
