INIT Init
NEXT Next
CONSTANT MaxFiles = 2
INVARIANT Emit
CHECK_DEADLOCK FALSE
