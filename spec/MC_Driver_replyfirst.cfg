SPECIFICATION Spec
CONSTANTS
  NGen = 1
  PipeCap = 1
  Payload = 2
  ReplyLen = 2
  Mode = "replyfirst"
  Behs = {"replyfirst"}
  AllowReplyFirst = TRUE
INVARIANTS DeadlockFree
CHECK_DEADLOCK FALSE
