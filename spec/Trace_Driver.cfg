SPECIFICATION Spec
CONSTANT ReplyLen = 2
POSTCONDITION Accepted
CHECK_DEADLOCK FALSE
