INIT Init
NEXT Next
CONSTANTS
  ReplyLen = 2
  Family = "flood"
  FaultBehs = {}
  MaxGens = 0
  TruncLen = 0
INVARIANT Emit
CHECK_DEADLOCK FALSE
