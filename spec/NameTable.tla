------------------------------------------ MODULE NameTable -----------------------------------------
(* Scoped lookup of type references (slicec/src/ast/mod.rs find_node_with_scope, parsers/mod.rs,     *)
(* patchers/type_ref_patcher.rs; C03, C15).                                                         *)
(*                                                                                                  *)
(* An arrangement is a sequence of files; a file declares one module (a path of segments) and a      *)
(* list of entities [name, kind] (kind: struct | enum | custom | alias | interface | container).     *)
(* A "container" named N holds a member T (key ...::N::T of kind "member").                         *)
(* Reference layer  : Designated - search the referencing module's scope from the innermost module   *)
(*                    outwards, finally the global scope; '::' in front: global only.  Declarative,   *)
(*                    over the SET of declared keys.                                                 *)
(* Operational layer: the lookup table built by inserting keys file by file (last writer wins),      *)
(*                    modules under their nested identifier, and the popping walk of                 *)
(*                    find_node_with_scope.                                                          *)
EXTENDS Naturals, Sequences, FiniteSets

Prefix(s, k) == SubSeq(s, 1, k)

\* ---- keys declared by an arrangement
FileKeys(f) == {[key |-> f.mod, kind |-> "module"]}
               \cup {[key |-> Append(f.mod, f.ents[i].name), kind |-> f.ents[i].kind] : i \in 1..Len(f.ents)}
               \cup {[key |-> f.mod \o <<f.ents[i].name, "T">>, kind |-> "member"] : i \in {j \in 1..Len(f.ents) : f.ents[j].kind = "container"}}
AllKeys(files) == UNION {FileKeys(files[i]) : i \in 1..Len(files)}
KeySet(files) == {e.key : e \in AllKeys(files)}
KindOfKey(files, k) == (CHOOSE e \in AllKeys(files) : e.key = k).kind
\* every key is declared once (the arrangements of C03 have no collisions; C15 studies collisions)
NoCollision(files) == \A a, b \in AllKeys(files) : a.key = b.key => a = b

\* ---- reference layer
\* ref = [scope (module path of the referencing file), segs (written segments), global (leading '::')]
Missing == [found |-> FALSE]
Hit(k, kind) == [found |-> TRUE, key |-> k, kind |-> kind]
Designated(files, ref) ==
  LET K == KeySet(files)
      cand(j) == Prefix(ref.scope, j) \o ref.segs                                   \* j = Len(scope) .. 0
      hits == {j \in 0..Len(ref.scope) : cand(j) \in K} IN
  IF ref.global THEN (IF ref.segs \in K THEN Hit(ref.segs, KindOfKey(files, ref.segs)) ELSE Missing)
  ELSE IF hits = {} THEN Missing
  ELSE LET j == CHOOSE x \in hits : \A y \in hits : y <= x IN Hit(cand(j), KindOfKey(files, cand(j)))    \* innermost first

\* ---- operational layer
\* the table after inserting the files in order: key -> kind of the last writer
RECURSIVE Insert(_, _, _)
Insert(tab, entries, i) == IF i > Len(entries) THEN tab
                           ELSE Insert([k \in (DOMAIN tab) \cup {entries[i].key} |-> IF k = entries[i].key THEN entries[i].kind ELSE tab[k]], entries, i + 1)
FileEntries(f) ==          \* insertion order inside a file: members and definitions as they are parsed, the module last
  LET RECURSIVE Go(_)
      Go(i) == IF i > Len(f.ents) THEN <<>>
               ELSE (IF f.ents[i].kind = "container" THEN <<[key |-> f.mod \o <<f.ents[i].name, "T">>, kind |-> "member"]>> ELSE <<>>)
                    \o <<[key |-> Append(f.mod, f.ents[i].name), kind |-> f.ents[i].kind]>> \o Go(i + 1)
  IN Go(1) \o <<[key |-> f.mod, kind |-> "module"]>>
RECURSIVE Table(_, _, _)
Table(files, i, tab) == IF i > Len(files) THEN tab ELSE Table(files, i + 1, Insert(tab, FileEntries(files[i]), 1))
EmptyTable == [k \in {} |-> "none"]

\* intended table (C15): what a scoped name designates never depends on which file was parsed first.  Keys are shared
\* by module declarations, members (a field / operation / enumerator / parameter X of a container N has the key ..::N::X)
\* and definitions (a definition X of a module ..::N has the same key).  A definition always takes its key, a member
\* takes it unless a definition holds it, a module only takes a key that is free.
Rank(kind) == CASE kind = "module" -> 0 [] kind = "member" -> 1 [] OTHER -> 2
RECURSIVE InsertIntended(_, _, _)
InsertIntended(tab, entries, i) ==
  IF i > Len(entries) THEN tab
  ELSE LET e == entries[i]
           keep == e.key \in DOMAIN tab /\ (Rank(tab[e.key]) > Rank(e.kind) \/ (e.kind = "module" /\ tab[e.key] = "module")) IN
       InsertIntended(IF keep THEN tab ELSE [k \in (DOMAIN tab) \cup {e.key} |-> IF k = e.key THEN e.kind ELSE tab[k]], entries, i + 1)
RECURSIVE TableIntended(_, _, _)
TableIntended(files, i, tab) == IF i > Len(files) THEN tab ELSE TableIntended(files, i + 1, InsertIntended(tab, FileEntries(files[i]), 1))

RECURSIVE Walk(_, _, _)
Walk(tab, scope, segs) ==
  LET cand == scope \o segs IN
  IF cand \in DOMAIN tab THEN Hit(cand, tab[cand])
  ELSE IF scope = <<>> THEN Missing
  ELSE Walk(tab, Prefix(scope, Len(scope) - 1), segs)
LookupIn(tab, ref) ==
  IF ref.global THEN (IF ref.segs \in DOMAIN tab THEN Hit(ref.segs, tab[ref.segs]) ELSE Missing)
  ELSE Walk(tab, ref.scope, ref.segs)
LookupIntended(files, ref) == LookupIn(TableIntended(files, 1, EmptyTable), ref)
LookupAsBuilt(files, ref)  == LookupIn(Table(files, 1, EmptyTable), ref)
Lookup(files, ref) ==
  LET tab == Table(files, 1, EmptyTable) IN
  IF ref.global THEN (IF ref.segs \in DOMAIN tab THEN Hit(ref.segs, tab[ref.segs]) ELSE Missing)
  ELSE Walk(tab, ref.scope, ref.segs)

\* ---- what the compiler must report for a reference in a position
\* want: "type" (field, parameter, return, element, key, value, result arm, alias target), "interface" (base), "primitive" (underlying)
Outcome(hit, want) ==
  IF ~hit.found THEN [res |-> "E033"]
  ELSE IF want = "type" /\ hit.kind \in {"struct", "enum", "custom", "alias"} THEN [res |-> "bound", key |-> hit.key, kind |-> hit.kind]
  ELSE IF want = "interface" /\ hit.kind = "interface" THEN [res |-> "bound", key |-> hit.key, kind |-> hit.kind]
  ELSE IF want = "primitive" /\ hit.kind = "alias" THEN [res |-> "bound", key |-> hit.key, kind |-> hit.kind]      \* the alias names int32
  ELSE [res |-> "E017"]

----------------------------------------------------------------------------------------------------
(* Alias chains (resolve_type_alias): chain[i] = [attr (TRUE: the aliased type carries an attribute), *)
(* next (index of the alias it names, or 0 when it names the terminal)].  The walk keeps the list of  *)
(* aliases seen; naming an alias already seen is a loop (reported as E019 when it returns to the      *)
(* first alias of the walk), otherwise attributes accumulate in order.                               *)
RECURSIVE AliasWalkFrom(_, _, _, _)
\* returns [res, attrs (indices of the links whose attribute was collected, in order)]
AliasWalkFrom(chain, cur, seen, attrs) ==
  IF cur \in {seen[i] : i \in 1..Len(seen)} THEN [res |-> IF seen[1] = cur THEN "E019" ELSE "E033", attrs |-> <<>>]
  ELSE LET a2 == IF chain[cur].attr THEN Append(attrs, cur) ELSE attrs IN
       IF chain[cur].next = 0 THEN [res |-> "terminal", attrs |-> a2]
       ELSE AliasWalkFrom(chain, chain[cur].next, Append(seen, cur), a2)
AliasResolve(chain, start) == AliasWalkFrom(chain, start, <<>>, <<>>)
\* reference: an alias is usable iff following `next` from it reaches the terminal; its attributes are those of the links on the way
RECURSIVE Reaches(_, _, _)
Reaches(chain, cur, fuel) == IF fuel = 0 THEN FALSE ELSE IF chain[cur].next = 0 THEN TRUE ELSE Reaches(chain, chain[cur].next, fuel - 1)
AliasTransparent(chain) == \A s \in 1..Len(chain) : (AliasResolve(chain, s).res = "terminal") <=> Reaches(chain, s, Len(chain))
====================================================================================================
