-------------------------------------------- MODULE Files -------------------------------------------
(* Input file resolution (slicec/src/utils/file_util.rs, lib.rs compile_from_options; C17).          *)
(*                                                                                                  *)
(* A small file system: the tree below a root directory, with regular files, directories and        *)
(* symbolic links.  A path is a sequence of components; "." and ".." are allowed, the component     *)
(* "ROOT" at the head makes the path absolute.                                                      *)
(*                                                                                                  *)
(* Reference layer  : set semantics with priority - the compiled set is the listed sources (first   *)
(*                    occurrence per canonical file) followed, per reference argument, by the new   *)
(*                    canonical *.slice files it reaches; everything identified by canonical path.  *)
(* Operational layer: find_slice_files (existence / extension / directory-as-source checks,         *)
(*                    recursive walk filtered by extension), remove_duplicate_file_paths (first     *)
(*                    wins, one DuplicateFile per repeat), references dropped when already a source,*)
(*                    read errors, and the gate "nothing is parsed when an error was reported".     *)
EXTENDS Naturals, Sequences, FiniteSets

CONSTANT Tree    \* set of entries [p |-> <<components>>, k |-> "file" | "dir" | "link", t |-> <<target components>>, c |-> "slice" | "text" | "bad"]
                 \* p is the canonical path of the entry itself (no links, no dots); link targets are relative to the link's directory
CONSTANT SliceNames   \* the component names that end in ".slice"

Entry(p) == CHOOSE e \in Tree : e.p = p
Has(p)   == p = <<>> \/ \E e \in Tree : e.p = p
KindOf(p) == IF p = <<>> THEN "dir" ELSE Entry(p).k
Parent(p) == SubSeq(p, 1, Len(p) - 1)

NotFound == [ok |-> FALSE]
Found(p) == [ok |-> TRUE, p |-> p]

\* Resolve components cs starting in directory cur (a canonical directory path); follow links (depth-bounded).
RECURSIVE Walk(_, _, _)
Walk(cur, cs, fuel) ==
  IF cs = <<>> THEN Found(cur)
  ELSE IF fuel = 0 THEN NotFound
  ELSE LET c == cs[1]  rest == Tail(cs) IN
    IF KindOf(cur) # "dir" THEN NotFound                       \* a component below something that is not a directory
    ELSE IF c = "." THEN Walk(cur, rest, fuel)
    ELSE IF c = "ROOT" THEN Walk(<<>>, rest, fuel)
    ELSE IF c = ".." THEN Walk(IF cur = <<>> THEN <<>> ELSE Parent(cur), rest, fuel)
    ELSE LET p == Append(cur, c) IN
         IF ~Has(p) THEN NotFound
         ELSE IF KindOf(p) = "link" THEN Walk(cur, Entry(p).t \o rest, fuel - 1)     \* the link's target replaces the component
         ELSE Walk(p, rest, fuel)

Canon(path) == Walk(<<>>, path, 8)
Exists(path) == Canon(path).ok
IsDir(path)  == Exists(path) /\ KindOf(Canon(path).p) = "dir"
IsFile(path) == Exists(path) /\ KindOf(Canon(path).p) = "file"
\* the extension test looks at the path as it was spelled
SpelledSlice(path) == path # <<>> /\ path[Len(path)] \in SliceNames
Readable(cp) == Entry(cp).c # "bad"                              \* "bad": not valid UTF-8, read_to_string fails

ChildrenOf(dirCanon) == {e.p[Len(e.p)] : e \in {x \in Tree : Len(x.p) = Len(dirCanon) + 1 /\ SubSeq(x.p, 1, Len(dirCanon)) = dirCanon}}

\* every *.slice file below a directory (spelled `path`), recursively, following links; as a set of [canon, spelled]
RECURSIVE Below(_, _)
Below(path, fuel) ==
  IF fuel = 0 THEN {}
  ELSE UNION {LET child == Append(path, n) IN
              IF IsDir(child) THEN Below(child, fuel - 1)
              ELSE IF IsFile(child) /\ n \in SliceNames THEN {Canon(child).p}
              ELSE {}
              : n \in ChildrenOf(Canon(path).p)}

----------------------------------------------------------------------------------------------------
(* What one argument contributes                                                                    *)

\* [err |-> BOOLEAN, files |-> set of canonical paths, ordered |-> TRUE when it is a single file]
Contribution(path, isSource) ==
  IF ~Exists(path) THEN [err |-> TRUE, files |-> {}]
  ELSE IF IsFile(path) /\ ~SpelledSlice(path) THEN [err |-> TRUE, files |-> {}]
  ELSE IF IsDir(path) /\ isSource THEN [err |-> TRUE, files |-> {}]
  ELSE IF IsDir(path) THEN [err |-> FALSE, files |-> Below(path, 6)]
  ELSE [err |-> FALSE, files |-> {Canon(path).p}]

\* number of entries a directory argument yields, counting a file once per way it is reached inside the walk
RECURSIVE CountBelow(_, _)
CountBelow(path, fuel) ==
  IF fuel = 0 THEN 0
  ELSE LET names == ChildrenOf(Canon(path).p)
           RECURSIVE Sum(_)
           Sum(S) == IF S = {} THEN 0
                     ELSE LET n == CHOOSE x \in S : TRUE  child == Append(path, n) IN
                          (IF IsDir(child) THEN CountBelow(child, fuel - 1)
                           ELSE IF IsFile(child) /\ n \in SliceNames THEN 1 ELSE 0) + Sum(S \ {n})
       IN Sum(names)
Entries(path, isSource) == LET c == Contribution(path, isSource) IN
                           IF c.err THEN 0 ELSE IF IsDir(path) THEN CountBelow(path, 6) ELSE 1

----------------------------------------------------------------------------------------------------
(* The resolved file set                                                                            *)

RECURSIVE Groups(_, _, _, _)
\* fold over the arguments of one list: groups of new canonical files per argument, in argument order
Groups(args, i, seen, isSource) ==
  IF i > Len(args) THEN <<>>
  ELSE LET new == Contribution(args[i], isSource).files \ seen IN
       <<new>> \o Groups(args, i + 1, seen \cup new, isSource)

RECURSIVE SumEntries(_, _, _)
SumEntries(args, i, isSource) == IF i > Len(args) THEN 0 ELSE Entries(args[i], isSource) + SumEntries(args, i + 1, isSource)
AllOf(groups) == UNION {groups[i] : i \in 1..Len(groups)}

Resolve(sources, refs) ==
  LET sg == Groups(sources, 1, {}, TRUE)
      srcSet == AllOf(sg)
      rgAll == Groups(refs, 1, {}, FALSE)                        \* de-duplication inside the reference list ...
      rg == [i \in 1..Len(rgAll) |-> rgAll[i] \ srcSet]          \* ... then references that are sources are dropped silently
      argErr == (\E i \in 1..Len(sources) : Contribution(sources[i], TRUE).err)
                \/ (\E i \in 1..Len(refs) : Contribution(refs[i], FALSE).err)
      unreadable == {cp \in srcSet \cup AllOf(rg) : ~Readable(cp)}
  IN [srcGroups |-> [i \in 1..Len(sg) |-> sg[i] \ unreadable],   \* sources exactly in argument order (a file argument is a singleton group)
      refGroups |-> [i \in 1..Len(rg) |-> rg[i] \ unreadable],   \* references grouped by argument; order inside a directory unspecified
      dups |-> (SumEntries(sources, 1, TRUE) - Cardinality(srcSet))
               + (SumEntries(refs, 1, FALSE) - Cardinality(AllOf(rgAll))),           \* one DuplicateFile per repeat within a list
      err |-> argErr \/ unreadable # {}]                         \* any I/O error => nothing is parsed

\* properties of the resolution itself
CompiledOnce(r) == \A i, j \in 1..Len(r.refGroups) : i # j => r.refGroups[i] \cap r.refGroups[j] = {}
SourceBeatsReference(r) == AllOf(r.srcGroups) \cap AllOf(r.refGroups) = {}
====================================================================================================
