SPECIFICATION Spec
CONSTANTS
  Lens = {0, 1, 2, 3, 4}
  MaxK = 3
  MaxOps = 4
  Paths = TRUE
INVARIANTS NeverOutsideBuffer Emit
PROPERTIES PeekDoesNotConsume ReadConsumesExactly
CHECK_DEADLOCK FALSE
