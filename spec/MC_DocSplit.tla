----------------------------------------- MODULE MC_DocSplit ----------------------------------------
(* C06: "removing directives and unselected lines never shifts anything: every surviving element and   *)
(* every diagnostic keeps its original line and column" - for a doc comment whose lines are separated  *)
(* by directives or by blocks that are not selected.  The comment has n lines, each with a link that   *)
(* designates nothing (one BrokenDocLink warning per line, at the link); between two lines, and        *)
(* between the last line and the documented struct, stands a gap: nothing, a #define, an #undef, a      *)
(* block that is not selected (3 lines), an empty selected block (2 lines), or a block whose #else part *)
(* is not selected (4 lines).  Rows are those of the text as written.                                   *)
EXTENDS Naturals, Sequences, TLC, Json
VARIABLES gaps, last
GapKinds == {"none", "define", "undef", "unselected", "emptyselected", "elseunselected"}
GapLen(g) == CASE g = "none" -> 0 [] g \in {"define", "undef"} -> 1 [] g = "unselected" -> 3 [] g = "emptyselected" -> 2 [] OTHER -> 4
Init == /\ \E n \in 1..2 : gaps \in [1..n -> GapKinds]      \* n gaps = n + 1 comment lines
        /\ last \in GapKinds
Next == UNCHANGED <<gaps, last>>
RECURSIVE Row(_)
\* row 1 is the module line; the first comment line stands on row 2
Row(i) == IF i = 1 THEN 2 ELSE Row(i - 1) + 1 + GapLen(gaps[i - 1])
N == Len(gaps) + 1
StructRow == Row(N) + 1 + GapLen(last)
Emit == PrintT(<<"CASE", ToJson([docsplit |-> TRUE, gaps |-> gaps, last |-> last, rows |-> [i \in 1..N |-> Row(i)], structRow |-> StructRow])>>)
====================================================================================================
