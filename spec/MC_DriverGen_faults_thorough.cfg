INIT Init
NEXT Next
CONSTANTS
  ReplyLen = 2
  Family = "faults"
  FaultBehs = {"ok1", "ok2", "okshort", "missing", "exit1", "sigkill", "stderr0", "noread", "truncmid", "badutf8", "hugestr", "empty"}
  MaxGens = 3
  TruncLen = 0
INVARIANT Emit
CHECK_DEADLOCK FALSE
