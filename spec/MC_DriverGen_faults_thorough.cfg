INIT Init
NEXT Next
CONSTANTS
  ReplyLen = 2
  Family = "faults"
  FaultBehs = {"ok1", "ok2", "missing", "exit1", "sigkill", "stderr0", "noread", "truncmid", "badutf8", "empty"}
  MaxGens = 3
  TruncLen = 0
INVARIANT Emit
CHECK_DEADLOCK FALSE
