INIT Init
NEXT Next
CONSTANTS
  Tree <- Skeleton
  SliceNames <- Names
  MaxSrc = 1
  MaxRef = 2
  SpellingSet = "some"
INVARIANT ResolveOk
CHECK_DEADLOCK FALSE
