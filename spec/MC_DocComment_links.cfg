INIT Init
NEXT Next
CONSTANTS
  Family = "links"
  MaxLines = 2
  MaxTags = 2
  Dev <- Intended
  PosSet <- AllPos
  IndentSet <- AllIndents
  KindSet <- AllKinds
INVARIANTS RefEqOp RefSane Emit
CHECK_DEADLOCK FALSE
