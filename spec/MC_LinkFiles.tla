----------------------------------------- MODULE MC_LinkFiles ---------------------------------------
(* C15 (with C16's binding rule): two or three files that all (re)open module A; file k declares one   *)
(* container Ck (struct / interface / enum) with the members `a` and `id`, and one doc comment - on    *)
(* the container or on its member `a` - with a link ({@link ..} or @see ..) spelled `id`, `Ck::id`,     *)
(* `C1::id` or `A::Ck::id`.  The search for a link target starts at the documented element, so the      *)
(* same spelling designates a different member in every file.  What each comment is bound to belongs   *)
(* to the file's compiled content: it must not depend on the order of the files or on their roles.     *)
(* Designated states the binding for the model's own record (the harness compares orders, not targets).*)
EXTENDS Naturals, Sequences, FiniteSets, TLC, Json
CONSTANT MaxFiles
VARIABLE files
FileShapes == [kind : {"struct", "interface", "enum"}, on : {"container", "member"}, spell : {"bare", "own", "first", "qualified"}, tag : {"link", "see"}]
Init == \E n \in 2..MaxFiles : files \in [1..n -> FileShapes]
Next == UNCHANGED files
\* the member the link of file k designates: searching outwards from the element, `id` is first found in the container itself
Designated(k) == CASE files[k].spell = "first" -> <<"A", "C1", "id">> [] OTHER -> <<"A", "C" \o ToString(k), "id">>
\* at least two files use the same spelling for different targets in most cases: that is the point
Ambiguous == \E i, j \in 1..Len(files) : i # j /\ files[i].spell = "bare" /\ files[j].spell = "bare"
Emit == PrintT(<<"CASE", ToJson([linkfiles |-> files, designated |-> [k \in 1..Len(files) |-> Designated(k)], ambiguous |-> Ambiguous])>>)
====================================================================================================
