INIT Init
NEXT Next
CONSTANTS
  Dev = FALSE
  CliCaseDev = FALSE
INVARIANTS RefEqOp Emit
CHECK_DEADLOCK FALSE
