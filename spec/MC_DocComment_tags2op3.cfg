INIT Init
NEXT Next
CONSTANTS
  Family = "tags"
  MaxLines = 2
  MaxTags = 2
  Dev <- Intended
  PosSet <- Op3Only
  IndentSet <- AllIndents
  KindSet <- AllKinds
INVARIANTS RefEqOp RefSane Emit
CHECK_DEADLOCK FALSE
