------------------------------------------ MODULE Attributes ----------------------------------------
(* What the argument list of an attribute MEANS (slicec/src/grammar/attributes/*.rs parse_from,      *)
(* slicec/src/parsers/slice/grammar.rs attribute actions).                                            *)
(*                                                                                                    *)
(* C02: "attributes with their unescaped arguments (including foreign-prefixed ones, verbatim)".     *)
(* An attribute is written  directive  or  directive(arg, ...) ; an argument is a bare word or a      *)
(* string literal and both spell the same argument.  The compiler keeps known directives in parsed     *)
(* form; Meaning gives that form declaratively, Parse computes it the way the parse_from functions do  *)
(* (flags start cleared and are raised while walking the list; the reason is the first argument; lint  *)
(* names and foreign arguments are kept as written).  MC_AttrArgs compares the two on every list and   *)
(* prints each list with the form the compiled AST has to show.                                        *)
EXTENDS Naturals, Sequences, FiniteSets

ToSet(s) == {s[i] : i \in 1..Len(s)}
Flagged == {"compress", "slicedFormat"}                 \* closed argument set {Args, Return}, at least one
LintNames == {"All", "Deprecated", "BrokenDocLink", "IncorrectDocComment", "MalformedDocComment", "DuplicateFile"}
\* DuplicateFile is a lint of the command line only: nothing an attribute can name
AllowArgs == LintNames \ {"DuplicateFile"}

\* ---- reference: the parsed form, as the list the projection shows (flags in the fixed order Args, Return)
Meaning(dir, args) ==
  CASE dir \in Flagged -> (IF "Args" \in ToSet(args) THEN <<"Args">> ELSE <<>>) \o (IF "Return" \in ToSet(args) THEN <<"Return">> ELSE <<>>)
    [] dir = "deprecated" -> IF args = <<>> THEN <<>> ELSE <<args[1]>>
    [] OTHER -> args                                     \* allow: the names as written; foreign: verbatim

\* ---- the rules an argument list has to satisfy, with the code of each
Codes(dir, args) ==
  CASE dir \in Flagged -> (IF args = <<>> THEN {"E028"} ELSE {}) \cup (IF ToSet(args) \subseteq {"Args", "Return"} THEN {} ELSE {"E027"})
    [] dir = "deprecated" -> IF Len(args) > 1 THEN {"E028"} ELSE {}
    [] dir = "allow" -> (IF args = <<>> THEN {"E028"} ELSE {}) \cup (IF ToSet(args) \subseteq AllowArgs THEN {} ELSE {"E027"})
    [] OTHER -> {}

\* ---- operational: one pass over the list
RECURSIVE Walk(_, _, _)
\* (sliced_args, sliced_return) = (false, false); for arg in args { match arg { "Args" => .., "Return" => .., _ => error } }
Walk(args, i, st) == IF i > Len(args) THEN st
                     ELSE Walk(args, i + 1, CASE args[i] = "Args" -> [st EXCEPT !.a = TRUE]
                                              [] args[i] = "Return" -> [st EXCEPT !.r = TRUE]
                                              [] OTHER -> [st EXCEPT !.bad = TRUE])
Parse(dir, args) ==
  CASE dir \in Flagged -> LET st == Walk(args, 1, [a |-> FALSE, r |-> FALSE, bad |-> FALSE])
                          IN  [form |-> (IF st.a THEN <<"Args">> ELSE <<>>) \o (IF st.r THEN <<"Return">> ELSE <<>>),
                               codes |-> (IF Len(args) < 1 THEN {"E028"} ELSE {}) \cup (IF st.bad THEN {"E027"} ELSE {})]
    [] dir = "deprecated" -> [form |-> SubSeq(args, 1, IF Len(args) >= 1 THEN 1 ELSE 0), codes |-> IF Len(args) >= 2 THEN {"E028"} ELSE {}]
    [] dir = "allow" -> [form |-> args, codes |-> (IF Len(args) < 1 THEN {"E028"} ELSE {})
                                                  \cup (IF \E i \in 1..Len(args) : args[i] \notin AllowArgs THEN {"E027"} ELSE {})]
    [] OTHER -> [form |-> args, codes |-> {}]

ParseIsMeaning(dir, args) == Parse(dir, args).form = Meaning(dir, args) /\ Parse(dir, args).codes = Codes(dir, args)
====================================================================================================
