-------------------------------------------- MODULE Rules -------------------------------------------
(* The language rules of C04 as a catalogue: for small abstract programs ("items") of eight          *)
(* families, Violations(fam, item) is the set of diagnostic codes that belong to the rules the item  *)
(* violates.  WellFormed == Violations = {}.  The oracle for the real compiler is the property's     *)
(* containment: accepted <=> WellFormed; if rejected, the reported error codes are a non-empty       *)
(* subset of Violations.  (validators/*.rs, grammar/attributes/*.rs, parsers/slice/grammar.rs)       *)
EXTENDS Naturals, Sequences, FiniteSets

SeqsOver(S, lo, hi) == UNION {[1..m -> S] : m \in lo..hi}
ToSet(s) == {s[i] : i \in 1..Len(s)}

----------------------------------------------------------------------------------------------------
(* F1 members: tags x optional x compact x duplicate names over <= 3 members of a container          *)
Containers == {"struct", "cstruct", "enf", "cenf", "params", "rets"}
\* "huge": a literal beyond 128 bits - out of every range; the literal itself is refused (E030 belongs to the range rules)
TagVals == {"none", "zero", "one", "i32max", "i32max1", "m1", "huge"}
\* (an empty member list is written for structs, compact structs, parameter lists and return tuples)
MemberItems(maxLen) == [c : Containers, ms : SeqsOver([tag : TagVals, opt : BOOLEAN, dup : BOOLEAN], 1, maxLen)]
                       \cup [c : {"struct", "cstruct", "params", "rets"}, ms : {<<>>}]
Tagged(m) == m.tag # "none"
VMembers(it) ==
  LET ms == it.ms  n == Len(ms) IN
  (IF \E i \in 1..n : ms[i].tag \in {"i32max1", "m1"} THEN {"E021"} ELSE {})                 \* tags within 0..2^31-1
  \cup (IF \E i \in 1..n : ms[i].tag = "huge" THEN {"E021", "E030"} ELSE {})
  \cup (IF \E i \in 1..n : Tagged(ms[i]) /\ ~ms[i].opt THEN {"E016"} ELSE {})                \* tags only on optional members
  \cup (IF \E i, j \in 1..n : i < j /\ Tagged(ms[i]) /\ ms[i].tag = ms[j].tag THEN {"E012"} ELSE {})   \* tags unique
  \cup (IF it.c \in {"cstruct", "cenf"} /\ \E i \in 1..n : Tagged(ms[i]) THEN {"E015"} ELSE {})        \* compact types untagged
  \cup (IF \E i \in 2..n : ms[i].dup THEN {"E010"} ELSE {})                                  \* names unique within their scope
  \cup (IF it.c = "rets" /\ n < 2 THEN {"E014"} ELSE {})                                     \* return tuples of at least two
  \cup (IF it.c = "cstruct" /\ n = 0 THEN {"E018"} ELSE {})                                  \* compact structs non-empty

----------------------------------------------------------------------------------------------------
(* F2 enums                                                                                          *)
Integral == {"int8", "uint8", "int16", "uint16", "int32", "uint32", "varint32", "varuint32", "int64", "uint64", "varint62", "varuint62"}
Signed == {"int8", "int16", "int32", "varint32", "int64", "varint62"}
Underlyings == {"none"} \cup Integral \cup {"bool", "float32", "float64", "string", "optuint8", "aliasuint8"}
EnumMods == {"checked", "unchecked", "compact", "compactunchecked"}
EnVals == {"implicit", "min1", "min", "max", "max1", "same", "huge", "zero", "one", "two"}   \* "same": the value of the first enumerator, written again; "huge": beyond 128 bits
EnumItems(maxLen) == [u : Underlyings, mod : EnumMods, vals : SeqsOver(EnVals \ {"zero", "one", "two"}, 0, maxLen), fields : BOOLEAN]
\* small explicit values in any order mixed with implicit ones: an implicit value is the previous one + 1, wherever that lands
EnumOrderItems == [u : {"none", "uint8", "int32"}, mod : {"checked"}, vals : SeqsOver({"implicit", "zero", "one", "two"}, 3, 4), fields : BOOLEAN]
HasRange(u) == u \in Integral \cup {"none", "optuint8", "aliasuint8"}
IsSigned(u) == u \in Signed
\* symbolic value [base, off]; for unsigned ranges (and no underlying type) "min" is "zero"
Norm(v, u) == IF v.base = "min" /\ ~IsSigned(u) THEN [base |-> "zero", off |-> v.off] ELSE v
RECURSIVE ValuesOf(_, _, _, _)
\* acc: values so far (sequence)
ValuesOf(vals, i, acc, u) ==
  IF i > Len(vals) THEN acc
  ELSE LET prev == IF acc = <<>> THEN [base |-> "zero", off |-> 0 - 1] ELSE acc[Len(acc)]
           v == CASE vals[i] = "implicit" -> [base |-> prev.base, off |-> prev.off + 1]
                  [] vals[i] = "min1" -> [base |-> "min", off |-> 0 - 1]
                  [] vals[i] = "min"  -> [base |-> "min", off |-> 0]
                  [] vals[i] = "max"  -> [base |-> "max", off |-> 0]
                  [] vals[i] = "max1" -> [base |-> "max", off |-> 1]
                  [] vals[i] = "same" -> IF acc = <<>> THEN [base |-> "zero", off |-> 0] ELSE acc[1]
                  [] vals[i] = "huge" -> [base |-> "max", off |-> 1000 + i]
                  [] vals[i] = "zero" -> [base |-> "zero", off |-> 0]
                  [] vals[i] = "one"  -> [base |-> "zero", off |-> 1]
                  [] vals[i] = "two"  -> [base |-> "zero", off |-> 2]
       IN ValuesOf(vals, i + 1, Append(acc, Norm(v, u)), u)
InRangeV(v, u) == CASE v.base = "min" -> v.off >= 0
                    [] v.base = "max" -> v.off <= 0
                    [] v.base = "zero" -> (v.off >= 0 \/ IsSigned(u))
VEnums(it) ==
  LET vs == ValuesOf(it.vals, 1, <<>>, it.u)  n == Len(vs)
      backed == it.u # "none" IN
  (IF it.u \in {"bool", "float32", "float64", "string"} THEN {"E009"} ELSE {})              \* underlying types integral
  \cup (IF it.u = "optuint8" THEN {"E007"} ELSE {})                                          \* ... and non-optional
  \cup (IF backed /\ it.fields /\ n >= 1 THEN {"E035"} ELSE {})                              \* no fields under an underlying type
  \cup (IF it.mod \in {"checked", "compact"} /\ n = 0 THEN {"E008"} ELSE {})                 \* checked enums non-empty
  \cup (IF it.mod \in {"compact", "compactunchecked"} /\ (backed \/ it.mod = "compactunchecked") THEN {"E036"} ELSE {})
  \cup (IF HasRange(it.u) /\ \E i \in 1..n : ~InRangeV(vs[i], it.u) THEN {"E020"} ELSE {})   \* values within the range
  \cup (IF \E i \in 1..Len(it.vals) : it.vals[i] = "huge" THEN {"E020", "E030"} ELSE {})       \* (also where no range exists: no value at all)
  \cup (IF \E i, j \in 1..n : i < j /\ vs[i] = vs[j] THEN {"E022"} ELSE {})                  \* values unique

----------------------------------------------------------------------------------------------------
(* F3 dictionary keys: every key form; the four codes belong to the one rule "keys of a legal type"  *)
KeyTargets == {"cs_ok", "cs_bad", "cs_nested_bad", "cs_nested_ok", "cs_optfield", "cs_seqfield", "cs_enumfield", "s", "e_u", "e_n", "custom", "alias_int", "alias_seq", "alias_s", "alias_cs"}
KeyForms == [f : {"prim"}, n : {"bool", "int8", "uint8", "int16", "uint16", "int32", "uint32", "varint32", "varuint32", "int64", "uint64",
                                "varint62", "varuint62", "float32", "float64", "string"}, opt : BOOLEAN]
            \cup [f : {"named"}, n : KeyTargets, opt : BOOLEAN]
            \cup [f : {"seq", "dict", "res"}, n : {"-"}, opt : BOOLEAN]
KeyLegalForm(k) ==
  /\ ~k.opt
  /\ \/ k.f = "prim" /\ k.n \notin {"float32", "float64"}
     \/ k.f = "named" /\ k.n \in {"cs_ok", "cs_nested_ok", "cs_enumfield", "e_u", "custom", "alias_int", "alias_cs"}
\* where the key sits: directly in a field, nested as the value of another dictionary, inside a sequence, in a parameter
KeyItems == [key : KeyForms, at : {"field", "nested", "elem", "param", "alias", "enfield", "retmember"}]
VKeys(it) == IF KeyLegalForm(it.key) THEN {} ELSE {"E003", "E004", "E005", "E006"}

----------------------------------------------------------------------------------------------------
(* F4 stream placement and return arity                                                              *)
StreamItems == [params : SeqsOver(BOOLEAN, 0, 3), ret : {"none", "single", "singlestream", "tuple"}, flags : SeqsOver(BOOLEAN, 2, 3)]
BadStream(flags) == \E i \in 1..Len(flags) : flags[i] /\ i < Len(flags)
VStream(it) == IF BadStream(it.params) \/ (it.ret = "tuple" /\ BadStream(it.flags)) THEN {"E013", "E029"} ELSE {}

----------------------------------------------------------------------------------------------------
(* F5 duplicate names in every kind of scope; redeclaration of an inherited operation; F6 / F7 single rules *)
NameScopes == {"fields", "params", "rets", "enumerators", "enfields", "ops", "defs", "defs2files", "defs_diffmod",
               "inherited", "inherited_chain", "inherited_diamond", "param_vs_ret", "aliasopt", "nomodule", "defbeforemodule", "clean"}
NameItems == [scope : NameScopes, dup : BOOLEAN]
VNames(it) ==
  IF ~it.dup THEN {}
  ELSE CASE it.scope \in {"fields", "params", "rets", "enumerators", "enfields", "ops", "defs", "defs2files"} -> {"E010"}
         [] it.scope \in {"inherited", "inherited_chain", "inherited_diamond"} -> {"E011"}
         [] it.scope = "aliasopt" -> {"E034"}                                    \* no alias of an optional type
         [] it.scope \in {"nomodule", "defbeforemodule"} -> {"E002"}             \* a module declaration before definitions
         [] OTHER -> {}                                                          \* same name in different modules / as parameter and return member: legal

----------------------------------------------------------------------------------------------------
(* F8 attributes: where legal, well-formed, not repeated                                             *)
AttrNames == {"allow", "deprecated", "compress", "slicedFormat", "oneway", "unknown", "foreign"}
\* operations in every return shape: nothing (also with a streamed parameter), one value, one streamed value, a tuple, a
\* tuple ending in a stream
OpTargets == {"operation", "operation_streamparam", "operation_ret", "operation_retstream", "operation_rettuple", "operation_rettuplestream"}
\* "fileonly": a file attribute in a file that holds nothing else (no module declaration, no definitions)
Targets == {"file", "fileonly", "module", "struct", "field", "interface", "parameter", "retmember", "enum", "enumerator",
            "custom", "alias", "typeref", "base", "underlying", "enfield", "cstruct", "cenum",
            "typeref_enfield", "typeref_param", "typeref_ret", "typeref_elem"} \cup OpTargets
\* "dupfile": the argument DuplicateFile - a lint of the command line only, no valid argument of the allow attribute
ArgShapes == {"none", "valid1", "valid2", "invalid", "casewrong", "empty_parens", "dupfile"}
AttrItems == [a : AttrNames, on : Targets, args : ArgShapes, twice : BOOLEAN]
IsTypeRefTarget(t) == t \in {"typeref", "base", "underlying", "typeref_enfield", "typeref_param", "typeref_ret", "typeref_elem"}
LegalOn(a, t) ==
  CASE a = "allow" -> ~(t = "module" \/ IsTypeRefTarget(t))
    [] a = "deprecated" -> t \notin {"file", "fileonly", "module", "parameter", "retmember"} /\ ~IsTypeRefTarget(t)
    [] a \in {"compress", "slicedFormat"} -> t \in OpTargets
    [] a = "oneway" -> t \in {"operation", "operation_streamparam"}              \* only operations that return nothing (a streamed return is a return)
    [] OTHER -> TRUE
NArgs(s) == CASE s \in {"none", "empty_parens"} -> 0 [] s = "valid2" -> 2 [] OTHER -> 1
CountOk(a, s) == CASE a = "allow" -> NArgs(s) >= 1
                   [] a = "deprecated" -> NArgs(s) <= 1
                   [] a \in {"compress", "slicedFormat"} -> NArgs(s) >= 1
                   [] a = "oneway" -> NArgs(s) = 0
                   [] OTHER -> TRUE
\* deprecated takes any text; the others have closed argument sets
ArgsOk(a, s) == a \in {"deprecated", "unknown", "foreign"} \/ s \notin {"invalid", "casewrong", "dupfile"}
Repeatable(a) == a \in {"allow", "unknown", "foreign"}
VAttrs(it) ==
  IF it.a = "foreign" THEN {}                                                      \* foreign-prefixed directives are kept verbatim
  ELSE IF it.a = "unknown" THEN {"E024"}                                           \* unknown unprefixed directive
  ELSE (IF ~LegalOn(it.a, it.on) THEN {"E023"} ELSE {})
       \cup (IF ~CountOk(it.a, it.args) THEN {"E028"} ELSE {})
       \cup (IF ~ArgsOk(it.a, it.args) THEN {"E027"} ELSE {})
       \cup (IF it.twice /\ ~Repeatable(it.a) THEN {"E026"} ELSE {})

----------------------------------------------------------------------------------------------------
(* F9 attribute lists: up to three attributes in front of one operation (every one of them legal there); an attribute  *)
(* that is not repeatable must not occur twice - wherever in the list, whatever stands between the two                 *)
ListNames == {"allow", "deprecated", "compress", "foreign", "slicedFormat"}
AttrListItems(maxLen) == [as : SeqsOver(ListNames, 1, maxLen)]
VAttrLists(it) == IF \E i, j \in 1..Len(it.as) : i < j /\ it.as[i] = it.as[j] /\ ~Repeatable(it.as[i]) THEN {"E026"} ELSE {}

----------------------------------------------------------------------------------------------------
Violations(fam, it) == CASE fam = "members" -> VMembers(it) [] fam = "enums" -> VEnums(it) [] fam = "keys" -> VKeys(it)
                         [] fam = "stream" -> VStream(it) [] fam = "names" -> VNames(it) [] fam = "attrs" -> VAttrs(it)
                         [] fam = "attrlists" -> VAttrLists(it) [] fam = "enumorder" -> VEnums(it)
WellFormed(fam, it) == Violations(fam, it) = {}
====================================================================================================
