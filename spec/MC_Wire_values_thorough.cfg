INIT InitValues
NEXT Next
CONSTANTS
  D = 64
  Full16 = TRUE
  StrLen = 3
  FullLen = 0
  RepLen = 0
  Big = {}
INVARIANTS RoundTripHolds ShortestWidth OnlyVarRefused EmitValue
CHECK_DEADLOCK FALSE
