INIT Init
NEXT Next
CONSTANTS
  Tree <- Skeleton
  SliceNames <- Names
  MaxSrc = 3
  MaxRef = 2
  SpellingSet = "dup"
INVARIANT ResolveOk
CHECK_DEADLOCK FALSE
