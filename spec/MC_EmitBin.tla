----------------------------------------- MODULE MC_EmitBin -----------------------------------------
(* Runs of the slicec binary for C14: template program x format x --disable-color x -A list x a      *)
(* generator that cannot be started (its error is recorded after compilation and must be written and  *)
(* counted like every other diagnostic); or a generator that works and reports a diagnostic of its   *)
(* own in its reply ("okwarn": whatever the compiler does with it, the diagnostic stream stays what   *)
(* the emitter writes).  driver: the slicec binary, or the library's own way of     *)
(* finishing a compilation (CompilationState::emit_diagnostics, what other front ends built on the     *)
(* library call) run in a child process - same stream, same totals, its result in place of the exit    *)
(* status.                                                                                             *)
EXTENDS Naturals, TLC, Json
VARIABLE run
Allows == {<<>>, <<"All">>, <<"Deprecated">>, <<"BrokenDocLink", "IncorrectDocComment">>}
Init == /\ run \in [prog : 1..9, format : {"human", "json"}, disable_color : BOOLEAN, allow : Allows, gen : {"none", "missing", "okwarn"},
                     driver : {"binary", "library"}]
        /\ (run.driver = "library" => run.gen = "none")      \* generators belong to the binary
Next == UNCHANGED run
\* what the program must yield at least, whatever the library says: program 9 is two files that each lack their module
\* declaration - one error (without a location) per file
MinErrors == IF run.prog = 9 THEN 2 ELSE 0
Emit == PrintT(<<"CASE", ToJson([run EXCEPT !.gen = run.gen] @@ [min_errors |-> MinErrors])>>)
====================================================================================================
