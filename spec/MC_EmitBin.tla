----------------------------------------- MODULE MC_EmitBin -----------------------------------------
(* Runs of the slicec binary for C14: template program x format x --disable-color x -A list x a      *)
(* generator that cannot be started (its error is recorded after compilation and must be written and  *)
(* counted like every other diagnostic).                                                              *)
EXTENDS Naturals, TLC, Json
VARIABLE run
Allows == {<<>>, <<"All">>, <<"Deprecated">>, <<"BrokenDocLink", "IncorrectDocComment">>}
Init == run \in [prog : 1..6, format : {"human", "json"}, disable_color : BOOLEAN, allow : Allows, gen : {"none", "missing"}]
Next == UNCHANGED run
Emit == PrintT(<<"CASE", ToJson(run)>>)
====================================================================================================
