INIT InitAll
NEXT Next
CONSTANTS
  COMMA = ","
  EQ = "="
  BSL = "b"
  WS = {"s", "u"}
  Chars = {"a", "s", ",", "=", "b"}
  MaxLen = 8
  CompLen = 2
  PathLen = 2
  Emitting = TRUE
INVARIANTS TypeOK MachineMeetsWant RefMeetsWant RunIsSteps RejectsExactly Emit
CHECK_DEADLOCK FALSE
