INIT Init
NEXT Next
CONSTANTS
  MaxSupp = 2
INVARIANTS RefEqOp NonInterference NoLeak Emit
CHECK_DEADLOCK FALSE
