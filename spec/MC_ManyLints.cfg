INIT Init
NEXT Next
CONSTANTS
  MaxSupp = 2
INVARIANTS RefEqOp NonInterference Emit
CHECK_DEADLOCK FALSE
