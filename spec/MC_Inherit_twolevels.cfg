SPECIFICATION Spec
CONSTANTS
  N = 4
  OpNames = {"x"}
  Layouts = {"fwd"}
INVARIANTS TwoLevelsSuffice
CHECK_DEADLOCK FALSE
