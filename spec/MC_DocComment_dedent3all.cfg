INIT Init
NEXT Next
CONSTANTS
  Family = "dedent"
  MaxLines = 3
  MaxTags = 2
  Dev <- Intended
  PosSet <- AllPos
  IndentSet <- AllIndents
  KindSet <- AllKinds
INVARIANTS RefEqOp RefSane Emit
CHECK_DEADLOCK FALSE
