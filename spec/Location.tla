------------------------------------------- MODULE Location -----------------------------------------
(* Source locations and the human-readable snippet (slicec/src/slice_file.rs get_snippet /           *)
(* get_highlight, the cursors of the three lexers; C09).                                            *)
(* A line is a sequence of character classes: "a" (ASCII), "sp", "tab", "mb2" / "mb3" (a character  *)
(* of 2 / 3 UTF-8 bytes).  Columns count characters from 1; a span is [s, e] with s <= e, columns   *)
(* in 1..Len(line)+1.                                                                               *)
(* Reference  : the underline starts below the first spanned character and is as wide as the        *)
(*              spanned characters are displayed (a tab is shown as four blanks).                   *)
(* Operational: get_highlight's arithmetic (pad counted over the characters before the start,       *)
(*              length = characters + 3 per tab, caret one column to the left for an empty span).   *)
EXTENDS Naturals, Sequences, FiniteSets, TLC

DW(c) == IF c = "tab" THEN 4 ELSE 1
RECURSIVE SumDW(_, _, _)
SumDW(line, a, b) == IF a > b THEN 0 ELSE DW(line[a]) + SumDW(line, a + 1, b)      \* display width of line[a..b]

\* cursor advance of the lexers: a line break starts a new row, anything else (tabs, multi-byte) is one column
Advance(cur, c) == IF c = "nl" THEN [row |-> cur.row + 1, col |-> 1] ELSE [row |-> cur.row, col |-> cur.col + 1]

\* highlighted character range [hs, he) (0-based offsets) of line number n for the span s..e
HStart(n, s) == IF n = s.row THEN s.col - 1 ELSE 0
HEnd(n, e, line) == IF n = e.row THEN e.col - 1 ELSE Len(line)

\* ---- reference
RefUnderline(line, hs, he) ==
  IF hs = he THEN [pad |-> SumDW(line, 1, hs), len |-> 0]                          \* a caret between two characters
  ELSE [pad |-> 1 + SumDW(line, 1, hs), len |-> SumDW(line, hs + 1, he)]

\* ---- operational (get_highlight)
Tabs(line, a, b) == Cardinality({i \in a..b : line[i] = "tab"})
OpUnderline(line, hs, he) ==
  LET ws == 1 + SumDW(line, 1, hs) IN
  IF hs = he THEN [pad |-> ws - 1, len |-> 0]
  ELSE [pad |-> ws, len |-> (he - hs) + 3 * Tabs(line, hs + 1, he)]

Digits(n) == IF n < 10 THEN 1 ELSE IF n < 100 THEN 2 ELSE IF n < 1000 THEN 3 ELSE 4
\* what the snippet of span s..e over `lines` (first line has number base) must show
Snippet(lines, base, s, e) ==
  [gutter |-> Digits(e.row) + 1,                                                    \* digits of the last row + 1
   rows |-> [k \in 1..(e.row - s.row + 1) |->
               LET n == s.row + k - 1  line == lines[n - base + 1] IN
               [n |-> n] @@ RefUnderline(line, HStart(n, s), HEnd(n, e, line))]]
====================================================================================================
