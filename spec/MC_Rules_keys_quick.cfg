INIT Init
NEXT Next
CONSTANTS
  Family = "keys"
  MaxLen = 3
INVARIANT Emit
CHECK_DEADLOCK FALSE
