------------------------------------------ MODULE MC_Files ------------------------------------------
(* C17: every (sources, references) argument vector over a fixed rich skeleton; the reference       *)
(* resolution is evaluated, its own invariants checked, and the case printed for execution through  *)
(* compile_from_options in a materialised tree.                                                     *)
EXTENDS Files, TLC, Json

CONSTANTS MaxSrc, MaxRef, SpellingSet

F(p, c) == [p |-> p, k |-> "file", t |-> <<>>, c |-> c]
D(p)    == [p |-> p, k |-> "dir", t |-> <<>>, c |-> "text"]
L(p, t) == [p |-> p, k |-> "link", t |-> t, c |-> "text"]

Skeleton == {
  F(<<"a.slice">>, "slice"), F(<<"b.slice">>, "slice"), F(<<"c.txt">>, "text"), F(<<"noext">>, "slice"), F(<<"bad.slice">>, "bad"),
  D(<<"d">>), F(<<"d", "x.slice">>, "slice"), F(<<"d", "y.slice">>, "slice"), F(<<"d", "readme.md">>, "text"),
  D(<<"d", "sub">>), F(<<"d", "sub", "z.slice">>, "slice"), F(<<"d", "sub", "noext">>, "slice"),
  L(<<"d", "lb.slice">>, <<"..", "b.slice">>), L(<<"d", "sub", "up">>, <<"..", "..", "e">>),
  D(<<"e">>),
  \* the extension is ".slice" as written: other letter cases are other extensions (skipped below a directory, an error as a source)
  \* directories whose name starts with a dot are directories like any other
  D(<<"d", ".hid">>), F(<<"d", ".hid", "h.slice">>, "slice"), D(<<".top">>), F(<<".top", "t.slice">>, "slice"), F(<<"g", ".dotfile.slice">>, "slice"),
  \* a comma is a character like any other in a path
  D(<<"r,s">>), F(<<"r,s", "q.slice">>, "slice"), F(<<"k,l.slice">>, "slice"),
  F(<<"UP.SLICE">>, "slice"), F(<<"d", "Mixed.Slice">>, "slice"), F(<<"d", "sub", "v.SLICE">>, "slice"), F(<<"g", "w.sLICE">>, "slice"),
  D(<<"g">>), F(<<"g", "w.slice">>, "slice"), F(<<"g", "bad2.slice">>, "bad"),
  \* a link below a reference directory to a directory that is also reachable otherwise: its files are the same files
  L(<<"g", "lsub">>, <<"..", "d", "sub">>),
  \* directories whose own name ends in ".slice": still directories (an error as a source, walked as a reference)
  D(<<"pkg.slice">>), F(<<"pkg.slice", "in.slice">>, "slice"), D(<<"d", "sub", "deep.slice">>), F(<<"d", "sub", "deep.slice", "v.slice">>, "slice"),
  L(<<"la.slice">>, <<"a.slice">>), L(<<"ld">>, <<"d">>), L(<<"dangling.slice">>, <<"nothing.slice">>), L(<<"lnk">>, <<"a.slice">>)
}
Names == {"a.slice", "b.slice", "bad.slice", "x.slice", "y.slice", "z.slice", "lb.slice", "w.slice", "bad2.slice", "la.slice",
          "dangling.slice", "missing.slice", "nothing.slice", "pkg.slice", "in.slice", "deep.slice", "v.slice", "q.slice", "k,l.slice", "h.slice", "t.slice", ".dotfile.slice"}

AllSpellings == {
  <<"a.slice">>, <<".", "a.slice">>, <<"d", "..", "a.slice">>, <<"ROOT", "a.slice">>, <<"la.slice">>, <<"b.slice">>, <<"d", "lb.slice">>,
  <<"c.txt">>, <<"noext">>, <<"lnk">>, <<"d">>, <<"ld">>, <<"d", "sub">>, <<"e">>, <<"dangling.slice">>, <<"missing.slice">>, <<"bad.slice">>,
  <<"d", "x.slice">>, <<"ld", "x.slice">>, <<"g">>, <<"d", "sub", "..", "y.slice">>, <<"ROOT", "d">>, <<"d", "sub", "up">>,
  <<"pkg.slice">>, <<"pkg.slice", "in.slice">>, <<"UP.SLICE">>, <<"d", "Mixed.Slice">>, <<"r,s">>, <<"k,l.slice">>, <<".top">>, <<"d", ".hid">>
}
\* a covering subset for the quick tier: every kind of argument, several spellings of one file
SomeSpellings == {
  <<"a.slice">>, <<"d", "..", "a.slice">>, <<"la.slice">>, <<"b.slice">>, <<"c.txt">>, <<"lnk">>, <<"d">>, <<"ld">>, <<"d", "sub">>, <<"e">>,
  <<"dangling.slice">>, <<"missing.slice">>, <<"bad.slice">>, <<"ld", "x.slice">>, <<"g">>, <<"ROOT", "a.slice">>, <<"pkg.slice">>, <<"UP.SLICE">>, <<"r,s">>, <<".top">>
}
\* few spellings, longer lists: a file named twice with another argument in between, in either list
DupSpellings == { <<"a.slice">>, <<"d", "..", "a.slice">>, <<"b.slice">>, <<"d">> }
Spellings == CASE SpellingSet = "all" -> AllSpellings [] SpellingSet = "dup" -> DupSpellings [] OTHER -> SomeSpellings

VARIABLES sources, refs
SeqsOver(S, n) == UNION {[1..m -> S] : m \in 0..n}
\* the argument vector grows one argument at a time (sources first), so every vector is one state
Init == sources = <<>> /\ refs = <<>>
AddSource == refs = <<>> /\ Len(sources) < MaxSrc /\ \E s \in Spellings : sources' = Append(sources, s) /\ UNCHANGED refs
AddRef    == Len(refs) < MaxRef /\ \E s \in Spellings : refs' = Append(refs, s) /\ UNCHANGED sources
Next == AddSource \/ AddRef

\* the resolution's own invariants, then the case for replay
Checked(r) == /\ CompiledOnce(r)
              /\ SourceBeatsReference(r)
              /\ \A i \in 1..Len(sources) : Cardinality(r.srcGroups[i]) <= 1      \* a source argument contributes itself, in order
              /\ r.dups >= 0
ResolveOk == LET r == Resolve(sources, refs) IN
             Checked(r) /\ PrintT(<<"CASE", ToJson([sources |-> sources, refs |-> refs, expect |-> r])>>)

TreeList == LET S == Tree
                RECURSIVE ToSeq(_)
                ToSeq(X) == IF X = {} THEN <<>> ELSE LET e == CHOOSE x \in X : TRUE IN <<e>> \o ToSeq(X \ {e})
            IN ToSeq(S)
EmitTree == PrintT(<<"TREE", ToJson(TreeList)>>)
====================================================================================================
