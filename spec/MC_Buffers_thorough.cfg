SPECIFICATION Spec
CONSTANTS
  Kinds = {"slice", "vec"}
  Caps = {0, 1, 2, 3, 4}
  MaxK = 3
  MaxOps = 5
  MaxResv = 3
  Paths = TRUE
INVARIANTS ReservationsInsideLog ReservationsDisjoint NeverPastCap ReservedUntouched Emit
CHECK_DEADLOCK FALSE
