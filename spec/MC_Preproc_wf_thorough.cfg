INIT Init
NEXT Next
CONSTANTS
  MaxLen = 8
  MaxDepth = 3
  Syms = {"A"}
  SrcKinds = {"src"}
  BlankKinds = {}
  IfExprs <- IfExprsA
  ElifExprs <- ElifExprsA
  BadVariants = {}
  WellFormedOnly = TRUE
  MaxToks = 0
  ExprToks <- NoExprs
INVARIANTS RefEqOp Incremental IllFormedIsError StackDepthBound Emit
PROPERTY DefinesOnlyWhenActive
CHECK_DEADLOCK FALSE
