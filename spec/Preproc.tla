------------------------------------------ MODULE Preproc ------------------------------------------
(* Conditional compilation (slicec/src/parsers/preprocessor/*, C06).                                *)
(*                                                                                                  *)
(* A file is a sequence of lines.  Line forms:                                                      *)
(*   [k |-> "src"]  [k |-> "srcw"]   a source line holding one probe definition (srcw: one whose    *)
(*                                   member type is deprecated, so that a warning with a known      *)
(*                                   position exists on that line)                                  *)
(*   [k |-> "blank"] [k |-> "comment"]   source lines without a definition                          *)
(*   [k |-> "define", s |-> sym] [k |-> "undef", s |-> sym]                                         *)
(*   [k |-> "if", e |-> toks] [k |-> "elif", e |-> toks] [k |-> "else"] [k |-> "endif"]             *)
(*   [k |-> "bad", v |-> n]          a malformed directive (catalogue index n)                      *)
(* Expressions are token sequences over symbols, "!", "&&", "||", "(", ")".                         *)
(*                                                                                                  *)
(* Reference layer  : the property read line by line - a stack machine (RefStep), with expressions  *)
(*                    evaluated by a direct left-to-right fold (RefEval).                           *)
(* Operational layer: what the code does - group lines into tokens (lexer modes Unknown /           *)
(*                    SourceBlock / Directive), parse the tree Conditional = if (elif)* (else)?     *)
(*                    endif with expressions parsed by the LALRPOP grammar (ParseExpr), then        *)
(*                    process_nodes.                                                                *)
EXTENDS Naturals, Sequences, FiniteSets

Ops == {"&&", "||"}
IsSym(t) == t \notin {"!", "&&", "||", "(", ")"}

----------------------------------------------------------------------------------------------------
(* Expressions, operational: Expr ::= Term | "!" Term | Expr "&&" Term | Expr "||" Term             *)
(*                           Term ::= sym | "(" Expr ")"                                            *)
(* equal precedence, left associative, "!" only at the head of an expression                        *)

PErr == [ok |-> FALSE]
RECURSIVE PExpr(_, _), PTerm(_, _), PRest(_, _, _)
\* each returns [ok, t (tree), i (next token index)]
PTerm(ts, i) ==
  IF i > Len(ts) THEN PErr
  ELSE IF IsSym(ts[i]) THEN [ok |-> TRUE, t |-> [k |-> "sym", s |-> ts[i]], i |-> i + 1]
  ELSE IF ts[i] = "(" THEN
       LET e == PExpr(ts, i + 1) IN
       IF e.ok /\ e.i <= Len(ts) /\ ts[e.i] = ")" THEN [ok |-> TRUE, t |-> [k |-> "paren", e |-> e.t], i |-> e.i + 1] ELSE PErr
  ELSE PErr
PRest(ts, i, left) ==
  IF i <= Len(ts) /\ ts[i] \in Ops THEN
     LET t == PTerm(ts, i + 1) IN
     IF t.ok THEN PRest(ts, t.i, [k |-> (IF ts[i] = "&&" THEN "and" ELSE "or"), a |-> left, b |-> t.t]) ELSE PErr
  ELSE [ok |-> TRUE, t |-> left, i |-> i]
PExpr(ts, i) ==
  IF i <= Len(ts) /\ ts[i] = "!" THEN
     LET t == PTerm(ts, i + 1) IN IF t.ok THEN PRest(ts, t.i, [k |-> "not", a |-> t.t]) ELSE PErr
  ELSE LET t == PTerm(ts, i) IN IF t.ok THEN PRest(ts, t.i, t.t) ELSE PErr

ParseExpr(ts) == LET e == PExpr(ts, 1) IN IF e.ok /\ e.i = Len(ts) + 1 THEN e ELSE PErr

RECURSIVE EvalTree(_, _)
EvalTree(t, D) == CASE t.k = "sym"   -> t.s \in D
                    [] t.k = "paren" -> EvalTree(t.e, D)
                    [] t.k = "not"   -> ~EvalTree(t.a, D)
                    [] t.k = "and"   -> EvalTree(t.a, D) /\ EvalTree(t.b, D)
                    [] t.k = "or"    -> EvalTree(t.a, D) \/ EvalTree(t.b, D)

----------------------------------------------------------------------------------------------------
(* Expressions, reference: a left-to-right fold with an explicit stack of open parentheses.          *)
(* frame = [has (a value was produced), v (value so far), op (pending operator or ""), neg (a       *)
(* leading "!" waits for the first term), first (no term seen yet in this frame)]                   *)

NewFrame == [has |-> FALSE, v |-> FALSE, op |-> "", neg |-> FALSE, first |-> TRUE]
\* feed a term value x into a frame that can take a term
Feed(f, x) ==
  IF f.first THEN [f EXCEPT !.has = TRUE, !.v = (IF f.neg THEN ~x ELSE x), !.first = FALSE, !.neg = FALSE]
  ELSE IF f.op = "&&" THEN [f EXCEPT !.v = f.v /\ x, !.op = ""]
  ELSE [f EXCEPT !.v = f.v \/ x, !.op = ""]
CanTakeTerm(f) == f.first \/ f.op # ""

RECURSIVE RefFold(_, _, _, _)
Bad == [ok |-> FALSE]
\* st: stack of frames (innermost last); returns Bad or [ok |-> TRUE, v |-> value]
RefFold(ts, i, st, D) ==
  LET top == st[Len(st)]  rest == SubSeq(st, 1, Len(st) - 1) IN
  IF i > Len(ts) THEN (IF Len(st) = 1 /\ top.has /\ top.op = "" THEN [ok |-> TRUE, v |-> top.v] ELSE Bad)
  ELSE LET t == ts[i] IN
    IF IsSym(t) THEN (IF CanTakeTerm(top) THEN RefFold(ts, i + 1, Append(rest, Feed(top, t \in D)), D) ELSE Bad)
    ELSE IF t = "!" THEN (IF top.first /\ ~top.neg THEN RefFold(ts, i + 1, Append(rest, [top EXCEPT !.neg = TRUE]), D) ELSE Bad)
    ELSE IF t \in Ops THEN (IF top.has /\ top.op = "" THEN RefFold(ts, i + 1, Append(rest, [top EXCEPT !.op = t]), D) ELSE Bad)
    ELSE IF t = "(" THEN (IF CanTakeTerm(top) THEN RefFold(ts, i + 1, Append(st, NewFrame), D) ELSE Bad)
    ELSE \* ")"
         IF Len(st) > 1 /\ top.has /\ top.op = ""
         THEN LET outer == rest[Len(rest)] IN RefFold(ts, i + 1, Append(SubSeq(rest, 1, Len(rest) - 1), Feed(outer, top.v)), D)
         ELSE Bad

RefWellFormed(ts) == RefFold(ts, 1, <<NewFrame>>, {}).ok
RefEval(ts, D) == RefFold(ts, 1, <<NewFrame>>, D).v

----------------------------------------------------------------------------------------------------
(* Lines: which are ill-formed on their own                                                         *)

IsSource(l) == l.k \in {"src", "srcw", "blank", "comment"}
IsProbe(l)  == l.k \in {"src", "srcw"}
LineBad(l)  == l.k = "bad" \/ (l.k \in {"if", "elif"} /\ ~RefWellFormed(l.e))

----------------------------------------------------------------------------------------------------
(* Reference: line-by-line stack machine.                                                           *)
(* state r = [st (stack of [pa, taken, active, sawElse]), def, sel, err]                            *)

R0(cli) == [st |-> <<>>, def |-> cli, sel |-> {}, err |-> FALSE]
CurActive(st) == IF st = <<>> THEN TRUE ELSE st[Len(st)].active

\* the reference's reaction to line l, which is line number n
RefStep(r, l, n) ==
  LET st == r.st  top == st[Len(st)]  pop == SubSeq(st, 1, Len(st) - 1) IN
  IF r.err THEN r
  ELSE IF LineBad(l) THEN [r EXCEPT !.err = TRUE]
  ELSE CASE IsSource(l)   -> IF IsProbe(l) /\ CurActive(st) THEN [r EXCEPT !.sel = @ \cup {n}] ELSE r
         [] l.k = "define" -> IF CurActive(st) THEN [r EXCEPT !.def = @ \cup {l.s}] ELSE r
         [] l.k = "undef"  -> IF CurActive(st) THEN [r EXCEPT !.def = @ \ {l.s}] ELSE r
         [] l.k = "if"     -> LET pa == CurActive(st)  v == pa /\ RefEval(l.e, r.def) IN
                              [r EXCEPT !.st = Append(st, [pa |-> pa, taken |-> v, active |-> v, sawElse |-> FALSE])]
         [] l.k = "elif"   -> IF st = <<>> \/ top.sawElse THEN [r EXCEPT !.err = TRUE]
                              ELSE LET v == top.pa /\ ~top.taken /\ RefEval(l.e, r.def) IN
                                   [r EXCEPT !.st = Append(pop, [top EXCEPT !.active = v, !.taken = top.taken \/ v])]
         [] l.k = "else"   -> IF st = <<>> \/ top.sawElse THEN [r EXCEPT !.err = TRUE]
                              ELSE [r EXCEPT !.st = Append(pop, [top EXCEPT !.active = top.pa /\ ~top.taken,
                                                                            !.taken = TRUE, !.sawElse = TRUE])]
         [] l.k = "endif"  -> IF st = <<>> THEN [r EXCEPT !.err = TRUE] ELSE [r EXCEPT !.st = pop]

\* outcome if the file ends here: unbalanced or malformed => error, nothing promised about what survives
RefOutcome(r) == IF r.err \/ r.st # <<>> THEN [err |-> TRUE, sel |-> {}] ELSE [err |-> FALSE, sel |-> r.sel]

----------------------------------------------------------------------------------------------------
(* Operational: lexer (lines -> tokens), tree parse, process_nodes                                  *)

\* Lexer modes.  In mode Unknown a blank line is skipped, any other source line opens a source block (whose start is
\* that line); in mode SourceBlock every source line extends the block; a directive line closes it.
RECURSIVE Lex(_, _, _, _)
\* mode: "Unknown" | "SourceBlock"; cur: first line of the open block; returns tokens
Lex(ls, i, mode, cur) ==
  IF i > Len(ls) THEN (IF mode = "SourceBlock" THEN <<[k |-> "block", from |-> cur, to |-> Len(ls)]>> ELSE <<>>)
  ELSE LET l == ls[i] IN
    IF IsSource(l) THEN
       IF mode = "Unknown" /\ l.k = "blank" THEN Lex(ls, i + 1, "Unknown", 0)
       ELSE IF mode = "Unknown" THEN Lex(ls, i + 1, "SourceBlock", i)
       ELSE Lex(ls, i + 1, "SourceBlock", cur)
    ELSE (IF mode = "SourceBlock" THEN <<[k |-> "block", from |-> cur, to |-> i - 1]>> ELSE <<>>)
         \o <<[k |-> "dir", line |-> i, l |-> l]>> \o Lex(ls, i + 1, "Unknown", 0)

Tokens(ls) == Lex(ls, 1, "Unknown", 0)

RECURSIVE ParseBlock(_, _, _), ParseElifs(_, _, _)
IsDir(tk, kind) == tk.k = "dir" /\ tk.l.k = kind
\* a directive whose own syntax is broken makes the parse fail (error recovery still reports an error)
DirBad(tk) == tk.k = "dir" /\ (tk.l.k = "bad" \/ (tk.l.k \in {"if", "elif"} /\ ~ParseExpr(tk.l.e).ok))
ParseCond(ts, i) ==       \* ts[i] is an "if" directive
  LET b1 == ParseBlock(ts, i + 1, <<>>) IN
  IF b1.err THEN b1 ELSE
  LET eb == ParseElifs(ts, b1.i, <<>>) IN
  IF eb.err THEN eb ELSE
  LET hasElse == eb.i <= Len(ts) /\ IsDir(ts[eb.i], "else")
      b3 == IF hasElse THEN ParseBlock(ts, eb.i + 1, <<>>) ELSE [err |-> FALSE, nodes |-> <<>>, i |-> eb.i] IN
  IF b3.err THEN b3 ELSE
  IF b3.i <= Len(ts) /\ IsDir(ts[b3.i], "endif")
  THEN [err |-> FALSE, i |-> b3.i + 1,
        node |-> [k |-> "cond", ifs |-> <<[e |-> ParseExpr(ts[i].l.e).t, body |-> b1.nodes]>> \o eb.nodes,
                  hasElse |-> hasElse, els |-> b3.nodes]]
  ELSE [err |-> TRUE]
ParseElifs(ts, i, acc) ==
  IF i <= Len(ts) /\ IsDir(ts[i], "elif") /\ ~DirBad(ts[i])
  THEN LET b == ParseBlock(ts, i + 1, <<>>) IN
       IF b.err THEN b ELSE ParseElifs(ts, b.i, Append(acc, [e |-> ParseExpr(ts[i].l.e).t, body |-> b.nodes]))
  ELSE [err |-> FALSE, nodes |-> acc, i |-> i]
ParseBlock(ts, i, acc) ==
  IF i > Len(ts) THEN [err |-> FALSE, nodes |-> acc, i |-> i]
  ELSE LET tk == ts[i] IN
    IF tk.k = "block" THEN ParseBlock(ts, i + 1, Append(acc, tk))
    ELSE IF DirBad(tk) THEN [err |-> TRUE]
    ELSE IF tk.l.k \in {"define", "undef"} THEN ParseBlock(ts, i + 1, Append(acc, tk))
    ELSE IF tk.l.k = "if" THEN LET c == ParseCond(ts, i) IN
                               IF c.err THEN [err |-> TRUE] ELSE ParseBlock(ts, c.i, Append(acc, c.node))
    ELSE [err |-> FALSE, nodes |-> acc, i |-> i]            \* elif / else / endif end the block

RECURSIVE Process(_, _, _, _), Pick(_, _, _)
Pick(c, j, D) == IF j > Len(c.ifs) THEN (IF c.hasElse THEN c.els ELSE <<>>)
                 ELSE IF EvalTree(c.ifs[j].e, D) THEN c.ifs[j].body ELSE Pick(c, j + 1, D)
\* blocks: the surviving source blocks, in order
Process(nodes, j, D, blocks) ==
  IF j > Len(nodes) THEN [def |-> D, blocks |-> blocks]
  ELSE LET nd == nodes[j] IN
    CASE nd.k = "block" -> Process(nodes, j + 1, D, Append(blocks, nd))
      [] nd.k = "dir" /\ nd.l.k = "define" -> Process(nodes, j + 1, D \cup {nd.l.s}, blocks)
      [] nd.k = "dir" /\ nd.l.k = "undef"  -> Process(nodes, j + 1, D \ {nd.l.s}, blocks)
      [] nd.k = "cond" -> LET r == Process(Pick(nd, 1, D), 1, D, blocks) IN Process(nodes, j + 1, r.def, r.blocks)

ProbesIn(ls, blocks) == {n \in 1..Len(ls) : IsProbe(ls[n]) /\ \E b \in 1..Len(blocks) : blocks[b].from <= n /\ n <= blocks[b].to}

Op(ls, cli) == LET ts == Tokens(ls)  p == ParseBlock(ts, 1, <<>>) IN
               IF p.err \/ p.i <= Len(ts) THEN [err |-> TRUE, sel |-> {}]
               ELSE [err |-> FALSE, sel |-> ProbesIn(ls, Process(p.nodes, 1, cli, <<>>).blocks)]
====================================================================================================
