INIT Init
NEXT Next
CONSTANTS
  MaxNotes = 2
INVARIANT Emit
CHECK_DEADLOCK FALSE
