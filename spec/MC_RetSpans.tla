----------------------------------------- MODULE MC_RetSpans ----------------------------------------
(* C09: "the span of every ... return value ... starts at the first token of its declaration proper    *)
(* ... and ends on a token of that element" for a single return value in every form: plain, streamed,  *)
(* tagged, tagged and streamed; behind '->' and between its own tokens stands a blank, two blanks, a    *)
(* line break or a block comment; parameters likewise (a parameter has a name in front).               *)
EXTENDS Naturals, Sequences, TLC, Json
VARIABLES tag, stream, ty, gap, what
Types == {"int32", "Sequence<bool>", "S", "Dictionary<string, S>"}
Gaps == {"sp", "sp2", "nl", "bc"}
Init == tag \in BOOLEAN /\ stream \in BOOLEAN /\ ty \in Types /\ gap \in Gaps /\ what \in {"return", "parameter"}
Next == UNCHANGED <<tag, stream, ty, gap, what>>
\* the tokens of the element, in order: the first one is where its span starts, the last one where it ends
\* (a parameter's tag stands in front of its name, a return value's in front of 'stream')
Tokens == (IF tag THEN <<"tag(1)">> ELSE <<>>) \o (IF what = "parameter" THEN <<"p", ":">> ELSE <<>>) \o (IF stream THEN <<"stream">> ELSE <<>>)
          \o <<ty \o (IF tag THEN "?" ELSE "")>>
Emit == PrintT(<<"CASE", ToJson([retspan |-> TRUE, what |-> what, tokens |-> Tokens, gap |-> gap])>>)
====================================================================================================
