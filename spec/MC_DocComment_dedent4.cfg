INIT Init
NEXT Next
CONSTANTS
  Family = "dedent"
  MaxLines = 4
  MaxTags = 2
  Dev <- Intended
  PosSet <- FieldOnly
  IndentSet <- FewIndents
  KindSet <- FewKinds
INVARIANTS RefEqOp RefSane Emit
CHECK_DEADLOCK FALSE
