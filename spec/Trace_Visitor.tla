--------------------------------------- MODULE Trace_Visitor ----------------------------------------
(* Trace validation for C20: every walk of a compiled file with a recording visitor (the public       *)
(* Visitor trait) is one event [ev |-> "walk", f, tree, got]: `tree` is the element tree of the file as *)
(* the generative model built it (MC_Syntax!FileTree), `got` the callbacks the real traversal made, in  *)
(* order, each [cb, id, f] (f: the number of the file the presented element lies in; 0 for type         *)
(* references).  The walk is accepted iff it is exactly what the stack machine of Visitor.tla presents  *)
(* for that tree - nothing skipped, nothing twice, containers before contents, source order - and       *)
(* every declared element presented lies in the walked file.                                            *)
EXTENDS Visitor, TLC, Json, IOUtils
Rec == ndJsonDeserialize(IOEnv.TRACE)
VARIABLE l
Init == l = 1 /\ TLCSet(1, <<>>)
WalkOk(e) ==
  LET w == Walk(e.tree) IN
  /\ Len(e.got) = Len(w)                                                       \* nothing skipped, nothing extra
  /\ \A i \in 1..Len(w) : e.got[i].cb = w[i].cb /\ e.got[i].id = w[i].id       \* in the machine's order
  /\ \A i \in 1..Len(e.got) : e.got[i].cb # "type_ref" => e.got[i].f = e.f     \* nothing from another file
  \* (exactly once follows from the equality with the machine's walk; identifiers alone do not identify elements: a
  \* parameter and a return member of one operation may share a name, and then share their scoped identifier)
Consume == /\ l <= Len(Rec)
           /\ IF Rec[l].ev = "walk" /\ WalkOk(Rec[l]) THEN TRUE ELSE TLCSet(1, Append(TLCGet(1), l))
           /\ l' = l + 1
Spec == Init /\ [][Consume]_l
Accepted == LET d == TLCGet("stats").diameter  b == TLCGet(1) IN
            IF d - 1 = Len(Rec) /\ b = <<>> THEN PrintT(<<"ACCEPTED", Len(Rec)>>)
            ELSE /\ PrintT(<<"REJECTED-COUNT", Len(b), "of", Len(Rec), "consumed", d - 1>>)
                 /\ \A i \in 1..(IF Len(b) < 12 THEN Len(b) ELSE 12) : PrintT(<<"REJECTED", b[i]>>)
                 /\ FALSE
====================================================================================================
