INIT Init
NEXT Next
CONSTANTS
  Family = "stream"
  MaxLen = 3
INVARIANT Emit
CHECK_DEADLOCK FALSE
