SPECIFICATION Spec
CONSTANTS
  Mode = "bin"
  Dev <- NoDev
INVARIANTS TypeOK NeverCrashes VerdictConsistent
PROPERTIES ErrorGates DoneReached
CHECK_DEADLOCK FALSE
