---------------------------------------- MODULE MC_AliasChain ---------------------------------------
(* C03: alias chains up to length 4 with an attribute on each link, ending in each target kind, incl. loops. *)
EXTENDS NameTable, TLC, Json
CONSTANT MaxChain
VARIABLES chain, term
Terms == {"int32", "struct", "seq", "enum", "custom", "dict", "missing"}
Init == /\ \E n \in 1..MaxChain : chain \in [1..n -> [attr : BOOLEAN, next : 0..n]]
        /\ term \in Terms
Next == UNCHANGED <<chain, term>>
\* what the compiler must say about the field  f: [x::a0] L1?
R == AliasResolve(chain, 1)
\* every alias is resolved where it is defined: the codes that must appear
Codes == ({AliasResolve(chain, chain[s].next).res : s \in {x \in 1..Len(chain) : chain[x].next # 0}} \cup {R.res}) \ {"terminal"}
Expect == IF Codes = {} /\ term # "missing"
          THEN [res |-> "bound", attrs |-> R.attrs, term |-> term]
          ELSE [res |-> "rejected", codes |-> Codes \cup (IF term = "missing" \/ Codes # {} THEN {"E033"} ELSE {})]
Transparent == AliasTransparent(chain)
Emit == PrintT(<<"CASE", ToJson([chain |-> chain, term |-> term, expect |-> Expect])>>)
====================================================================================================
