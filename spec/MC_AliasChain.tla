---------------------------------------- MODULE MC_AliasChain ---------------------------------------
(* C03: alias chains up to length 4 with an attribute on each link, ending in each target kind, incl. loops. *)
EXTENDS NameTable, TLC, Json
CONSTANT MaxChain
VARIABLES chain, term
Terms == {"int32", "struct", "seq", "enum", "custom", "dict", "missing"}
\* every alias lives in module M or in module N (two files); both modules declare S, E and C.  An alias names the next alias
\* bare when it is in its own module and '::X::Lj' otherwise, and names the terminal bare: each link is resolved in the
\* module of the alias that wrote it, so the terminal is the one of the last link's module.
Init == /\ \E n \in 1..MaxChain : chain \in [1..n -> [attr : BOOLEAN, next : 0..n, mod : {"M", "N"}]]
        /\ term \in Terms
Next == UNCHANGED <<chain, term>>
\* what the compiler must say about the field  f: [x::a0] L1?
R == AliasResolve(chain, 1)
\* every alias is resolved where it is defined: the codes that must appear
Codes == ({AliasResolve(chain, chain[s].next).res : s \in {x \in 1..Len(chain) : chain[x].next # 0}} \cup {R.res}) \ {"terminal"}
RECURSIVE LastLink(_, _)
LastLink(cur, fuel) == IF fuel = 0 \/ chain[cur].next = 0 THEN cur ELSE LastLink(chain[cur].next, fuel - 1)
Expect == IF Codes = {} /\ term # "missing"
          THEN [res |-> "bound", attrs |-> R.attrs, term |-> term, tmod |-> chain[LastLink(1, Len(chain))].mod]
          ELSE [res |-> "rejected", codes |-> Codes \cup (IF term = "missing" \/ Codes # {} THEN {"E033"} ELSE {})]
Transparent == AliasTransparent(chain)
Emit == PrintT(<<"CASE", ToJson([chain |-> chain, term |-> term, expect |-> Expect])>>)
====================================================================================================
