--------------------------------------- MODULE Trace_Options ---------------------------------------
(* Trace validation for C19: every recorded call of SliceOptions::try_parse_from with a --generator *)
(* value must be explained by Options!Machine on the same code points, and - when the value was     *)
(* rendered from a (path, arguments) pair - must give back exactly what was written.                *)
(* Event: [ev |-> "parse", input |-> <<cp>>, outcome |-> "ok" | "rejected" | ..., path |-> <<cp>>,  *)
(*         args |-> <<[k |-> <<cp>>, v |-> <<cp>>]>>, written |-> <<>> | <<[path, args]>>]          *)
EXTENDS Naturals, Sequences, FiniteSets, TLC, Json, IOUtils

\* Unicode White_Space, which is what str::trim removes.
UWS == {9, 10, 11, 12, 13, 32, 133, 160, 5760, 8232, 8233, 8239, 8287, 12288} \cup (8192..8202)

O == INSTANCE Options WITH COMMA <- 44, EQ <- 61, BSL <- 92, WS <- UWS

Rec == ndJsonDeserialize(IOEnv.TRACE)

VARIABLE l
Init == l = 1

Explained(e) ==
  LET m == O!Machine(e.input) IN
  /\ m.res = e.outcome
  /\ m.res = "ok" => (m.path = e.path /\ m.args = e.args)
  /\ e.written # <<>> => m = O!Intended(e.written[1].path, e.written[1].args)
  /\ m = O!Ref(e.input)

Parse == /\ l <= Len(Rec)
         /\ Rec[l].ev = "parse"
         /\ Explained(Rec[l])
         /\ l' = l + 1

Next == Parse
Spec == Init /\ [][Next]_l

Accepted == LET d == TLCGet("stats").diameter IN
            IF d - 1 = Len(Rec) THEN PrintT(<<"ACCEPTED", Len(Rec)>>)
            ELSE Print(<<"REJECTED", d, ToJson(Rec[d])>>, FALSE)
====================================================================================================
