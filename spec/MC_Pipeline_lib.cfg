SPECIFICATION Spec
CONSTANTS
  Mode = "lib"
  Dev <- NoDev
INVARIANTS TypeOK NeverCrashes VerdictConsistent
PROPERTIES ErrorGates DoneReached
CHECK_DEADLOCK FALSE
