INIT Init
NEXT Next
CONSTANTS
  MaxLen = 4
  MaxDepth = 4
  Syms = {"A", "B"}
  SrcKinds = {"src", "srcw"}
  BlankKinds = {"blank"}
  IfExprs <- IfExprs3
  ElifExprs <- ElifExprs2
  BadVariants = {1}
  WellFormedOnly = FALSE
  MaxToks = 0
  ExprToks <- NoExprs
INVARIANTS RefEqOp Incremental IllFormedIsError StackDepthBound Emit
PROPERTY DefinesOnlyWhenActive
CHECK_DEADLOCK FALSE
