--------------------------------------- MODULE Trace_Cycles ----------------------------------------
(* Trace validation for C05: every recorded compilation of a containment / alias / inheritance graph *)
(* must satisfy the property as the reference (transitive closure) states it.                        *)
(*  [ev |-> "contain", n, edges |-> <<<<a, b>>>>, reported |-> <<[root, chain, notes]>>, unparsed,   *)
(*   accepted, cycle_errors]                                                                         *)
(*  [ev |-> "alias", n, target |-> <<t1..tn>>, e019 |-> <<aliases>>, accepted]                        *)
(*  [ev |-> "inherit", n, edges, accepted, e037 |-> <<[root, chain]>>]                               *)
EXTENDS Naturals, Sequences, FiniteSets, TLC, Json, IOUtils

Rec == ndJsonDeserialize(IOEnv.TRACE)
ToSet(s) == {s[i] : i \in 1..Len(s)}

\* reference: x lies on a cycle iff x is reachable from x by at least one edge (breadth-first closure)
RECURSIVE Reach(_, _, _)
Reach(G, frontier, seen) ==
  LET nxt == {p[2] : p \in {q \in G : q[1] \in frontier}} \ seen IN
  IF nxt = {} THEN seen ELSE Reach(G, nxt, seen \cup nxt)
OnCycle(G, S) == {x \in S : x \in Reach(G, {x}, {})}

VARIABLE l
\* programs are independent: a rejected one is remembered (TLC register 1) and validation continues with the next
Init == l = 1 /\ TLCSet(1, <<>>)
E == Rec[l]

ContainOk(e) ==
  LET S == 1..e.n  G == ToSet(e.edges)  cyc == OnCycle(G, S)
      named == UNION {ToSet(e.reported[i].chain) : i \in 1..Len(e.reported)} IN
  /\ e.unparsed = 0
  /\ e.cycle_errors = Len(e.reported)
  /\ (e.cycle_errors > 0) <=> (cyc # {})                      \* an infinite-size error exactly when a cycle exists
  /\ cyc # {} => ~e.accepted
  /\ cyc \subseteq named                                      \* every type on a cycle is named by a reported cycle
  /\ named \subseteq cyc                                      \* acyclic definitions never are
  /\ \A i \in 1..Len(e.reported) :                            \* every reported chain is a real, closed path of fields
        LET c == e.reported[i].chain IN
        /\ Len(c) >= 2 /\ c[1] = c[Len(c)] /\ c[1] = e.reported[i].root
        /\ \A j \in 1..(Len(c) - 1) : <<c[j], c[j + 1]>> \in G
        /\ e.reported[i].notes = Len(c) - 1                   \* one note per link

AliasOk(e) ==
  LET S == 1..e.n  G == {<<i, e.target[i]>> : i \in {j \in S : e.target[j] # 0}}  loop == OnCycle(G, S) IN
  /\ loop # {} => ~e.accepted                                 \* alias loops are rejected,
  \* loop-free alias chains accepted - unless an alias is used as a dictionary key (wrapper 5) and names something that is
  \* no legal key: then the key rules (C04: E003 - E006) may speak, and nothing else
  /\ loop = {} => (e.accepted \/ (5 \in ToSet(e.w) /\ ToSet(e.codes) \subseteq {"E003", "E004", "E005", "E006"}))
  /\ loop = {} => e.e019 = <<>>
  \* a self-referential-alias report names an alias that has no finite type: one on a loop or one that leads into a loop
  \* (the statement asks for rejection only; which aliases are named is not part of it - an earlier version of this
  \* check demanded exactly the aliases on a loop, which is more than the property states)
  /\ ToSet(e.e019) \subseteq {a \in S : a \in loop \/ \E b \in loop : b \in Reach(G, {a}, {})}

InheritOk(e) ==
  LET S == 1..e.n  G == ToSet(e.edges)  loop == OnCycle(G, S) IN
  /\ e.accepted <=> (loop = {})
  \* an interface that is accused of inheriting from itself does (one that merely derives from a loop does not), and the
  \* chain the report shows is a real, closed path of base interfaces that starts at the accused interface
  /\ \A i \in 1..Len(e.e037) :
        LET r == e.e037[i]  c == r.chain IN
        /\ r.root \in loop
        /\ Len(c) >= 2 /\ c[1] = r.root /\ c[Len(c)] = r.root
        /\ \A j \in 1..(Len(c) - 1) : <<c[j], c[j + 1]>> \in G

EventOk == CASE E.ev = "contain" -> ContainOk(E)
             [] E.ev = "alias"   -> AliasOk(E)
             [] E.ev = "inherit" -> InheritOk(E)
             [] OTHER -> FALSE
Step == /\ l <= Len(Rec)
        /\ IF EventOk THEN TRUE ELSE TLCSet(1, Append(TLCGet(1), l))
        /\ l' = l + 1
Spec == Init /\ [][Step]_l

Accepted == LET d == TLCGet("stats").diameter  b == TLCGet(1) IN
            IF d - 1 = Len(Rec) /\ b = <<>> THEN PrintT(<<"ACCEPTED", Len(Rec)>>)
            ELSE /\ PrintT(<<"REJECTED-COUNT", Len(b), "of", Len(Rec), "consumed", d - 1>>)
                 /\ \A i \in 1..(IF Len(b) < 12 THEN Len(b) ELSE 12) : PrintT(<<"REJECTED", b[i], ToJson([event |-> Rec[b[i]]])>>)
                 /\ FALSE
====================================================================================================
