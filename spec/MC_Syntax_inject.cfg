SPECIFICATION Spec
CONSTANTS
  MaxFiles = 2
  MaxDefs = 4
  MaxMembers = 3
  MaxTypeOps = 5
  MaxAttrs = 1
INVARIANTS ScopeBalanced PrevEnumResetAtEnumEnd EmitInjected
CHECK_DEADLOCK FALSE
