----------------------------------------- MODULE MC_Driver ------------------------------------------
EXTENDS Driver, TLC
CONSTANTS Mode, Behs, AllowReplyFirst

GatingScenarios == [cls : Classes, dry : BOOLEAN, outdir : {"absent", "given"}, gens : [G -> Behs]]
FaultScenarios  == [cls : {"clean"}, dry : {FALSE}, outdir : OutDirs, gens : [G -> Behs]]
ReplyFirst      == [cls : {"clean"}, dry : {FALSE}, outdir : {"given"}, gens : [G -> {"replyfirst"}]]

Init == DInit(CASE Mode = "gating" -> GatingScenarios [] Mode = "faults" -> FaultScenarios [] OTHER -> ReplyFirst)
Spec == Init /\ [][DNext]_dvars /\ WF_dvars(DNext)
====================================================================================================
