INIT Init
NEXT Next
CONSTANTS
  Ns = {4}
  Variants = {1, 2, 3, 4, 5, 6, 7, 8, 9, 10, 11, 12, 13}
  Mixed = {TRUE}
  KindPats = {"alt"}
  Compacts = {FALSE}
  MaxEdges = 16
  Family = "contain"
INVARIANT Emit
CHECK_DEADLOCK FALSE
