---------------------------------------- MODULE MC_ManyLints ----------------------------------------
(* C13 on a program with many lints.  Two files with the same text and layout (module M / module N):  *)
(* each has ten lint sites of three kinds on six elements - a struct, two of its fields, an operation,  *)
(* its parameter, an enumerator and its field; several lints share an element (and hence the scope the *)
(* lint records), and every site of one file has a twin at the same row and column of the other file.  *)
(* Up to MaxSupp suppressions stand at any of the places: command line, file attribute of either file, *)
(* the elements of the first file, some elements of the twin file.  Every lint is silenced exactly     *)
(* when the statement says so - named (or All) on the command line, on ITS file, on its element or on  *)
(* a definition enclosing it - independently of every other lint and suppression.                      *)
(* harness/src/fam_lints.rs many_template (rows in brackets):                                          *)
(*   struct S (BrokenDocLink [3], IncorrectDocComment [4]) {                                           *)
(*     x (BrokenDocLink [6], Deprecated [7]),  y (IncorrectDocComment [8]) }                            *)
(*   interface I { op (IncorrectDocComment [12], BrokenDocLink [13]) ( p (Deprecated [14]) ) }         *)
(*   enum E { A (IncorrectDocComment [17]) ( f (Deprecated [18]) ), B }                                 *)
EXTENDS Naturals, Sequences, FiniteSets, TLC, Json
CONSTANTS MaxSupp
Kinds == {"Deprecated", "BrokenDocLink", "IncorrectDocComment"}
\* chain: the element the lint concerns and the definitions enclosing it
Sites1 == << [k |-> "BrokenDocLink", chain |-> <<"S">>], [k |-> "IncorrectDocComment", chain |-> <<"S">>],
             [k |-> "BrokenDocLink", chain |-> <<"X", "S">>], [k |-> "Deprecated", chain |-> <<"X", "S">>],
             [k |-> "IncorrectDocComment", chain |-> <<"OP", "I">>], [k |-> "BrokenDocLink", chain |-> <<"OP", "I">>],
             [k |-> "Deprecated", chain |-> <<"P", "OP", "I">>], [k |-> "IncorrectDocComment", chain |-> <<"Y", "S">>],
             [k |-> "IncorrectDocComment", chain |-> <<"EA", "E">>], [k |-> "Deprecated", chain |-> <<"EF", "EA", "E">>] >>
NSites == Len(Sites1)
ToSet(s) == {s[i] : i \in 1..Len(s)}
\* site i of file f (1: a.slice, 2: twin.slice); the twin's elements are written t<name>
T(name) == "t" \o name
Site(f, i) == [k |-> Sites1[i].k, f |-> f,
               chain |-> IF f = 1 THEN ToSet(Sites1[i].chain) ELSE {T(Sites1[i].chain[j]) : j \in 1..Len(Sites1[i].chain)}]
AllSites == {<<f, i>> : f \in 1..2, i \in 1..NSites}
\* where a suppression can stand
Slots == {"cli", "file", "tfile", "S", "X", "Y", "I", "OP", "P", "E", "EA", "EF", "tS", "tX", "tP", "tEA", "tE"}
ArgChoices == {{"Deprecated"}, {"BrokenDocLink"}, {"IncorrectDocComment"}, {"All"}}
\* which lint sites the files contain: all of them, or only the lints of one element (then their diagnostics are
\* neighbours in the recorded list)
Presents == {1..NSites, {1, 2}, {3, 4}, {5, 6}, {9, 10}}
VARIABLES supp, present,
          twin      \* FALSE: the twin file holds no lint at all (the lints of one element of the first file are then really
                    \* neighbours in the recorded list, whatever phase reports them)
AC == ArgChoices \cup {{}}
Put(a, x, b, y, c, z) == [s \in Slots |-> IF s = a THEN x ELSE IF s = b THEN y ELSE IF s = c THEN z ELSE {}]
Init == /\ supp \in {Put(a, x, b, y, c, z) : a \in Slots, b \in (IF MaxSupp >= 2 THEN Slots ELSE {"cli"}), c \in (IF MaxSupp >= 3 THEN Slots ELSE {"cli"}),
                                              x \in AC, y \in (IF MaxSupp >= 2 THEN AC ELSE {{}}), z \in (IF MaxSupp >= 3 THEN AC ELSE {{}})}
        /\ present \in Presents
        /\ twin \in BOOLEAN
Next == UNCHANGED <<supp, present, twin>>
Names(args, k) == "All" \in args \/ k \in args
At(s) == IF s \in Slots THEN supp[s] ELSE {}                      \* elements of the twin that carry no slot
\* ---- reference: the statement
Silenced(l) == \E s \in {"cli", IF l.f = 1 THEN "file" ELSE "tfile"} \cup l.chain : Names(At(s), l.k)
\* ---- operational: into_updated - stage 1 command line, stage 2 the file of the lint's span, stage 3 the entity found by
\* the scope the lint recorded and its parents (all_attributes); the scope of each site names the innermost element of its chain
OpSilenced(l) == Names(supp["cli"], l.k) \/ Names(supp[IF l.f = 1 THEN "file" ELSE "tfile"], l.k) \/ \E e \in l.chain : Names(At(e), l.k)
RefEqOp == \A p \in AllSites : Silenced(Site(p[1], p[2])) = OpSilenced(Site(p[1], p[2]))
\* one lint's fate never depends on another lint: it is a function of its own kind, file and chain and of the suppressions
NonInterference == \A p, q \in AllSites : LET a == Site(p[1], p[2])  b == Site(q[1], q[2]) IN
                      (a.k = b.k /\ a.chain = b.chain /\ a.f = b.f) => Silenced(a) = Silenced(b)
\* a suppression written in one file never reaches the other file
NoLeak == \A i \in 1..NSites : (\A s \in Slots \ {"cli", "file", "S", "X", "Y", "I", "OP", "P", "E", "EA", "EF"} : supp[s] = {})
                                  => (Silenced(Site(2, i)) <=> Names(supp["cli"], Sites1[i].k))
SetToSeq(S) == CHOOSE q \in [1..Cardinality(S) -> S] : \A i, j \in 1..Cardinality(S) : i < j => q[i] # q[j]
Emit == PrintT(<<"CASE", ToJson([many |-> TRUE, twin |-> twin, present |-> [i \in 1..NSites |-> i \in present], supp |-> [s \in {x \in Slots : supp[x] # {}} |-> SetToSeq(supp[s])],
                                 silenced |-> [f \in 1..2 |-> [i \in 1..NSites |-> Silenced(Site(f, i))]]])>>)
====================================================================================================
