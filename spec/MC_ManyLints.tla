---------------------------------------- MODULE MC_ManyLints ----------------------------------------
(* C13 on a program with many lints: seven lint sites of three kinds on four elements (two lints of    *)
(* different kinds share an element - and hence the scope the lint records - three times) and up to    *)
(* two suppressions at any of nine places.  Every lint is silenced exactly when the statement says so  *)
(* - named (or All) on the command line, on the file, on its element or on a definition enclosing it - *)
(* independently of every other lint and suppression.                                                  *)
(* harness/src/fam_lints.rs MANY_TEMPLATE:                                                             *)
(*   struct S (BrokenDocLink L1, IncorrectDocComment L2) { x (BrokenDocLink L3, Deprecated L4), y }     *)
(*   interface I { op (IncorrectDocComment L5, BrokenDocLink L6) ( p (Deprecated L7) ) }               *)
EXTENDS Naturals, Sequences, FiniteSets, TLC, Json
CONSTANTS MaxSupp
Kinds == {"Deprecated", "BrokenDocLink", "IncorrectDocComment"}
\* chain: the element the lint concerns and the definitions enclosing it
Sites == << [k |-> "BrokenDocLink", chain |-> {"S"}], [k |-> "IncorrectDocComment", chain |-> {"S"}],
            [k |-> "BrokenDocLink", chain |-> {"X", "S"}], [k |-> "Deprecated", chain |-> {"X", "S"}],
            [k |-> "IncorrectDocComment", chain |-> {"OP", "I"}], [k |-> "BrokenDocLink", chain |-> {"OP", "I"}],
            [k |-> "Deprecated", chain |-> {"P", "OP", "I"}] >>
\* where a suppression can stand: command line, file attribute, the elements, a sibling (Y), another file
Slots == {"cli", "file", "S", "X", "Y", "I", "OP", "P", "otherfile"}
ArgChoices == {{"Deprecated"}, {"BrokenDocLink"}, {"IncorrectDocComment"}, {"All"}, {"BrokenDocLink", "IncorrectDocComment"}, {"Deprecated", "BrokenDocLink"}}
\* which lint sites the program contains: all of them, or only the two lints of one element (then their diagnostics are
\* neighbours in the recorded list), or one lint each of two elements
Presents == {1..7, {1, 2}, {3, 4}, {5, 6}, {2, 5}, {4, 7}, {6}}
VARIABLES supp, present
AC == ArgChoices \cup {{}}
Put(a, x, b, y, c, z) == [s \in Slots |-> IF s = a THEN x ELSE IF s = b THEN y ELSE IF s = c THEN z ELSE {}]
Init == supp \in {Put(a, x, b, y, c, z) : a \in Slots, b \in Slots, c \in (IF MaxSupp >= 3 THEN Slots ELSE {"cli"}),
                                           x \in AC, y \in (IF MaxSupp >= 2 THEN AC ELSE {{}}), z \in (IF MaxSupp >= 3 THEN AC ELSE {{}})}
        /\ present \in Presents
Next == UNCHANGED <<supp, present>>
Names(args, k) == "All" \in args \/ k \in args
\* ---- reference: the statement
Silenced(l) == \E s \in {"cli", "file"} \cup l.chain : Names(supp[s], l.k)
\* ---- operational: into_updated - stage 1 command line, stage 2 the file of the lint's span, stage 3 the entity found by
\* the scope the lint recorded and its parents (all_attributes); the scope of each site names the innermost element of its chain
OpSilenced(l) == Names(supp["cli"], l.k) \/ Names(supp["file"], l.k) \/ \E e \in l.chain : Names(supp[e], l.k)
RefEqOp == \A i \in 1..Len(Sites) : Silenced(Sites[i]) = OpSilenced(Sites[i])
\* one lint's fate never depends on another lint: it is a function of its own kind, its own chain and the suppressions
NonInterference == \A i, j \in 1..Len(Sites) : (Sites[i].k = Sites[j].k /\ Sites[i].chain = Sites[j].chain) => Silenced(Sites[i]) = Silenced(Sites[j])
SetToSeq(S) == CHOOSE q \in [1..Cardinality(S) -> S] : \A i, j \in 1..Cardinality(S) : i < j => q[i] # q[j]
Emit == PrintT(<<"CASE", ToJson([many |-> TRUE, present |-> SetToSeq(present), supp |-> [s \in {x \in Slots : supp[x] # {}} |-> SetToSeq(supp[s])],
                                 silenced |-> [i \in 1..Len(Sites) |-> Silenced(Sites[i])]])>>)
====================================================================================================
