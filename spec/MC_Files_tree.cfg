INIT Init
NEXT Next
CONSTANTS
  Tree <- Skeleton
  SliceNames <- Names
  MaxSrc = 0
  MaxRef = 0
  SpellingSet = "some"
INVARIANT EmitTree
CHECK_DEADLOCK FALSE
