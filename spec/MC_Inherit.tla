------------------------------------------ MODULE MC_Inherit -----------------------------------------
(* C04 (no redeclaration of an inherited operation) and the operation lists of interfaces: every       *)
(* acyclic hierarchy of up to N interfaces with at most two written bases each and every assignment    *)
(* of operation names.  TLC checks that the closure the code computes is the transitive closure and    *)
(* that "own name equals an inherited name" is "redeclares an ancestor's operation"; every hierarchy   *)
(* is printed with the expected verdict, ancestor sets and inherited operations, rendered in three     *)
(* layouts (declaration order, reverse order, split over two files) and compiled.                      *)
EXTENDS Inheritance, TLC, Json, SequencesExt
CONSTANTS N, OpNames, Layouts
VARIABLES h, lay
BaseSeqs(k) == {<<>>} \cup {<<a>> : a \in 1..(k - 1)} \cup {s \in (1..(k - 1)) \X (1..(k - 1)) : s[1] # s[2]}
Init == h = <<>> /\ lay \in Layouts
Next == /\ Len(h) < N
        /\ \E bs \in BaseSeqs(Len(h) + 1), ops \in SUBSET OpNames : h' = Append(h, [bases |-> bs, ops |-> ops])
        /\ UNCHANGED lay
Spec == Init /\ [][Next]_<<h, lay>>
\* (SetToSeq: SequencesExt - some enumeration of the set; the harness compares as sets)
Emit == h # <<>> =>
        PrintT(<<"CASE", ToJson([fam |-> "inherit",
                                 item |-> [ifs |-> [k \in 1..Len(h) |-> [bases |-> h[k].bases, ops |-> SetToSeq(h[k].ops)]], lay |-> lay],
                                 violations |-> IF RuleViolated(h) THEN {"E011"} ELSE {},
                                 redeclared |-> [k \in 1..Len(h) |-> SetToSeq(Redeclares(h, k))],
                                 anc |-> [k \in 1..Len(h) |-> SetToSeq(Anc(h, k))],
                                 inherited |-> [k \in 1..Len(h) |-> SetToSeq({<<p[1], p[2]>> : p \in InheritedOps(h, k)})]])>>)
Closure == ClosureIsTransitive(h)
Shadow == ShadowingIsRedeclaration(h)
\* documents what a closure cut after two levels accepts: violated from four interfaces in a chain on
TwoLevelsSuffice == \A k \in 1..Len(h) : ToSet(AllBases2(h, k)) = Anc(h, k)
====================================================================================================
