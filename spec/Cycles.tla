------------------------------------------- MODULE Cycles -------------------------------------------
(* Illegal cycles (C05): containment between structs / enums, alias loops, inheritance loops.        *)
(*                                                                                                  *)
(* Reference layer  : transitive closure.  OnCycle(G) = nodes reachable from themselves.            *)
(* Operational layer: the search of validators/cycle_detection.rs - for every root in turn a        *)
(*                    depth-first walk over field types with an explicit dependency stack:          *)
(*                      candidate = root            -> ReportCycle  (de-duplicated by vertex set)   *)
(*                      candidate already on stack  -> SkipSeenInStack                              *)
(*                      otherwise                   -> PushToStack, recurse, PopStack               *)
(*                    and the recursive base-interface closure of Interface::all_base_interfaces    *)
(*                    guarded by the inheritance-cycle check that precedes it.                      *)
EXTENDS Naturals, Sequences, FiniteSets

CONSTANT N
Nodes == 1..N

RECURSIVE TCn(_, _, _)
TCn(G, S, k) == IF k = 0 THEN G
                ELSE LET R == TCn(G, S, k - 1) IN
                     R \cup {p \in S \X S : \E b \in S : <<p[1], b>> \in R /\ <<b, p[2]>> \in R}
TC(G, S) == TCn(G, S, Cardinality(S))
OnCycle(G, S) == {x \in S : <<x, x>> \in TC(G, S)}

----------------------------------------------------------------------------------------------------
VARIABLES g,          \* containment edges <<a, b>>: some field of a has a type that contains b
          root,       \* the type being checked
          stack,      \* dependency stack: the types entered below the root
          work,       \* explicit recursion: frames [node, next] (next candidate target, ascending)
          reported,   \* set of [root, chain] with chain = <<root, ..., root>>
          seenSets,   \* vertex sets already reported (the de-duplication set)
          phase
cvars == <<g, root, stack, work, reported, seenSets, phase>>

CInit == /\ g \in SUBSET (Nodes \X Nodes)
         /\ root = 1 /\ stack = <<>> /\ work = <<[node |-> 1, next |-> 1]>>
         /\ reported = {} /\ seenSets = {} /\ phase = "run"

Top == work[Len(work)]
StackIds == {stack[i] : i \in 1..Len(stack)}
Advance == [work EXCEPT ![Len(work)].next = @ + 1]
Examining == phase = "run" /\ work # <<>> /\ Top.next <= N

NoEdge == /\ Examining /\ <<Top.node, Top.next>> \notin g
          /\ work' = Advance /\ UNCHANGED <<g, root, stack, reported, seenSets, phase>>
ReportCycle ==
  /\ Examining /\ <<Top.node, Top.next>> \in g /\ Top.next = root
  /\ LET set == StackIds \cup {root} IN
     IF set \in seenSets THEN UNCHANGED <<reported, seenSets>>
     ELSE /\ seenSets' = seenSets \cup {set}
          /\ reported' = reported \cup {[root |-> root, chain |-> <<root>> \o stack \o <<root>>]}
  /\ work' = Advance /\ UNCHANGED <<g, root, stack, phase>>
SkipSeenInStack ==
  /\ Examining /\ <<Top.node, Top.next>> \in g /\ Top.next # root /\ Top.next \in StackIds
  /\ work' = Advance /\ UNCHANGED <<g, root, stack, reported, seenSets, phase>>
PushToStack ==
  /\ Examining /\ <<Top.node, Top.next>> \in g /\ Top.next # root /\ Top.next \notin StackIds
  /\ stack' = Append(stack, Top.next)
  /\ work' = Append(Advance, [node |-> Top.next, next |-> 1])
  /\ UNCHANGED <<g, root, reported, seenSets, phase>>
PopStack ==
  /\ phase = "run" /\ work # <<>> /\ Top.next > N
  /\ work' = SubSeq(work, 1, Len(work) - 1)
  /\ stack' = IF Len(work) > 1 THEN SubSeq(stack, 1, Len(stack) - 1) ELSE stack
  /\ UNCHANGED <<g, root, reported, seenSets, phase>>
NextRoot ==
  /\ phase = "run" /\ work = <<>>
  /\ IF root < N THEN root' = root + 1 /\ work' = <<[node |-> root + 1, next |-> 1]>> /\ phase' = "run"
     ELSE phase' = "done" /\ UNCHANGED <<root, work>>
  /\ UNCHANGED <<g, stack, reported, seenSets>>

CNext == NoEdge \/ ReportCycle \/ SkipSeenInStack \/ PushToStack \/ PopStack \/ NextRoot

Named == UNION {{r.chain[i] : i \in 1..Len(r.chain)} : r \in reported}
IsClosedPath(c, G) == /\ Len(c) >= 2 /\ c[1] = c[Len(c)]
                      /\ \A i \in 1..(Len(c) - 1) : <<c[i], c[i + 1]>> \in G

ErrorIffCycle        == phase = "done" => ((reported # {}) <=> (OnCycle(g, Nodes) # {}))
EveryCyclicNodeNamed == phase = "done" => OnCycle(g, Nodes) \subseteq Named
OnlyCyclicNamed      == Named \subseteq OnCycle(g, Nodes)
ReportedChainIsPath  == \A r \in reported : IsClosedPath(r.chain, g) /\ r.chain[1] = r.root
StackIsSimplePath    == /\ Len(stack) = Cardinality(StackIds)
                        /\ root \notin StackIds
                        /\ (work = <<>> => stack = <<>>)
                        /\ Len(work) = Len(stack) + 1 \/ work = <<>>
Terminates           == <>(phase = "done")

----------------------------------------------------------------------------------------------------
(* Inheritance: bases of an interface, closure computed by recursion over the base graph.  The      *)
(* closure is only computed after every interface passed the loop check (InheritanceLoops = {}).    *)
InheritanceLoops(B) == OnCycle(B, Nodes)
RECURSIVE AllBases(_, _, _)
\* bases reachable from i; `fuel` bounds the recursion depth the way the loop check does (acyclic => depth <= N)
AllBases(B, i, fuel) == IF fuel = 0 THEN {}
                        ELSE {b \in Nodes : <<i, b>> \in B} \cup UNION {AllBases(B, b, fuel - 1) : b \in {x \in Nodes : <<i, x>> \in B}}
ClosureMatchesTC == \A B \in SUBSET (Nodes \X Nodes) :
                       InheritanceLoops(B) = {} => \A i \in Nodes : AllBases(B, i, N) = {b \in Nodes : <<i, b>> \in TC(B, Nodes)}

(* Aliases: alias i names alias t[i] or a concrete type (0).  The chain walk of resolve_type_alias: *)
RECURSIVE AliasWalk(_, _, _)
\* returns "concrete", or the alias at which the walk closes a loop
AliasWalk(t, cur, seen) == IF cur = 0 THEN 0
                           ELSE IF cur \in seen THEN cur
                           ELSE AliasWalk(t, t[cur], seen \cup {cur})
\* resolving a use of alias a reports a self-referential alias exactly when the walk returns to a itself
AliasReportsE019(t, a) == AliasWalk(t, a, {}) = a
AliasOnLoop(t) == OnCycle({<<i, t[i]>> : i \in {j \in DOMAIN t : t[j] # 0}}, DOMAIN t)
AliasWalkMatchesTC == \A t \in [Nodes -> 0..N] : {a \in Nodes : AliasReportsE019(t, a)} = AliasOnLoop(t)
====================================================================================================
