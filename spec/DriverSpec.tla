----------------------------------------- MODULE DriverSpec -----------------------------------------
(* Declarative layer of the driver model (C07, C18): the behaviour catalogue of generators and       *)
(* Expected(scn) - what the properties demand of a run as a function of the scenario.  Shared by     *)
(* Driver.tla (the operational machine must meet it) and Trace_Driver.tla (every observed run of the *)
(* real binary must meet it).                                                                        *)
EXTENDS Naturals, Integers, Sequences, FiniteSets

CONSTANT ReplyLen     \* chunks of a complete reply (only used by the operational layer)

\* ---- the behaviour catalogue
\* valid reply with 0..2 files; with one file and a diagnostic (info / warning / naming its source); with one file whose path is
\* one byte long / starts with a three-byte character
OkLike      == {"ok0", "ok1", "ok2", "okinfo", "okwarn", "oksource", "okshort", "okwide"}
NotStarted  == {"missing", "noexec"}                  \* cannot be spawned
\* "replykill" / "replyabrt": a complete, valid reply is written and flushed, then the generator dies from a signal
ExitsBadly  == {"exit1", "exit255", "sigkill", "sigsegv", "replykill", "replyabrt"}
\* undecodable strings one field at a time (file path, contents, diagnostic message, diagnostic source); "cut" = the string
\* stops in the middle of a multi-byte character
BadStrings  == {"badutf8", "badutf8cut", "badcontents", "badcontentsmid", "badmsg", "badmsgcut", "badsource", "badsourcecut"}
BadReply    == {"trunc1", "truncmid", "trunclast", "truncat", "badbool", "badlevel", "hugesize", "hugestr", "hugecontents", "empty"} \cup BadStrings
\* "closeflood": closes its stdin at once without exiting (so that a request larger than a pipe buffer cannot be written),
\* then writes more than a pipe buffer of output that is no reply
Catalogue   == OkLike \cup NotStarted \cup ExitsBadly \cup BadReply \cup {"stderr0", "noread", "closeflood"}
ReadsAll(b) == b \in OkLike \cup ExitsBadly \cup BadReply \cup {"stderr0"}
NFilesOf(b) == CASE b \in {"ok1", "okinfo", "okwarn", "oksource", "okshort", "okwide"} -> 1 [] b = "ok2" -> 2 [] OTHER -> 0
\* how many reply chunks a behaviour writes before exiting
ReplyChunks(b) == CASE b \in OkLike \cup BadStrings \cup {"badbool", "badlevel", "hugesize", "hugestr", "hugecontents", "replykill", "replyabrt"} -> ReplyLen
                    [] b \in {"trunc1", "truncmid", "trunclast", "truncat"} -> ReplyLen - 1
                    [] OTHER -> 0

\* "err_256": exactly 256 errors in one file (an exit status is one byte wide)
\* err_io: a listed source does not exist (defect in "file" 1) / a reference directory does not exist (2);
\* err_io_ext: a source without the .slice extension; err_io_dir: a directory given as a source
\* err_fileattr: an attribute that is illegal on a file, on a file that holds nothing else (no module, no definitions)
ErrClasses == {"err_io", "err_io_ext", "err_io_dir", "err_fileattr", "err_syntax", "err_attr", "err_type", "err_cycle", "err_redef", "err_redef_alias", "err_rule", "err_256"}
\* one class per lint: Deprecated, MalformedDocComment, BrokenDocLink, IncorrectDocComment (each a warning, never an error)
WarnClasses == {"warn", "warn_malformed", "warn_link", "warn_incorrect"}
\* "big": a clean program whose request is larger than a pipe buffer (4000 structs, about 250 KiB)
Classes    == {"clean", "big"} \cup WarnClasses \cup ErrClasses
\* the file a generator replies with may exist already: identical (left untouched), different, or sharing a prefix with the
\* new content - longer (the new content followed by more) or shorter (a proper prefix of it); only "identical" may be skipped
OutDirs    == {"absent", "given", "unusable", "identical", "different", "longer", "shorter"}

----------------------------------------------------------------------------------------------------
(* Declarative layer                                                                                *)

Runs(scn) == scn.cls \notin ErrClasses /\ ~scn.dry          \* generators are started at all
Gens(scn) == 1..Len(scn.gens)
\* files of generator i can be stored
Storable(scn) == scn.outdir # "unusable"

Expected(scn) ==
  LET run == Runs(scn)
      started == IF run THEN {i \in Gens(scn) : scn.gens[i] \notin NotStarted} ELSE {}
      failed  == IF run THEN {i \in Gens(scn) : scn.gens[i] \notin OkLike} ELSE {}
      \* generators whose files end up in the output directory
      filers  == IF run /\ Storable(scn) THEN {i \in Gens(scn) : NFilesOf(scn.gens[i]) > 0} ELSE {}
      fileErr == run /\ ~Storable(scn) /\ \E i \in Gens(scn) : NFilesOf(scn.gens[i]) > 0
  IN [started |-> started,           \* every startable generator is invoked - or none at all
      failed  |-> failed,            \* each of these is named by an error
      filers  |-> filers,            \* files come only from successfully decoded replies
      exit    |-> IF scn.cls \in ErrClasses \/ failed # {} \/ fileErr THEN 1 ELSE 0]

====================================================================================================
