INIT Init
NEXT Next
CONSTANT MaxChain = 3
INVARIANTS Transparent Emit
CHECK_DEADLOCK FALSE
