SPECIFICATION Spec
CONSTANTS
  Kinds = {"slice", "vec"}
  Caps = {0, 1, 2, 3, 4}
  MaxK = 3
  MaxOps = 6
  MaxResv = 3
  Paths = FALSE
INVARIANTS ReservationsInsideLog ReservationsDisjoint NeverPastCap ReservedUntouched
PROPERTIES AppendOnly FailureChangesNothing ReservedWriteStaysInside
CHECK_DEADLOCK FALSE
