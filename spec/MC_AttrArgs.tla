------------------------------------------ MODULE MC_AttrArgs ---------------------------------------
(* C02 micro-family (bounded-exhaustive): every argument list up to MaxLen over a small alphabet per    *)
(* directive x way of writing it (bare words / string literals; no parentheses / empty parentheses for  *)
(* the empty list) x element it stands on.  TLC checks ParseIsMeaning and prints each case with the     *)
(* codes of the violated rules and - for a legal list - the parsed form the AST has to show.           *)
EXTENDS Attributes, TLC, Json
CONSTANTS MaxLen
VARIABLES dir, args, quoted, parens, on

RECURSIVE SeqsUpTo(_, _)
SeqsUpTo(S, n) == IF n = 0 THEN {<<>>} ELSE LET prev == SeqsUpTo(S, n - 1) IN prev \cup {Append(s, x) : s \in {p \in prev : Len(p) = n - 1}, x \in S}

Alphabet(d) == CASE d \in Flagged -> {"Args", "Return", "args"}
                 [] d = "deprecated" -> {"r", "two words"}
                 [] d = "allow" -> {"Deprecated", "BrokenDocLink", "All", "Bogus"}
                 [] OTHER -> {"x", "two words", "Args"}
\* (foreign directives whose last segment is spelled like one of the compiler's own are foreign all the same: kept verbatim)
Dirs == {"compress", "slicedFormat", "deprecated", "allow", "cs::attr", "cs::deprecated", "rust::allow", "a::b::slicedFormat", "java::oneway", "cpp::compress"}
OpShapes == {"operation", "operation_streamparam", "operation_ret", "operation_retstream", "operation_rettuple", "operation_rettuplestream"}
Places(d) == IF d \in Flagged THEN OpShapes ELSE {"operation", "struct", "field", "enumerator"}
\* deprecated takes one argument at most, the alphabets of the others make 3 arguments worth while
Lists(d) == SeqsUpTo(Alphabet(d), IF d = "deprecated" THEN 2 ELSE MaxLen)

Init == /\ dir \in Dirs
        /\ args \in Lists(dir)
        /\ quoted \in BOOLEAN                      \* bare words where the argument allows it, or string literals throughout
        /\ parens \in BOOLEAN                      \* the empty list: `dir` or `dir()`
        /\ (args # <<>> => parens)
        /\ on \in Places(dir)
Next == UNCHANGED <<dir, args, quoted, parens, on>>

Agree == ParseIsMeaning(dir, args)
Emit == PrintT(<<"CASE", ToJson([fam |-> "attrargs", item |-> [dir |-> dir, args |-> args, quoted |-> quoted, parens |-> parens, on |-> on],
                                 violations |-> Codes(dir, args), form |-> Meaning(dir, args)])>>)
\* vacuity
ASSUME \E d \in Dirs : \E a \in Lists(d) : Codes(d, a) # {}
ASSUME \A d \in Dirs : \E a \in Lists(d) : Codes(d, a) = {} /\ a # <<>>
====================================================================================================
