--------------------------------------- MODULE Trace_Pipeline ---------------------------------------
(* Trace validation for C01.  One event per execution of the compiler (library call in an isolated     *)
(* worker, or the binary on real files):                                                             *)
(*  [ev |-> "run", mode, fam, bytes, accepted, errors, warnings, elapsed_ms, cpu_ms, expect,           *)
(*   exit, signal, panicked, timed_out, usage]                                                        *)
(* An event is accepted iff it is the end of a behaviour of Pipeline with no deviation: a verdict      *)
(* whose exit status is Pipeline!ExitStatus for (errors > 0, usage), reached within the time bound.    *)
(* A worker that crashed or hung produces no event at all: the supervisor reports it directly.         *)
EXTENDS Naturals, Sequences, TLC, Json, IOUtils
Rec == ndJsonDeserialize(IOEnv.TRACE)
VARIABLE l

\* the verdict of the pipeline model for a run that recorded errors / was rejected by the option grammar
P(errs, us, mode) == INSTANCE Pipeline WITH pc <- 14, errors <- errs, usage <- us, outcome <- "verdict", Mode <- mode, Dev <- {}

\* 20 s for up to 8 KiB of input, growing linearly with the size above that.  The bound is applied to the CPU time of
\* the run (cpu_ms): it never exceeds the wall-clock time of the single-threaded compiler, so a run over the bound in CPU
\* time is over it in wall-clock time too, and a busy machine cannot push a fast run over it.  (A run that makes no
\* progress without computing is caught by the supervisor's wall-clock limit: timed_out / no event.)
Bound(bytes) == 20000 * (1 + (bytes \div 8192))

LibOk(e) ==
  /\ e.accepted = (e.errors = 0)                                       \* the verdict is carried by error diagnostics
  /\ e.cpu_ms <= Bound(e.bytes)
  /\ (e.expect = "error" => e.errors > 0)                              \* malformed input is reported through error diagnostics
  /\ (e.expect = "ok" => e.errors = 0)
BinOk(e) ==
  /\ e.signal = 0 /\ ~e.panicked /\ ~e.timed_out
  /\ e.exit \in {0, 1, 2}
  /\ e.exit = P(e.errors > 0, e.usage, "bin")!ExitStatus               \* 2 <=> usage error; otherwise 1 <=> errors were reported
  /\ e.cpu_ms <= Bound(e.bytes)
  /\ (e.expect = "error" => e.exit = 1)
  /\ (e.expect = "ok" => e.exit = 0)
  /\ (e.expect = "usage" => e.exit = 2)
EventOk(e) == e.ev = "run" /\ IF e.mode = "lib" THEN LibOk(e) ELSE BinOk(e)

Init == l = 1 /\ TLCSet(1, <<>>)
Step == /\ l <= Len(Rec)
        /\ IF EventOk(Rec[l]) THEN TRUE ELSE TLCSet(1, Append(TLCGet(1), l))
        /\ l' = l + 1
Spec == Init /\ [][Step]_l
Accepted == LET d == TLCGet("stats").diameter  bad == TLCGet(1) IN
            IF d - 1 = Len(Rec) /\ bad = <<>> THEN PrintT(<<"ACCEPTED", Len(Rec)>>)
            ELSE /\ PrintT(<<"REJECTED-COUNT", Len(bad), "of", Len(Rec), "consumed", d - 1>>)
                 /\ \A i \in 1..(IF Len(bad) < 12 THEN Len(bad) ELSE 12) : PrintT(<<"REJECTED", bad[i]>>)
                 /\ FALSE
====================================================================================================
