------------------------------------------ MODULE MC_Wire ------------------------------------------
(* C10: for every (type, value) of the bounded value sets, the model-level format properties hold    *)
(*      and the case [type, value, required bytes | refused] is printed for replay into the real     *)
(*      Encoder/Decoder.                                                                             *)
(* C11: for every (type, byte string) of the bounded sets, Dec is total (TLC evaluates it) and the   *)
(*      case [type, bytes, ok|error, value, consumed] is printed for replay into the real Decoder.   *)
EXTENDS Wire, TLC, Json

CONSTANTS D,          \* neighbourhood of each power of two
          Full16,     \* all 16-bit values of the 16-bit types
          StrLen,     \* maximal string length
          FullLen,    \* byte strings over the full alphabet up to this length
          RepLen,     \* byte strings over the representative alphabet up to this length
          Big         \* container sizes around the width steps of the size prefix (31|32, 63|64, ...)

VARIABLES mode, ty, val, bs
vars == <<mode, ty, val, bs>>

Ks == 0..63
Near == {AddSmall(Pow2Digits(k), d) : k \in Ks, d \in 0..D} \cup {SubSmall(Pow2Digits(k), d) : k \in Ks, d \in 0..D}
Both == Near \cup {Neg(v) : v \in Near}
All8U  == {FromNat(x) : x \in 0..255}
All8S  == {FromInt(x) : x \in (0 - 128)..127}
All16U == IF Full16 THEN {FromNat(x) : x \in 0..65535} ELSE {FromNat(x) : x \in {0, 255, 256, 32767, 32768, 65535}}
All16S == IF Full16 THEN {FromInt(x) : x \in (0 - 32768)..32767} ELSE {FromInt(x) : x \in {0, 0 - 1, 127, 128, 0 - 129, 32767, 0 - 32768}}

CPs == {0, 65, 127, 128, 2047, 2048, 55295, 57344, 65535, 65536, 1114111}
SeqsOver(S, n) == UNION {[1..m -> S] : m \in 0..n}
Strings == SeqsOver(CPs, StrLen)
U8(x) == FromNat(x)
\* dictionaries are sequences of [k, v] pairs with strictly increasing keys (the iteration order of BTreeMap)
DictsOver(keys, vals) == {<<>>} \cup {<<[k |-> keys[1], v |-> a]>> : a \in vals}
                         \cup {<<[k |-> keys[1], v |-> a], [k |-> keys[2], v |-> b]>> : a \in vals, b \in vals}
                         \cup {<<[k |-> keys[2], v |-> a], [k |-> keys[3], v |-> b]>> : a \in vals, b \in vals}
                         \cup {<<[k |-> keys[1], v |-> a], [k |-> keys[2], v |-> b], [k |-> keys[3], v |-> a]>> : a \in vals, b \in vals}

Values(name) ==
  CASE name = "bool" -> BOOLEAN
    [] name = "u8"  -> All8U [] name = "i8" -> All8S
    [] name = "u16" -> All16U [] name = "i16" -> All16S
    [] name \in {"u32", "f32"} -> {v \in Near : FitsUnsigned(v, 4)}
    [] name = "i32" -> {v \in Both : FitsSigned(v, 4)}
    [] name \in {"u64", "f64"} -> Near
    [] name = "i64" -> Both
    [] name = "varint32" -> {v \in Both : FitsSigned(v, 4)}
    [] name = "varint62" -> Both
    [] name = "varuint32" -> {v \in Near : FitsUnsigned(v, 4)}
    [] name \in {"varuint62", "size"} -> Near
    [] name = "string" -> Strings
    [] name = "seq_u8" -> SeqsOver({U8(0), U8(255)}, 3)
    [] name = "seq_bool" -> SeqsOver(BOOLEAN, 3)
    [] name = "seq_i16" -> SeqsOver({FromInt(0 - 1), FromInt(256)}, 3)
    [] name = "seq_string" -> SeqsOver({<<>>, <<65, 8364>>, <<1114111>>}, 2)
    [] name = "seq_seq_u8" -> SeqsOver({<<>>, <<U8(0)>>, <<U8(1), U8(2)>>}, 2)
    [] name = "seq_seq_seq_bool" -> SeqsOver({<<>>, <<<<>>>>, <<<<TRUE>>, <<FALSE, TRUE>>>>}, 2)
    [] name \in {"dict_u8_u8", "hdict_u8_u8"} -> DictsOver(<<U8(0), U8(7), U8(255)>>, {U8(1), U8(2)})
    [] name = "dict_string_bool" -> DictsOver(<<<<>>, <<65>>, <<66, 8364>>>>, BOOLEAN)
    [] name = "dict_u8_seq_u8" -> DictsOver(<<U8(0), U8(7), U8(255)>>, {<<>>, <<U8(9), U8(9)>>})
    [] name = "dict_u8_dict_u8_bool" -> DictsOver(<<U8(0), U8(7), U8(255)>>, {<<>>, <<[k |-> U8(3), v |-> TRUE]>>})

EncodableNames == TypeNames \ {"tagged"}

\* containers whose size lies at a step of the size prefix (one byte holds 0..63, two bytes 64..16383; a prefix read or
\* written as a signed number changes at 32 and 8192): the elements are cheap, the count is the point
BigNames == {"seq_u8", "seq_bool", "string", "seq_string", "dict_u8_u8", "hdict_u8_u8", "dict_string_bool", "seq_seq_u8"}
BigValues(name, n) ==
  CASE name = "seq_u8" -> {[i \in 1..n |-> U8(i % 256)]}
    [] name = "seq_bool" -> {[i \in 1..n |-> i % 2 = 0]}
    [] name = "string" -> {[i \in 1..n |-> 97 + (i % 26)], [i \in 1..n |-> IF i % 7 = 0 THEN 8364 ELSE 65 + (i % 26)]}
    [] name = "seq_string" -> {[i \in 1..n |-> IF i % 2 = 0 THEN <<>> ELSE <<65>>]}
    [] name = "seq_seq_u8" -> {[i \in 1..n |-> IF i % 3 = 0 THEN <<U8(i % 256)>> ELSE <<>>]}
    [] name \in {"dict_u8_u8", "hdict_u8_u8"} -> {[i \in 1..n |-> [k |-> U8(i - 1), v |-> U8(i % 3)]]}
    [] name = "dict_string_bool" -> {[i \in 1..n |-> [k |-> <<64 + i>>, v |-> i % 2 = 0]]}
InitBigValues == /\ mode = "value"
                 /\ ty \in BigNames
                 /\ \E n \in Big : val \in BigValues(ty, n)
                 /\ bs = <<>>

InitValues == /\ mode = "value"
              /\ ty \in EncodableNames
              /\ val \in Values(ty)
              /\ bs = <<>>

\* the four width codes, bool edges, UTF-8 lead / continuation / illegal bytes, the tag-end marker, max
RepBytes == {0, 1, 2, 3, 4, 5, 127, 128, 191, 194, 224, 244, 252, 255}
InitBytes == /\ mode = "bytes"
             /\ ty \in TypeNames
             /\ val = 0
             /\ bs \in SeqsOver(0..255, FullLen) \cup SeqsOver(RepBytes, RepLen)

T0(name) == TypeOf(name)
\* every truncation and every single-byte substitution (by the representative alphabet) of a valid encoding
Truncations(e) == {SubSeq(e, 1, n) : n \in 0..(Len(e) - 1)}
Substitutions(e) == {[e EXCEPT ![i] = b] : i \in 1..Len(e), b \in RepBytes}
InitMut == /\ mode = "bytes"
           /\ ty \in EncodableNames
           /\ val = 0
           /\ \E v \in Values(ty) : LET e == Enc(T0(ty), v) IN
                                      e.ok /\ bs \in Truncations(e.bytes) \cup Substitutions(e.bytes)

\* the same for the big containers: a defect anywhere in a long element list (a check that covers only part of it) shows
BigSubst == {0, 128, 191, 255}
InitBigMut == /\ mode = "bytes"
              /\ ty \in BigNames
              /\ val = 0
              /\ \E n \in Big : \E v \in BigValues(ty, n) : LET e == Enc(T0(ty), v) IN
                    e.ok /\ bs \in Truncations(e.bytes) \cup {[e.bytes EXCEPT ![i] = b] : i \in 1..Len(e.bytes), b \in BigSubst}

\* dictionaries with repeated keys anywhere among the announced entries, with one more entry behind them (bytes that are not the
\* dictionary's): a repeated key is refused however the entries go on
DupKeys == {7, 9, 200}
InitDupKeys == /\ mode = "bytes" /\ ty \in {"dict_u8_u8", "hdict_u8_u8"} /\ val = 0
               /\ \E n \in 2..3 : \E ks \in [1..(n + 1) -> DupKeys] :
                     bs = EncVarUInt(FromNat(n)).bytes \o [j \in 1..(2 * (n + 1)) |-> IF j % 2 = 1 THEN ks[(j + 1) \div 2] ELSE j]

\* sizes the input merely announces: a container whose count / length prefix is 2^k, followed by 0..2 bytes
Containers == {n \in TypeNames : TypeOf(n).k \in {"string", "seq", "dict"}}
InitAnnounce == /\ mode = "bytes"
                /\ ty \in Containers
                /\ val = 0
                /\ \E k \in 0..61, f \in {<<>>, <<1>>, <<1, 1>>, <<0, 0, 0, 0>>} : bs = EncVarUInt(Pow2Digits(k)).bytes \o f

\* tagged-field streams for Decoder::skip_tagged_fields: a tag (any variable-width integer of the value sets, so also
\* 8-byte tags outside the 32-bit range, which must be refused), a size, that many bytes, then an end marker or nothing
InitTagged == /\ mode = "bytes" /\ ty = "tagged" /\ val = 0
              /\ \E tg \in {v \in Both : EncVarInt(v).ok}, sz \in 0..2, tail \in {<<>>, <<252>>, <<253, 255>>, <<4, 0, 252>>} :
                    bs = EncVarInt(tg).bytes \o EncVarUInt(FromNat(sz)).bytes \o [j \in 1..sz |-> 170] \o tail

Next == UNCHANGED vars
Spec == InitValues /\ [][Next]_vars

T == TypeOf(ty)
IsVarU == ty \in {"varuint32", "varuint62", "size"}
IsVarS == ty \in {"varint32", "varint62"}

\* ---- C10, model level
RoundTripHolds == mode = "value" => RoundTrip(T, val)
ShortestWidth  == mode = "value" => /\ IsVarU => ShortestU(val)
                                    /\ IsVarS => ShortestS(val)
OnlyVarRefused == mode = "value" /\ ~IsVarU /\ ~IsVarS => Enc(T, val).ok
EmitValue == mode = "value" => PrintT(<<"CASE", ToJson([type |-> ty, v |-> val, enc |-> Enc(T, val)])>>)

\* ---- C11, model level: totality and prefix consumption
DecResult == Dec(T, bs, 1)
Total == mode = "bytes" => LET r == DecResult IN
                           IF r.ok THEN r.pos \in 1..(Len(bs) + 1) ELSE r.err \in {"Eob", "IllegalBool", "InvalidUtf8", "OutOfRange", "DuplicateKey"}
\* what was decoded re-encodes to the consumed prefix whenever the encoding is canonical... it need not be
\* (a 2-byte varint holding 1 is legal input), so only the weaker law is stated: the decoded value is encodable.
DecodedIsEncodable == mode = "bytes" /\ ty # "tagged" => LET r == DecResult IN r.ok => Enc(T, r.v).ok
EmitBytes == mode = "bytes" => LET r == DecResult IN
               PrintT(<<"CASE", ToJson([type |-> ty, bytes |-> bs, ok |-> r.ok,
                                        v |-> (IF r.ok THEN r.v ELSE 0), consumed |-> (IF r.ok THEN r.pos - 1 ELSE 0),
                                        err |-> (IF r.ok THEN "" ELSE r.err)])>>)
====================================================================================================
