INIT Init
NEXT Next
CONSTANT MaxChain = 4
INVARIANTS Transparent Emit
CHECK_DEADLOCK FALSE
