"""C19 - generator specifications parse back to the path and arguments that were written.

(M) MC_Options: the character machine of plugin_parser (one action per match arm) agrees with the declarative
    reference on every string up to MaxLen over {a, space, ',', '=', backslash}; every rendered (path, args) pair over
    small components parses back to what was written.
(G) every one of those strings / rendered pairs is passed to SliceOptions::try_parse_from (alone and as the second of
    two -G options) and the result must equal the specification's.
(T) random Unicode paths / argument lists rendered with the escaping function, and random raw strings, are parsed by
    the real code; Trace_Options checks every recorded call against Options!Machine, Options!Ref and the written pair.
"""
import json
import os

RULE = ("cases = every string <= MaxLen over {a,space,',','=',backslash} and every rendered (path,args) over small "
        "components, enumerated by TLC; distinct = distinct rendered -G values; non-trivial = contains a separator, "
        "an escape or trimmable white space")
ASSUMPTIONS = ["clap passes the value after -G / --generator= to the value parser unchanged",
               "TLC 1.8.0 and the CommunityModules Json/IOUtils modules"]
ARMS = ["EscapeNext", "CommaStartsArg", "TrailingCommaIgnored", "EqualsInPath", "KeyToValue", "SecondEqualsRejected",
        "PushChar"]


def signature(f):
    d = f.get("detail") or {}
    s = "".join((f.get("case") or {}).get("s", ["?"])) if isinstance(f.get("case"), dict) else "?"
    return "options %s %s s=<%s>" % (d.get("kind"), d.get("what", ""), s)


def run(ctx):
    t = ctx.tier
    ctx.tlc("MC_Options", "MC_Options_" + t, replay="options", required_actions=ARMS)
    ctx.tlc("MC_Options", "MC_OptionsRT_" + t, replay="options",
            required_actions=[a for a in ARMS if a not in ("EqualsInPath", "SecondEqualsRejected")])
    n = 3000 if ctx.quick else 60000
    ctx.record_and_validate("options", "Trace_Options", ["n=%d" % n])
    ctx.exhaustive = True  # the (M)/(G) families are enumerated completely; the (T) part is random on top
