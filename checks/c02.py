"""C02 - source-to-AST fidelity: the AST says exactly what the source says, whatever the layout.

(M) MC_Syntax: the construction layer keeps the parser's own state (scope stack, previous enumerator value) and checks
    ScopeBalanced and PrevEnumResetAtEnumEnd in every state of every behaviour.
(G) simulate-mode programs: every finished behaviour of MC_Syntax is a well-formed multi-file program (every definition
    kind, members, parameters, return members, modifiers, tags, optionality, explicit / implicit enumerator values in
    decimal / hex / binary / underscore spellings at range boundaries, attributes with escaped string arguments and
    keyword directives, nested type expressions, keyword-named identifiers written with a backslash, qualified and
    global references) printed token by token with pseudo-random separators (blanks, tabs, CRLF, line breaks, block /
    line / four-slash comments, a wide Unicode blank, touching tokens where that cannot fuse them) and optional commas.
    The harness concatenates, compiles and compares the projected AST structurally with the program the model built
    (aliases replaced by what they finally name, attributes accumulated along the chain); no error may be reported.
"""
RULE = ("cases = finished behaviours of MC_Syntax (TLC simulator, seeded); distinct = distinct rendered program texts; "
        "non-trivial = more than 12 tokens")
ASSUMPTIONS = ["programs are sampled, not enumerated (TLC simulator); the micro-families of DESIGN.md 5/C02 (b) are covered "
               "only as far as the random walk reaches them"]


def signature(f):
    d = f.get("detail") or {}
    return "%s %s %s" % ("syntax" if f.get("family") in (None, "syntax") else f.get("family"), d.get("kind"), d.get("what", ""))


def run(ctx):
    n = 600 if ctx.quick else 6000
    ctx.tlc("MC_Syntax", "MC_Syntax_sim", replay="syntax", simulate={"num": n, "depth": 500, "procs": 12},
            label="MC_Syntax_sim", timeout=7200)
    # bounded-exhaustive micro-family: every argument list <= 3 of the known directives (and a foreign one) x bare / quoted x
    # element: Attributes!ParseIsMeaning in TLC, and the attribute the compiled AST shows is the form the list means
    ctx.tlc("MC_AttrArgs", "MC_AttrArgs", replay="rules", coverage=False)
    # chains of aliases across modules (the family of C03): the type a member ends up with is the type the source names
    ctx.tlc("MC_AliasChain", "MC_AliasChain_" + ctx.tier, replay="aliaschain", coverage=False)
    # name collisions across scopes and files (the arrangements of C15): identifiers that collide across scopes (a definition, a member and a module with one scoped name): the same AST in every file order
    ctx.tlc("MC_Collide", "MC_Collide", replay="repro", coverage=False)
    trace = ctx.collect_events("repro")
    ctx.validate_events("Trace_Repro", trace)
