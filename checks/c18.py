"""C18 - a failing generator is reported, never fatal, and never half-trusted.

(M) MC_Driver (faults): on every assignment of the 19-behaviour catalogue to 2 (thorough: 3 of 8) generators x 5 output
    directory states the operational driver model (bounded pipes, concurrent generators) meets DriverSpec!Expected,
    EveryFailureNamesItsGenerator, OtherGeneratorsHonoured, FilesOnlyFromDecodedReply, ExitNonZeroIffError, is deadlock
    free and terminates (liveness).  MC_Driver_replyfirst documents the protocol assumption: a generator that replies
    before reading deadlocks the model.
(G) fault enumeration: MC_DriverGen prints every assignment for 1-2 generators x 5 output directory states (1 900 runs;
    thorough: 1-3 generators of 10 behaviours) and a valid reply cut at every byte; each is run with the real binary and
    fake generators (missing, not executable, exit 1/255, SIGKILL, SIGSEGV, stderr, exit without reading, truncated,
    invalid bool / UTF-8 / level, huge size, empty).
(T) one event per run is validated by Trace_Driver against DriverSpec!Expected: exit status, one error naming each
    failing generator and only those, every startable generator invoked, identical request + own arguments, files only
    from decoded replies, identical pre-existing file keeps inode and mtime, no stray file, nothing foreign on stderr,
    no crash, <= 20 s.
"""
LEVEL = "fault_enumeration"
RULE = ("cases = fault assignments enumerated by TLC from the behaviour catalogue x output directory states; distinct = "
        "distinct scenarios; non-trivial = at least one startable generator")
ASSUMPTIONS = ["generators read the whole request before replying (protocol assumption written in main.rs)",
               "the sandbox runs as root: 'not writable' is modelled by an output path below a regular file",
               "a generator's own stderr text is forwarded verbatim and is not counted as foreign output"]
ACTIONS = ["SpawnOk", "SpawnFails", "WriteChunk", "WriteEpipe", "WriteDone", "CloseStdin", "Drain", "Judge", "SkipFailed",
           "GRead", "GReply", "GExit"]


def signature(f):
    d = f.get("detail") or {}
    ev = d.get("event") or {}
    if d.get("kind") == "trace-rejected":
        o = ev.get("obs") or {}
        return "driver run-rejected gens=%s outdir=%s exit=%s crashed=%s" % (
            ",".join(ev.get("gens") or []), ev.get("outdir"), o.get("exit"), o.get("crashed"))
    return "driver %s" % d.get("kind")


def run(ctx):
    t = ctx.tier
    ctx.tlc("MC_Driver", "MC_Driver_faults_" + t, required_actions=ACTIONS)
    ctx.tlc("MC_Driver", "MC_Driver_replyfirst", must_pass=False, label="MC_Driver_replyfirst(assumption)")
    ctx.tlc("MC_DriverGen", "MC_DriverGen_faults_" + t, replay="driver", coverage=False, case_timeout_ms=60000)
    ctx.tlc("MC_DriverGen", "MC_DriverGen_trunc", replay="driver", coverage=False, case_timeout_ms=60000)
    ctx.tlc("MC_DriverGen", "MC_DriverGen_flood", replay="driver", coverage=False, case_timeout_ms=60000)
    trace = ctx.collect_events("driver")
    ctx.validate_events("Trace_Driver", trace)
