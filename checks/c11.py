"""C11 - decoding untrusted bytes fails cleanly: no crash, no over-read, cost governed by the input length.

(M) MC_Wire (bytes): Wire!Dec is total on every byte string of the bounded sets and every decoded value is encodable.
(G) for each of 29 decodable types: every byte string over the full alphabet up to length 1 (quick) / 2 (thorough) and
    over a 14-byte representative alphabet up to length 3 / 4; every truncation and every single-byte substitution of
    the valid encodings of C10's values; container prefixes announcing 2^k elements.  Each case is decoded twice with
    different poison beyond the logical end; class, value and bytes consumed must match the model, Display of every
    error must return, and the largest single allocation granted must stay below 64 * len + 4096 bytes.
(T) seeded random / mutated strings up to 64 bytes are decoded by the real code, recorded, and validated by
    Trace_Decoder against Wire!Dec.
"""
RULE = ("cases = (type, byte string) pairs enumerated by TLC (bounded-exhaustive alphabets, mutations of valid "
        "encodings, announced sizes) plus recorded random strings; distinct = distinct (type, bytes); non-trivial = "
        "non-empty input")
ASSUMPTIONS = ["only the class ok / error is compared, not the kind of error (an announced size beyond the buffer may "
               "legitimately surface as end-of-buffer or as a refused allocation)",
               "the generator-reply types are private to the binary and are exercised through C18",
               "cost is monitored, not proved: largest granted allocation <= 64*len+4096 bytes, <= 2 s per decode"]


def signature(f):
    d = f.get("detail") or {}
    c = f.get("case") or {}
    return "wire %s %s type=%s" % (d.get("kind"), d.get("what", ""), c.get("type", c.get("record", "?")))


def run(ctx):
    t = ctx.tier
    ctx.tlc("MC_Wire", "MC_Wire_bytes_" + t, replay="wire")
    ctx.tlc("MC_Wire", "MC_Wire_mut_" + t, replay="wire")
    # every truncation and substitution of longer containers (9 / 17 / 33 / 64 elements)
    ctx.tlc("MC_Wire", "MC_Wire_bigmut_" + t, replay="wire")
    ctx.tlc("MC_Wire", "MC_Wire_dupkeys", replay="wire")
    ctx.tlc("MC_Wire", "MC_Wire_announce_" + t, replay="wire")
    ctx.tlc("MC_Wire", "MC_Wire_tagged_" + t, replay="wire")
    n = 10000 if ctx.quick else 300000
    ctx.record_and_validate("decoder", "Trace_Wire", ["n=%d" % n], label="Trace_Decoder")
    # the generator-reply types are private to the binary: every malformed reply of the catalogue (out-of-range bool,
    # undecodable strings field by field, bad level, absurd size, truncations - also a valid reply cut at every byte)
    # reaches them through a fake generator, and must become a diagnostic naming the generator (Trace_Driver)
    ctx.tlc("MC_DriverGen", "MC_DriverGen_replies", replay="driver", coverage=False, case_timeout_ms=60000)
    ctx.tlc("MC_DriverGen", "MC_DriverGen_trunc", replay="driver", coverage=False, case_timeout_ms=60000)
    trace = ctx.collect_events("driver")
    ctx.validate_events("Trace_Driver", trace)
