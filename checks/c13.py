"""C13 - lint suppression silences only the named lints in scope, never errors.

(M) Lints.tla: RefSilenced (the statement: named or All x command line / file of the lint / the element it concerns or
    an enclosing definition) vs OpSilenced (the three stages of into_updated with the entity each lint's recorded
    scope names and its parents): RefEqOp on every site x placement x argument list with the deviation flags off;
    MC_Lints_asbuilt documents the two deviations of the pinned tree (flags on => RefEqOp violated).
(G) 15 lint sites (Deprecated via field / nested / parameter / return / alias / base type, BrokenDocLink,
    IncorrectDocComment, MalformedDocComment on definitions, members, operations, enumerators, DuplicateFile) x 9
    placements (none, --allow, lower-cased --allow, file attribute of the lint's file / of another file, the element
    itself, its parent, its grandparent, an unrelated sibling) x 5 argument lists; each case is compiled twice on real
    files, with options produced by the real command-line parser: level of the target lint = Allowed iff silenced; all
    other diagnostics (code, message, location, order, level), the error count and the AST (apart from the allow
    attribute itself) are identical in both runs.
    MC_ManyLints: one program with seven lints of three kinds on four elements (two lints of different kinds share an
    element, and so the scope they record, three times) x up to two (thorough: three) suppressions at nine places
    (command line, file, the elements, a sibling, another file) x six argument sets: TLC checks RefEqOp and
    NonInterference; compiled with and without the suppressions: every lint's level is what the statement says,
    independently of the other lints; the diagnostics and the AST are otherwise identical.
    The same cases (one suppression; thorough: two) through the real binary with a capturing generator: same exit
    status, the generator runs, the request equals the one without suppressions once the allow attributes themselves
    are cut out (and the attribute counts in front of them lowered); with an erroneous file added both runs exit
    non-zero with the same error records and start no generator.
"""
RULE = ("cases = site x placement x arguments enumerated by TLC; distinct = distinct rendered programs + command lines; "
        "non-trivial = a suppression is present")
ASSUMPTIONS = ["one template program per lint site, one program with many lints", "the generator request and the binary's exit status are covered by "
               "C07 / C14 families run with -A lists"]


def signature(f):
    d = f.get("detail") or {}
    c = f.get("case") or {}
    if f.get("family") == "rules":
        return "rules %s %s" % (d.get("kind"), d.get("what", ""))
    if c.get("many"):
        return "lints many %s %s" % (d.get("kind"), d.get("what", ""))
    return "lints %s %s site=%s place=%s" % (d.get("kind"), d.get("what", ""), c.get("site"), c.get("place"))


def run(ctx):
    ctx.tlc("MC_Lints", "MC_Lints", replay="lints", coverage=False)
    # a program with seven lints of three kinds on four elements x up to two (thorough: three) suppressions at nine places
    ctx.tlc("MC_ManyLints", "MC_ManyLints" if ctx.quick else "MC_ManyLints_thorough", replay="lints", coverage=False)
    # the same program through the real binary with a capturing generator: exit status, generator request, errors
    ctx.tlc("MC_ManyLints", "MC_ManyLints_one" if ctx.quick else "MC_ManyLints", replay="lints", coverage=False, env={"VERIF_LINTS_MODE": "request"},
            label="MC_ManyLints(binary: request, exit status, errors)")
    # every argument list <= 3 of the allow attribute (Attributes.tla): an argument that is no lint name is an error whatever else
    # the list names (All included) - a suppression cannot silence an error
    ctx.tlc("MC_AttrArgs", "MC_AttrArgs", replay="rules", coverage=False)
    ctx.tlc("MC_Lints", "MC_Lints_asbuilt", must_pass=False, label="MC_Lints_asbuilt(documents the pinned deviations)", coverage=False)
