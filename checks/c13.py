"""C13 - lint suppression silences only the named lints in scope, never errors.

(M) Lints.tla: RefSilenced (the statement: named or All x command line / file of the lint / the element it concerns or
    an enclosing definition) vs OpSilenced (the three stages of into_updated with the entity each lint's recorded
    scope names and its parents): RefEqOp on every site x placement x argument list with the deviation flags off;
    MC_Lints_asbuilt documents the two deviations of the pinned tree (flags on => RefEqOp violated).
(G) 15 lint sites (Deprecated via field / nested / parameter / return / alias / base type, BrokenDocLink,
    IncorrectDocComment, MalformedDocComment on definitions, members, operations, enumerators, DuplicateFile) x 9
    placements (none, --allow, lower-cased --allow, file attribute of the lint's file / of another file, the element
    itself, its parent, its grandparent, an unrelated sibling) x 5 argument lists; each case is compiled twice on real
    files, with options produced by the real command-line parser: level of the target lint = Allowed iff silenced; all
    other diagnostics (code, message, location, order, level), the error count and the AST (apart from the allow
    attribute itself) are identical in both runs.
"""
RULE = ("cases = site x placement x arguments enumerated by TLC; distinct = distinct rendered programs + command lines; "
        "non-trivial = a suppression is present")
ASSUMPTIONS = ["one template program per lint site", "the generator request and the binary's exit status are covered by "
               "C07 / C14 families run with -A lists"]


def signature(f):
    d = f.get("detail") or {}
    c = f.get("case") or {}
    return "lints %s %s site=%s place=%s" % (d.get("kind"), d.get("what", ""), c.get("site"), c.get("place"))


def run(ctx):
    ctx.tlc("MC_Lints", "MC_Lints", replay="lints", coverage=False)
    ctx.tlc("MC_Lints", "MC_Lints_asbuilt", must_pass=False, label="MC_Lints_asbuilt(documents the pinned deviations)", coverage=False)
