"""C08 - the encoded generator request is decodable and says what the AST says.

(T) trace validation where the trace is the byte stream.  Programs come from the specification's generators
    (MC_Syntax simulate: every definition kind, nested anonymous types, aliases, attributes, several files; MC_DocComment:
    comments with links, @param / @returns / @see on operations of every return arity incl. a return member named like a
    parameter; MC_Rules well-formed items: enumerator values at the extremes of every underlying type, tags 0 and 2^31-1).
    For source / reference splits and argument lists the real binary runs with two capturing generators; per generator
    one event [bytes, files as seen through the library API, args].  Trace_Schema decodes the bytes with the decoder of
    Schema.tla - driven only by CompilerSchema.tla, which tools/gen_schema.py regenerates from slice/Compiler/*.slice on
    every run - requires complete consumption up to and including the arguments, Norm(decoded) = Convert(files) with the
    source / reference split and all orders, numeric ids pointing back to anonymous symbols of the same file, and every
    named id / base / resolved link naming an entity of a transmitted file.
"""
import os
import subprocess
from lib.core import REPO

RULE = ("cases = programs; events = (run, generator) pairs validated by TLC; distinct = distinct program texts; "
        "non-trivial = every program (each is compiled, encoded by the binary and decoded by the specification)")
ASSUMPTIONS = ["variant framing (discriminant, fields, tag end marker) follows definition_types.rs: the codec crate has no variant support to cross-check",
               "numbers of the request are sizes, tags and markers: the decoder refuses values beyond 32 bits",
               "a single return value is documented by the first @returns tag without identifier, a tuple member by the first @returns tag naming it"]


def _diff(x, y, path=""):
    if type(x) is not type(y):
        return [(path, x, y)]
    if isinstance(x, dict):
        out = []
        for k in sorted(set(x) | set(y)):
            if k not in x or k not in y:
                out.append((path + "/" + k, x.get(k), y.get(k)))
            else:
                out += _diff(x[k], y[k], path + "/" + k)
        return out
    if isinstance(x, list):
        if x and y and all(isinstance(e, int) for e in x + y):
            return [] if x == y else [(path, bytes(x).decode(errors="replace"), bytes(y).decode(errors="replace"))]
        if len(x) != len(y):
            return [(path + "#len", len(x), len(y))]
        out = []
        for n, (p, q) in enumerate(zip(x, y)):
            out += _diff(p, q, path + "/%d" % n)
        return out
    return [] if x == y else [(path, x, y)]


def explain(reason):
    """Shortens the verdict TLC printed for a rejected event: for 'files differ' the first differing paths (decoded vs expected)."""
    import json
    try:
        v = json.loads(reason)
        if isinstance(v, str):
            v = json.loads(v)
        if isinstance(v, list) and len(v) >= 3 and isinstance(v[2], list) and len(v[2]) == 2 and isinstance(v[2][0], dict):
            d = _diff(v[2][0], v[2][1])[:3]
            return "%s (file %s): decoded vs expected at %s" % (v[0], v[1], "; ".join("%s: %r vs %r" % (p, str(a)[:80], str(b)[:80]) for p, a, b in d))
        return json.dumps(v)[:600]
    except Exception:
        return reason


def signature(f):
    d = f.get("detail") or {}
    if d.get("kind") == "trace-rejected":
        r = d.get("reason") or ""
        return "request rejected: %s" % r.split(":")[0][:60]
    return "request %s %s" % (d.get("kind"), (d.get("what") or "")[:60])


def run(ctx):
    root = os.path.dirname(os.path.dirname(os.path.abspath(__file__)))
    subprocess.run(["python3", os.path.join(root, "tools", "gen_schema.py"), REPO, os.path.join(root, "spec", "CompilerSchema.tla")], check=True)
    q = ctx.quick
    os.environ["VERIF_REQUEST_SPLITS"] = "2" if q else "4"
    ctx.tlc("MC_Syntax", "MC_Syntax_sim", replay="request", simulate={"num": 96 if q else 1500, "depth": 500, "procs": 12, "seed_offset": 90},
            label="MC_Syntax_sim", timeout=7200)
    ctx.tlc("MC_DocComment", "MC_DocComment_tags1", replay="request", coverage=False)
    os.environ["VERIF_REQUEST_SAMPLE"] = "6" if q else "1"
    ctx.tlc("MC_DocComment", "MC_DocComment_tags2op3", replay="request", coverage=False)
    os.environ["VERIF_REQUEST_SAMPLE"] = "1"
    ctx.tlc("MC_Request", "MC_Request", replay="request", coverage=False)
    os.environ["VERIF_REQUEST_SAMPLE"] = "60" if q else "4"
    ctx.tlc("MC_DocComment", "MC_DocComment_multi", replay="request", coverage=False)
    os.environ["VERIF_REQUEST_SAMPLE"] = "1"
    if not q:
        ctx.tlc("MC_DocComment", "MC_DocComment_links", replay="request", coverage=False)
        ctx.tlc("MC_DocComment", "MC_DocComment_dedent2", replay="request", coverage=False)
    # every legal attribute argument list (MC_AttrArgs: compress / slicedFormat / deprecated / allow / foreign x elements)
    os.environ["VERIF_REQUEST_SAMPLE"] = "4" if q else "1"
    ctx.tlc("MC_AttrArgs", "MC_AttrArgs", replay="request", coverage=False)
    os.environ["VERIF_REQUEST_SAMPLE"] = "40" if q else "4"
    ctx.tlc("MC_Rules", "MC_Rules_enums_quick", replay="request", coverage=False)
    ctx.tlc("MC_Rules", "MC_Rules_members_quick", replay="request", coverage=False)
    os.environ["VERIF_REQUEST_SAMPLE"] = "1"
    trace = ctx.collect_events("request")
    ctx.validate_events("Trace_Schema", trace, parallel=12)
