"""C05 - illegal cycles are always diagnosed; acyclic definitions never are.

(M) MC_Cycles: the depth-first search of cycle_detection.rs as a TLA+ machine (NoEdge / ReportCycle / SkipSeenInStack /
    PushToStack / PopStack / NextRoot) satisfies ErrorIffCycle, EveryCyclicNodeNamed, OnlyCyclicNamed,
    ReportedChainIsPath, StackIsSimplePath and terminates (liveness under weak fairness) on every containment graph
    over 3 (quick) / 4 (thorough) nodes; the alias chain walk and the inheritance closure agree with the transitive
    closure on all functions / relations over N nodes.
(G) MC_CyclesGen prints every containment graph over <= 3 nodes x 7 wrapper forms (uniform and rotated over the
    edges) x struct / enum / alternating kinds x compactness (thorough: all 65 536 graphs over 4 nodes with rotated
    wrappers), every alias function over <= 4 aliases, every base relation over <= 3 (4) interfaces, plus random graphs
    of 6-10 nodes from the simulator; each is rendered (every node also used as dictionary key / value / element /
    alias target / parameter) and compiled in an isolated worker.
(T) one event per compiled program (edges, parsed E032 chains, E019 aliases, acceptance) is validated by Trace_Cycles
    against the reference: error iff cycle, every cyclic node named, only cyclic nodes named, every chain a closed path.
"""
RULE = ("cases = graphs enumerated by TLC (each edge set reached once); distinct = distinct rendered programs; "
        "non-trivial = at least one edge / any alias function")
ASSUMPTIONS = ["E032 chains are read from the diagnostic message (the text after the last ': ', split at ' -> ')",
               "errors other than cycle diagnostics are ignored for acyclic containment graphs (e.g. illegal key types)"]
ACTIONS = ["NoEdge", "ReportCycle", "SkipSeenInStack", "PushToStack", "PopStack", "NextRoot"]


def signature(f):
    d = f.get("detail") or {}
    ev = d.get("event") or {}
    if d.get("kind") == "trace-rejected":
        return "cycles trace-rejected %s" % ev.get("ev")
    c = f.get("case") or {}
    if f.get("family") == "aliaschain":
        return "aliaschain %s %s" % (d.get("kind"), d.get("what", ""))
    return "cycles %s family=%s" % (d.get("kind"), c.get("family"))


def run(ctx):
    t = ctx.tier
    ctx.tlc("MC_Cycles", "MC_Cycles_" + t, required_actions=ACTIONS)
    ctx.tlc("MC_CyclesGen", "MC_CyclesGen_contain_" + t, replay="cycles", coverage=False)
    ctx.tlc("MC_CyclesGen", "MC_CyclesGen_alias_" + t, replay="cycles", coverage=False)
    ctx.tlc("MC_CyclesGen", "MC_CyclesGen_inherit_" + t, replay="cycles", coverage=False, case_timeout_ms=20000)
    # alias chains spread over two modules (every link named bare or qualified, every chain function incl. loops): the loop
    # verdict must not depend on where a link is looked up (the family of C03)
    ctx.tlc("MC_AliasChain", "MC_AliasChain_" + t, replay="aliaschain", coverage=False)
    n = 200 if ctx.quick else 20000
    ctx.tlc("MC_CyclesGen", "MC_CyclesGen_sim", replay="cycles", simulate={"num": n, "depth": 15}, label="MC_CyclesGen_sim")
    trace = ctx.collect_events("cycles")
    ctx.validate_events("Trace_Cycles", trace)
