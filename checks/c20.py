"""C20 - visitor traversal presents every element exactly once, in source order.

(M) Visitor.tla: element trees [cb, id, kids]; reference PreOrder vs the walk as the code performs it (an explicit stack
    of [node, next child] frames, one step per presentation or return); MC_Visitor: on every tree of <= 6 (7) nodes
    PrefixOfReference, ExactlyOnce, ContainersFirst, Complete, termination.
    MC_Syntax: FileTree(file) is the element tree of a generated file and Traversal(file) its reference order - the file, its module, every definition in source order,
    containers before their contents, the type of every field / parameter / return member / alias right after its owner
    followed by the element, key, value, success and failure types nested inside it (aliases: the walk descends into
    what the alias finally names).
(G/T) for every simulate-mode program of MC_Syntax a recording implementation of the public Visitor trait logs one
    event per callback (callback kind + parser-scoped identifier, or the type string for type references); the recorded
    sequence of each file must equal Traversal(file): nothing skipped, nothing twice, nothing from another file.
(T) Trace_Visitor: every recorded walk is an event [f, tree, got]; TLC runs the stack machine of Visitor.tla on the
    model's tree and accepts the walk iff the real callbacks are exactly the machine's presentations, in order, and every
    declared element presented lies in the walked file.
"""
RULE = ("cases = finished behaviours of MC_Syntax (multi-file programs with cross-file references, anonymous types to "
        "depth 3, aliases of anonymous types); distinct = distinct program texts; non-trivial = more than 12 tokens")
ASSUMPTIONS = ["identity of a presented type reference is (owner, position in the owner's resolved type tree); the element "
               "type of an alias is therefore presented under every member typed with that alias (DESIGN.md 5/C20)",
               "base-interface and underlying-type references are not part of the statement and are not expected"]


def signature(f):
    d = f.get("detail") or {}
    return "visit %s %s" % (d.get("kind"), d.get("what", ""))


def run(ctx):
    # (M) the stack machine of Visitor.tla presents exactly the pre-order traversal on every tree of <= 6 (7) nodes
    ctx.tlc("MC_Visitor", "MC_Visitor" if ctx.quick else "MC_Visitor_thorough", workers=4, required_actions=["DoDescend", "DoReturn"])
    n = 600 if ctx.quick else 6000
    ctx.tlc("MC_Syntax", "MC_Syntax_sim", replay="syntax-visit", simulate={"num": n, "depth": 500, "procs": 12, "seed_offset": 20},
            label="MC_Syntax_sim", timeout=7200)
    # alias chains across two modules ending in every kind of type: what a visitor is shown for a field typed by the first alias is
    # the final type and what is nested in it
    ctx.tlc("MC_AliasChain", "MC_AliasChain_" + ctx.tier, replay="aliaschain", coverage=False)
    # two references spelled alike in two modules (C03's arrangements): walking each file shows the type ITS reference designates
    ctx.tlc("MC_TwoRefs", "MC_TwoRefs", replay="scope", coverage=False, env={"VERIF_SCOPE_MODE": "visit"}, label="MC_TwoRefs(visited types)")
    # (T) every recorded walk against the machine run on the model's element tree of the file
    trace = ctx.collect_events("visit")
    ctx.validate_events("Trace_Visitor", trace, parallel=8)
