"""C12 - output targets act as an append-only byte log with safe reservations; input sources never over-read.

(M) MC_Buffers (model config): invariants ReservationsInsideLog / ReservationsDisjoint / NeverPastCap /
    ReservedUntouched and the action properties AppendOnly, FailureChangesNothing, ReservedWriteStaysInside over every
    history of up to 6 operations, sizes 0..3, capacities 0..4, fixed slice and growable target.
(G) every operation path of length <= 4 (quick) / <= 5 (thorough) is printed with the outcome and post-state of every
    step and executed lock-step on SliceOutputTarget (guard-padded arena), VecOutputTarget (clean and dirty spare
    capacity) and SliceInputSource (four API variants).
(T) seeded random histories up to length 200 with sizes up to 4 KiB on the real targets, validated by Trace_Buffers.
"""
RULE = ("paths = every sequence of {write byte, write k, reserve k, write k into reservation r, peek/read k} outcomes "
        "enumerated by TLC up to the tier's length; distinct = distinct (kind, capacity, operation sequence); "
        "non-trivial = at least 2 operations including a failing one, a reserved write or a peek")
ASSUMPTIONS = ["contents of the fixed slice are inspected after the target is dropped; every prefix of a path is a path "
               "of its own, so every intermediate state is inspected",
               "memory-safety defects that leave contents, guards and positions intact are invisible to this check"]
OUT_ACTIONS = ["DoWriteByteOk", "DoWriteByteFail", "DoWriteBytesOk", "DoWriteBytesFail", "DoReserveOk", "DoReserveFail",
               "DoWriteResOk", "DoWriteResFail"]
SRC_ACTIONS = ["DoPeekOk", "DoPeekFail", "DoReadOk", "DoReadFail"]


def run(ctx):
    t = ctx.tier
    ctx.tlc("MC_Buffers", "MC_Buffers_model", required_actions=OUT_ACTIONS)
    ctx.tlc("MC_Buffers", "MC_Buffers_" + t, replay="buffers", required_actions=OUT_ACTIONS)
    ctx.tlc("MC_Sources", "MC_Sources_" + t, replay="buffers", required_actions=SRC_ACTIONS)
    h = 20 if ctx.quick else 600
    ctx.record_and_validate("buffers", "Trace_Buffers", ["histories=%d" % h, "maxlen=200"])
