"""C09 - reported locations point at the right source text.

(M) SliceSyntax: Place threads the cursor of Location (rows and columns in characters, a line break starts a new row)
    through separators and tokens; SpanFacts(el) states what the span of each element must satisfy.  MC_Location:
    the snippet arithmetic of the emitter equals the reference underline on every line of every span (RefEqOp).
(G a) simulate-mode programs of MC_Syntax in pseudo-random layouts (tabs, CRLF, multi-byte comments and strings, a wide
    Unicode blank, touching tokens): for every element path the printer knows - identifiers, type references (incl.
    local attributes and '?'), attributes, tag and enumerator integers: span exactly [first token start, last token
    end]; modules, definitions, fields, parameters, return members, operations, enumerators: span starts at the first
    token of the declaration proper, contains the name, ends on a token of the element; all inside the file, 1-based,
    start <= end.
(G c) snippets: every line <= 4 (thorough 5) over {a, blank, tab, 2-byte, 3-byte} x every start <= end x first row
    number in {1, 9, 100} x LF / CRLF, and spans over 2-3 short lines: gutter width, line numbers, shown text (tabs
    expanded), padding and underline length / caret must be what Location!Snippet says.
"""
RULE = ("cases = simulate-mode programs (each with ~100-400 element paths) and bounded-exhaustive snippet lines x spans; "
        "distinct = distinct rendered inputs; non-trivial = programs > 12 tokens / lines with a tab or non-ASCII character")
ASSUMPTIONS = ["diagnostic spans of rule violations are checked with C04's catalogue, doc-comment parts with C16",
               "columns count characters: a double-width CJK glyph is one column, as the statement says"]


def signature(f):
    d = f.get("detail") or {}
    return "spans %s %s" % (d.get("kind"), d.get("what", ""))


def run(ctx):
    n = 180 if ctx.quick else 10000
    ctx.tlc("MC_Syntax", "MC_Syntax_sim", replay="syntax-spans", simulate={"num": n, "depth": 500, "procs": 6 if ctx.quick else 12, "seed_offset": 40},
            label="MC_Syntax_sim", timeout=7200)
    ctx.tlc("MC_Location", "MC_Location_" + ctx.tier, replay="snippet", coverage=False)
    ctx.tlc("MC_Location", "MC_Location_multi", replay="snippet", coverage=False)
