"""C09 - reported locations point at the right source text.

(M) SliceSyntax: Place threads the cursor of Location (rows and columns in characters, a line break starts a new row)
    through separators and tokens; SpanFacts(el) states what the span of each element must satisfy.  MC_Location:
    the snippet arithmetic of the emitter equals the reference underline on every line of every span (RefEqOp).
(G a) simulate-mode programs of MC_Syntax in pseudo-random layouts (tabs, CRLF, multi-byte comments and strings, a wide
    Unicode blank, touching tokens): for every element path the printer knows - identifiers, type references (incl.
    local attributes and '?'), attributes, tag and enumerator integers: span exactly [first token start, last token
    end]; modules, definitions, fields, parameters, return members, operations, enumerators: span starts at the first
    token of the declaration proper, contains the name, ends on a token of the element; all inside the file, 1-based,
    start <= end.
(G c) snippets: every line <= 4 (thorough 5) over {a, blank, tab, 2-byte, 3-byte} x every start <= end x first row
    number in {1, 9, 100} x LF / CRLF, and spans over 2-3 short lines: gutter width, line numbers, shown text (tabs
    expanded), padding and underline length / caret must be what Location!Snippet says.
(G c') MC_Notes: a diagnostic with a span in one of two files and up to two notes, each without a span or with a span
    in either file (4 spans per line): one snippet for the diagnostic and one per spanned note, in order; each under a
    location line naming its own file, row and column and showing the line of THAT file with Location!Snippet's geometry.
(G d) doc comments (the comment families of C16: indentation incl. a wide Unicode blank x content kinds incl. inline links,
    block tags with inline and continuation messages, link targets, the malformed catalogue): the comment, its overview,
    every tag, tag message and inline link lie within the comment's '///' lines (columns up to one past the end of their
    line), tags start at their '@', an inline link's span covers exactly the tag, every identifier written in a comment
    (@param / @returns names, unresolved link targets) is covered exactly, the comment ends before the declaration it
    documents, and every comment lint points into a comment's lines.
"""
RULE = ("cases = simulate-mode programs (each with ~100-400 element paths) and bounded-exhaustive snippet lines x spans; "
        "distinct = distinct rendered inputs; non-trivial = programs > 12 tokens / lines with a tab or non-ASCII character")
ASSUMPTIONS = ["diagnostic spans of rule violations are checked with C04's catalogue",
               "where in its first line a doc comment's own span starts is not fixed by the statement (only: within the comment's lines)",
               "columns count characters: a double-width CJK glyph is one column, as the statement says"]


def signature(f):
    d = f.get("detail") or {}
    return "spans %s %s" % (d.get("kind"), d.get("what", ""))


def run(ctx):
    n = 480 if ctx.quick else 5000
    ctx.tlc("MC_Syntax", "MC_Syntax_sim", replay="syntax-spans", simulate={"num": n, "depth": 500, "procs": 12, "seed_offset": 40},
            label="MC_Syntax_sim", timeout=7200)
    ctx.tlc("MC_Location", "MC_Location_" + ctx.tier, replay="snippet", coverage=False)
    ctx.tlc("MC_Location", "MC_Location_multi", replay="snippet", coverage=False)
    ctx.tlc("MC_Notes", "MC_Notes", replay="snippet-notes", coverage=False)
    # a single return value / a parameter in every form (plain, streamed, tagged, both) x four kinds of gaps: the span from the text
    ctx.tlc("MC_RetSpans", "MC_RetSpans", replay="rules", coverage=False)
    # (G d) doc comments: the families of C16, looked at for locations only
    spans_only = {"VERIF_DOC_SPANS": "only"}
    for cfg in ("dedent2", "dedent3" if ctx.quick else "dedent3all", "tags1", "tags2", "links", "malformed"):
        ctx.tlc("MC_DocComment", "MC_DocComment_" + cfg, replay="doccomment", coverage=False, env=spans_only, label="MC_DocComment_%s(spans)" % cfg)
