"""C14 - emitted diagnostics are complete, well-formed and match the totals.

(M) MC_Emitter: the emission loop (SkipAllowed | EmitOne per diagnostic) produces exactly the non-suppressed
    diagnostics, once each, in order; errors are never suppressed; suppressed lints leave no trace - on every list of
    <= 3 (thorough: 4) diagnostics over 10 shapes x 4 --allow lists x {human, json} x colour.
(G) each list is built through the public API (Diagnostic::new / set_span / add_note, Diagnostics, into_updated) and
    emitted into memory; parsed records (JSON: exactly five keys per line; human: header / location / notes), totals,
    and the absence of escape sequences with colours disabled are compared with the model.  Messages contain quotes,
    backslashes, control characters, a line break and non-ASCII text; the file name contains a space and non-ASCII.
(T) the binary on six template programs x format x --disable-color (with CLICOLOR_FORCE=1) x 4 -A lists: Trace_Emitter
    checks stderr records = the library's non-suppressed diagnostics for the same input, summary counts, no summary in
    JSON, exit status, no escape sequence with --disable-color.
"""
RULE = ("cases = diagnostic lists enumerated by TLC x allow list x format x colour, plus binary runs; distinct = distinct "
        "cases; non-trivial = at least two diagnostics / a program with diagnostics")
ASSUMPTIONS = ["JSON well-formedness is decided by serde_json parsing each line",
               "in the binary runs the library's own diagnostics for the same input are the reference list (C13 decides "
               "which of them are suppressed)"]


def signature(f):
    d = f.get("detail") or {}
    ev = d.get("event") or {}
    if d.get("kind") == "trace-rejected":
        return "emitbin run-rejected prog=%s format=%s" % (ev.get("prog"), ev.get("format"))
    if (f.get("case") or {}).get("many"):
        return "emitter many-lints %s %s" % (d.get("kind"), d.get("what", "")[:80])
    return "emitter %s %s" % (d.get("kind"), d.get("what", ""))


def run(ctx):
    ctx.tlc("MC_Emitter", "MC_Emitter_" + ctx.tier, replay="emitter", required_actions=["DoSkipAllowed", "DoEmitOne"])
    ctx.tlc("MC_EmitBin", "MC_EmitBin", replay="emitbin", coverage=False)
    # the many-lints program of C13 (seven lints, three kinds, suppressions at nine places): what is written in both formats
    # is exactly the lints the model says are not suppressed, once each, in recorded order
    ctx.tlc("MC_ManyLints", "MC_ManyLints_one" if ctx.quick else "MC_ManyLints", replay="lints", coverage=False, env={"VERIF_LINTS_MODE": "emit"}, label="MC_ManyLints(emitted)")
    trace = ctx.collect_events("emitbin")
    ctx.validate_events("Trace_Emitter", trace)
