"""C06 - conditional compilation selects exactly the right lines, in place.

(M) MC_Preproc: the file grows one line at a time and the reference stack machine (one action per line form) reacts to
    each line; in every state the operational semantics (lexer modes, tree parse with the LALRPOP expression grammar,
    process_nodes) must give the reference's verdict (RefEqOp), ill-formed files are errors, #define/#undef only act
    in selected regions.  Expression family: grammar-shaped parse = declarative fold for every token sequence and
    every valuation.
(G) every state is a case: rendered (three layout styles: plain / indented '#', '# if', trailing comments / tabs and
    CRLF), compiled together with a second file; expected: surviving probes with their (row, col), positions of the
    Deprecated warnings on surviving lines, E002 for ill-formed files, second file sees only the -D symbols.
    quick: all files <= 4 lines over 14 line forms x 4 -D sets, all well-formed prefixes <= 6 lines (nesting <= 2),
    all expression token sequences <= 4 x 8 valuations, 300 random files up to 40 lines (nesting <= 5).
"""
RULE = ("cases = every reachable state of MC_Preproc (a file + -D set) within the tier's bounds plus simulate-mode "
        "files; distinct = distinct (rendered file text, -D set); non-trivial = contains a conditional or a malformed "
        "directive")
ASSUMPTIONS = ["a probe's selection is observed through CompilationState.files[0].contents and its span, a diagnostic's "
               "position through the Deprecated warning attached to a probe's member type",
               "the number of E002 diagnostics is not compared (error recovery is not modelled step by step)"]
TAGS = ["src", "define", "undef", "if", "elif", "else", "endif", "ill-formed", "well-formed"]
ACTIONS = ["SrcLine", "DefineLine", "UndefLine", "IfLine", "ElifLine", "ElseLine", "EndifLine"]


def signature(f):
    d = f.get("detail") or {}
    return "preproc %s %s" % (d.get("kind"), d.get("what", ""))


def run(ctx):
    t = ctx.tier
    # per-action coverage triples TLC's run time on this model: the quick tier checks vacuity on the replayed cases
    # (tags = line forms present), the thorough tier also on TLC's per-action counts
    cov = not ctx.quick
    ctx.tlc("MC_Preproc", "MC_Preproc_" + t, replay="preproc", coverage=cov, required_tags=TAGS + ["bad", "blank"],
            required_actions=(ACTIONS + ["BadLine", "BlankLine"]) if cov else ())
    ctx.tlc("MC_Preproc", "MC_Preproc_wf_" + t, replay="preproc", coverage=cov, required_tags=TAGS,
            required_actions=ACTIONS if cov else ())
    ctx.tlc("MC_Preproc", "MC_Preproc_expr_" + t, replay="preproc", coverage=False, required_tags=["ill-formed", "well-formed"])
    # a doc comment whose lines are separated by directives / unselected blocks: its diagnostics keep their rows
    ctx.tlc("MC_DocSplit", "MC_DocSplit", replay="preproc", coverage=False)
    # compound groups in parentheses, negated, nested two deep, alone or as an operand (up to 17 tokens)
    ctx.tlc("MC_Preproc", "MC_Preproc_deep", replay="preproc", coverage=False)
    n = 300 if ctx.quick else 20000
    ctx.tlc("MC_Preproc", "MC_Preproc_sim", replay="preproc", simulate={"num": n, "depth": 41}, label="MC_Preproc_sim")
    ctx.tlc("MC_Preproc", "MC_Preproc_simbad", replay="preproc", simulate={"num": n, "depth": 26, "seed_offset": 7},
            label="MC_Preproc_simbad")
