"""C07 - code generation happens only after an error-free compilation (and not with --dry-run).

(M) MC_Driver (gating): the driver as a TLA+ machine - compiler process + generator processes + bounded pipes - meets
    DriverSpec!Expected and the invariants GeneratorsOnlyAfterCleanCompile, DryRunMeansNoGenerators,
    WarningsDoNotBlock, ExitNonZeroIffError on every scenario (9 compile classes x dry-run x output directory x
    generator pairs), is deadlock free and terminates.
(G) MC_DriverGen (gating): 720 scenarios (class x file holding the defect x --dry-run x -A All x -O x 5 generator lists)
    are executed with the real binary and fake generators.
(T) one event per run (generators started, request captured, errors naming generators, files, exit status, stderr) is
    validated by Trace_Driver against DriverSpec!Expected.
"""
RULE = ("cases = scenarios enumerated by TLC; distinct = distinct (scenario, rendered command line); non-trivial = at "
        "least one startable generator")
ASSUMPTIONS = ["generators read the whole request before replying (protocol assumption written in main.rs; the model "
               "shows the deadlock otherwise)", "the sandbox runs as root: 'unusable output directory' is a path below a regular file"]
ACTIONS = ["Compile", "SpawnOk", "SpawnFails", "WriteChunk", "WriteDone", "SpawnDone", "CloseStdin", "Drain", "Judge",
           "SkipFailed", "CollectDone", "EmitAndExit", "GRead", "GReply", "GExit"]


def signature(f):
    d = f.get("detail") or {}
    ev = d.get("event") or {}
    if d.get("kind") == "trace-rejected":
        o = ev.get("obs") or {}
        return "driver run-rejected cls=%s dry=%s started=%s exit=%s crashed=%s" % (
            ev.get("cls"), ev.get("dry"), bool(o.get("started")), o.get("exit"), o.get("crashed"))
    return "driver %s" % d.get("kind")


def run(ctx):
    ctx.tlc("MC_Driver", "MC_Driver_gating", required_actions=ACTIONS)
    ctx.tlc("MC_DriverGen", "MC_DriverGen_gating", replay="driver", coverage=False, case_timeout_ms=60000)
    trace = ctx.collect_events("driver")
    ctx.validate_events("Trace_Driver", trace)
