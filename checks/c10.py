"""C10 - Slice encoding round-trips and matches the wire format.

(M) MC_Wire (values): RoundTrip, ShortestWidth, OnlyVarRefused hold on the model for every (type, value) of the bounded
    value sets (all 8-bit values, 16-bit values (all in the thorough tier), 2^k +- d for k = 0..63 with both signs,
    strings over code points at every UTF-8 class boundary, sequences / dictionaries to depth 3).
(G) every such (type, value, required bytes | refused) is executed on the real Encoder (growable target and fixed
    slice, also one byte too small) and Decoder (two poison suffixes, extra suffix appended).
(T) seeded sweeps of the real codec (strided var-ints below 2^30, random 64-bit values, float bit patterns, random
    Unicode strings, nested containers) are recorded and validated by Trace_Wire against Wire!Enc / Wire!Dec.
"""
RULE = ("cases = (type, value) pairs enumerated by TLC from the value sets of MC_Wire plus recorded sweep events; "
        "distinct = distinct (type, value); non-trivial = refused or encoded on more than one byte")
ASSUMPTIONS = ["floats are opaque bit patterns: only byte order and pattern preservation are decided",
               "the exhaustive sweep of every var-int below 2^30 is replaced by all 16-bit values, every threshold "
               "neighbourhood and a strided sweep (DESIGN.md section 6)"]


def signature(f):
    d = f.get("detail") or {}
    c = f.get("case") or {}
    return "wire %s %s type=%s" % (d.get("kind"), d.get("what", ""), c.get("type", c.get("record", "?")))


def run(ctx):
    t = ctx.tier
    ctx.tlc("MC_Wire", "MC_Wire_values_" + t, replay="wire")
    # containers whose element count lies at a step of the size prefix (31|32, 63|64, ...)
    ctx.tlc("MC_Wire", "MC_Wire_big_" + t, replay="wire")
    n = 20000 if ctx.quick else 400000
    ctx.record_and_validate("wire", "Trace_Wire", ["n=%d" % n])
