"""C01 - every input yields a verdict: no crash, abort or hang.

(M) Pipeline.tla: the phases of compilation with the error gate between them; with no deviation every behaviour ends in
    a verdict (DoneReached, liveness under weak fairness), the exit status is consistent (VerdictConsistent), an error
    stops the front end (ErrorGates); MC_Pipeline_asbuilt documents where the pinned tree left the pipeline without a
    verdict (five crash points and one slow point, each found by these checks).
(G) inputs enumerated by TLC (MC_Totality): token soups of length <= 2 (thorough: 3) over 71 tokens (keywords,
    punctuation, literals, comment / preprocessor / error lexemes, NUL, BOM, CR, CRLF, NBSP, U+3000, emoji) x 8 contexts
    x 2 glues; 16 type forms x optional x 16 type positions (bases, underlying types, keys, ...; Legal gives the verdict
    where the specification knows it); 21 scaling families (dense acyclic and cyclic containment graphs, dense
    inheritance, alias / interface chains, nesting depth of types / parentheses / '!' / modules, many files / fields /
    enumerators / attributes / comment lines / tags); command-line options one at a time over a value alphabet
    (UsageError from Options!Ref, the lint names, the format values).  Plus the other generators' programs (MC_Syntax
    simulate - with seeded character / span mutations -, MC_DocComment incl. mixed-width indentation and the malformed
    catalogue, MC_Request module-less files) and the graph families of C05.
(T) every execution (library call in an isolated worker: a panic is caught, an abort / stack overflow / hang kills only
    the worker and is attributed to the case; binary runs on real files for the small families and a sample of the rest)
    is one event; Trace_Pipeline accepts it iff it is the end of a deviation-free Pipeline behaviour: accepted <=> no
    error diagnostic, exit = Pipeline!ExitStatus(errors, usage) in {0, 1, 2}, no signal / panic, elapsed <= 20 s for
    <= 8 KiB (linear above), and errors where the specification says the input is malformed.
"""
import os

RULE = ("cases = inputs enumerated by TLC (+ seeded mutants of generated programs); events = executions validated by TLC; "
        "distinct = distinct rendered inputs; non-trivial = every input except the option-less binary run")
ASSUMPTIONS = ["time is wall-clock time of the in-process call / the child process on this machine (16 cores, other workers running)",
               "mutations are random by nature: seeded, reproducible from VERIF_SEED; the base programs come from the model"]


def signature(f):
    d = f.get("detail") or {}
    c = f.get("case") or {}
    if d.get("kind") == "trace-rejected":
        ev = d.get("event") or {}
        det = ev.get("detail") or {}
        what = "slow" if ev.get("cpu_ms", 0) > 20000 else "verdict"
        return "totality %s %s %s %s" % (ev.get("mode"), ev.get("fam"), what, ("%s n=%s" % (det.get("f"), det.get("n"))) if det.get("f") else "")
    if c.get("fam") == "scale":
        return "totality %s scale %s n=%s" % (d.get("kind"), c.get("f"), c.get("n"))
    return "totality %s %s" % (d.get("kind"), c.get("fam") or c.get("family") or "generated")


def run(ctx):
    q = ctx.quick
    for cfg in ("MC_Pipeline_lib", "MC_Pipeline_bin"):
        ctx.tlc("MC_Pipeline", cfg, workers=2, coverage=True)
    ctx.tlc("MC_Pipeline", "MC_Pipeline_asbuilt", must_pass=False, workers=2, label="MC_Pipeline_asbuilt(documents the pinned crash points)", coverage=False)
    ctx.tlc("MC_Totality", "MC_Totality_typepos", replay="totality", coverage=False)
    # definitions that take the name of something built in, inside a module or outside of any, in front of a use of the keyword
    ctx.tlc("MC_Totality", "MC_Totality_taken", replay="totality", coverage=False)
    ctx.tlc("MC_Totality", "MC_Totality_options", replay="totality", coverage=False)
    ctx.tlc("MC_Totality", "MC_Totality_scale_" + ctx.tier, replay="totality", coverage=False, case_timeout_ms=25000)
    ctx.tlc("MC_Totality", "MC_Totality_soup_" + ctx.tier, replay="totality", coverage=False)
    ctx.tlc("MC_Request", "MC_Request", replay="totality", coverage=False)
    # the rule families of C04 (well-formed and ill-formed items; enumerator values at the extremes of every underlying type)
    ctx.tlc("MC_Rules", "MC_Rules_enums_quick", replay="totality", coverage=False)
    ctx.tlc("MC_Rules", "MC_Rules_attrs_quick", replay="totality", coverage=False)
    ctx.tlc("MC_Rules", "MC_Rules_keys_quick", replay="totality", coverage=False)
    ctx.tlc("MC_DocComment", "MC_DocComment_dedent2", replay="totality", coverage=False)
    ctx.tlc("MC_DocComment", "MC_DocComment_malformed", replay="totality", coverage=False)
    os.environ["VERIF_TOTALITY_MUTATIONS"] = "40" if q else "200"
    ctx.tlc("MC_Syntax", "MC_Syntax_sim", replay="totality", simulate={"num": 120 if q else 3000, "depth": 500, "procs": 12, "seed_offset": 10},
            label="MC_Syntax_sim", timeout=7200)
    os.environ["VERIF_TOTALITY_MUTATIONS"] = "0"
    ctx.tlc("MC_CyclesGen", "MC_CyclesGen_contain_" + ctx.tier, replay="cycles", coverage=False)
    ctx.tlc("MC_CyclesGen", "MC_CyclesGen_inherit_" + ctx.tier, replay="cycles", coverage=False)
    ctx.tlc("MC_CyclesGen", "MC_CyclesGen_alias_" + ctx.tier, replay="cycles", coverage=False)
    trace = ctx.collect_events("totality")
    ctx.validate_events("Trace_Pipeline", trace, parallel=8)
