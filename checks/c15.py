"""C15 - results are reproducible and do not depend on the order of the inputs.

(M) MC_Collide: with the intended lookup table (a module declaration never hides a definition with the same scoped
    name, whichever was parsed first) every permutation of the files gives the same lookup result
    (OrderIndependentIntended, DefinitionWins); MC_Collide_asbuilt documents that the pinned last-writer-wins table
    was order dependent.  MC_NameTable (C03) checks OrderIndependent for collision-free arrangements.
(T) for the collision arrangements and for simulate-mode multi-file programs of MC_Syntax: every permutation of the
    files x every source / reference assignment through compile_from_options on real files (acceptance, per-file AST
    digest keyed by path, warning multiset), and repeated runs of the binary in fresh processes (stderr bytes, captured
    generator request bytes, exit status); Trace_Repro validates AcceptanceInvariantUnderPermutation,
    PerFileContentInvariant, WarningMultisetInvariant, SameBytesOnRerun.
"""
RULE = ("cases = programs (collision arrangements enumerated by TLC; simulate-mode programs) each compiled under all "
        "permutations x role assignments (48 runs for 3 files); distinct = distinct program texts; non-trivial = at "
        "least two files")
ASSUMPTIONS = ["per-file content is compared through a digest of the projected AST (attributes, members, resolved types)",
               "permutations x roles are sampled beyond 3 files"]


def signature(f):
    d = f.get("detail") or {}
    ev = d.get("event") or {}
    if d.get("kind") == "trace-rejected":
        runs = ev.get("runs") or []
        acc = sorted(set(str(r.get("accepted")) for r in runs if isinstance(r, dict))) if isinstance(runs, list) else ["?"]
        return "repro %s-rejected accepted=%s" % (ev.get("ev"), "/".join(acc))
    return "repro %s" % d.get("kind")


def run(ctx):
    ctx.tlc("MC_Collide", "MC_Collide", replay="repro", coverage=False)
    # programs that are (or are not) rejected for a loop - inheritance, aliases, containment - with one interface / alias /
    # type per file: the verdict does not depend on which file is read first (and no order crashes)
    for fam in ("inherit", "alias", "contain"):
        ctx.tlc("MC_CyclesGen", "MC_CyclesGen_%s_files" % fam, replay="repro", coverage=False, label="MC_CyclesGen_%s_files" % fam)
    # ill-formed programs with several errors on one element (lists of up to four attributes in front of an operation, C04's
    # family): the same diagnostics, byte for byte, in every run
    ctx.tlc("MC_Rules", "MC_Rules_attrlists_four", replay="repro", coverage=False, label="MC_Rules_attrlists(reruns)")
    # enums of 3-4 enumerators with small values in any order (several values used twice: several errors on one enum)
    ctx.tlc("MC_Rules", "MC_Rules_enumorder_quick", replay="repro", coverage=False, label="MC_Rules_enumorder(reruns)")
    # files that re-open one module, each with a doc link spelled alike that designates a member of its own container: what a
    # comment is bound to is part of the file's compiled content (the digests cover doc comments and their link targets)
    ctx.tlc("MC_LinkFiles", "MC_LinkFiles" if ctx.quick else "MC_LinkFiles_thorough", replay="repro", coverage=False)
    # two files with lints at the same rows and columns, some of them suppressed (the program of C13): which lints are
    # reported does not depend on the order of the files
    ctx.tlc("MC_ManyLints", "MC_ManyLints_one" if ctx.quick else "MC_ManyLints", replay="repro", coverage=False, label="MC_ManyLints(file orders)")
    ctx.tlc("MC_Collide", "MC_Collide_asbuilt", must_pass=False, label="MC_Collide_asbuilt(documents the pinned table)", coverage=False)
    n = 90 if ctx.quick else 3000
    os_env = {"VERIF_REPRO_RERUNS": "3" if ctx.quick else "5"}
    import os
    os.environ.update(os_env)
    ctx.tlc("MC_Syntax", "MC_Syntax_sim", replay="repro", simulate={"num": n, "depth": 500, "procs": 12, "seed_offset": 80},
            label="MC_Syntax_sim", timeout=7200)
    trace = ctx.collect_events("repro")
    ctx.validate_events("Trace_Repro", trace)
