"""C16 - doc comments keep their text, tags and links.

(M) DocComment.tla: RefMessage (written lines minus the common indentation counted in characters over the lines that
    have content) vs OpMessage (sanitize_message_lines: the first component of each line decides) - RefEqOp and RefSane
    on every comment of the bounded family; MC_DocComment_asbuilt documents the deviations of the pinned tree (dedent
    switched off by a line that starts with a link or holds only white space; byte offsets cut inside wide characters).
(G) four case families enumerated by TLC and compiled by the real compiler, Commentable::comment() projected:
    dedent (1..3 lines, 7 indentations incl. ideographic space / tab / mixed width, 6 content kinds, 8 commentable
    kinds), tags (@param / @returns / @see x inline none / ':' / text / padded / link x continuation blocks, on
    operations of every return arity, a struct and an enumerator; Fits decides the IncorrectDocComment count), links
    ({@link} / @see / link in a tag message from 6 positions to 30 spellings x global; expected binding = Designated,
    the outward search started at the element itself; plus 2..3 simultaneous links for the patch queue), malformed
    (13 forms x 4 positions: warning only, comment absent, every element kept).
"""
RULE = ("cases = comments enumerated by TLC; distinct = distinct rendered programs; non-trivial = more than one line / "
        "tag, or any link / malformed form")
ASSUMPTIONS = ["line texts are fixed words with the line number appended; white space classes are ' ', U+3000 and TAB",
               "a tag's message = its inline part with leading blanks removed, then its continuation lines dedented among themselves"]


def signature(f):
    d = f.get("detail") or {}
    c = f.get("case") or {}
    return "doccomment %s %s fam=%s" % (d.get("kind"), d.get("what", "")[:60], c.get("fam"))


def run(ctx):
    thorough = ctx.tier == "thorough"
    ctx.tlc("MC_DocComment", "MC_DocComment_dedent2", replay="doccomment", coverage=False)
    ctx.tlc("MC_DocComment", "MC_DocComment_dedent3all" if thorough else "MC_DocComment_dedent3", replay="doccomment", coverage=False)
    if thorough:
        ctx.tlc("MC_DocComment", "MC_DocComment_dedent4", replay="doccomment", coverage=False)
    ctx.tlc("MC_DocComment", "MC_DocComment_tags1", replay="doccomment", coverage=False)
    ctx.tlc("MC_DocComment", "MC_DocComment_tags2all" if thorough else "MC_DocComment_tags2", replay="doccomment", coverage=False)
    ctx.tlc("MC_DocComment", "MC_DocComment_links", replay="doccomment", coverage=False)
    ctx.tlc("MC_DocComment", "MC_DocComment_multi", replay="doccomment", coverage=False)
    ctx.tlc("MC_DocComment", "MC_DocComment_malformed", replay="doccomment", coverage=False)
    ctx.tlc("MC_DocComment", "MC_DocComment_asbuilt", must_pass=False, label="MC_DocComment_asbuilt(documents the pinned deviations)", coverage=False)
