"""C03 - type references bind to the entity the scoping rules designate.

(M) NameTable.tla: Designated (declarative: innermost module outwards, then global, '::' = global only, over the set
    of declared keys) vs Lookup (the last-writer-wins table built file by file + the popping walk of
    find_node_with_scope): BindingIsDesignated and OrderIndependent on every arrangement; AliasTransparent for the
    alias-chain walk on every chain function.
(G) every arrangement of <= 2 (thorough: 3) same-named definitions T of 5 kinds over the modules A, A::B, A::B::C, B, A::C
    (+ a container whose member is named T) x 7 reference spellings x 5 referencing modules x 6 (10) positions (field,
    return, dictionary key, alias target, enum underlying, interface base, ...) x file order: compiled, and the binding
    read from the AST must be the designated entity, or exactly E033 / E017; alias chains <= 3 (4) links with an
    attribute per link ending in 7 target kinds, incl. loops and dangling links: target, accumulated attributes in
    order, optionality, or exactly the codes E019 / E033; find_element::<T>(scoped id) for every definition, field,
    enumerator and operation of simulate-mode programs (and failure for names nothing declares).
"""
RULE = ("cases = arrangements x references enumerated by TLC, alias chain functions, simulate-mode programs; distinct = "
        "distinct rendered file sets; non-trivial = at least one definition T placed / chain of >= 2 links")
ASSUMPTIONS = ["arrangements of this check have no key collisions (C15 studies collisions)"]


def signature(f):
    d = f.get("detail") or {}
    return "scope %s %s" % (d.get("kind"), d.get("what", ""))


def run(ctx):
    t = ctx.tier
    ctx.tlc("MC_NameTable", "MC_NameTable_" + t, replay="scope", coverage=False)
    # two references spelled alike, written in two different modules: each is bound from its own scope
    ctx.tlc("MC_TwoRefs", "MC_TwoRefs", replay="scope", coverage=False)
    # base lists and underlying types written with a keyword, an anonymous type or a name of the wrong kind
    ctx.tlc("MC_WrongKind", "MC_WrongKind", replay="scope", coverage=False)
    ctx.tlc("MC_AliasChain", "MC_AliasChain_" + t, replay="aliaschain", coverage=False)
    n = 360 if ctx.quick else 6000
    ctx.tlc("MC_Syntax", "MC_Syntax_sim", replay="syntax-find", simulate={"num": n, "depth": 500, "procs": 12, "seed_offset": 60},
            label="MC_Syntax_sim", timeout=7200)
    # name collisions across scopes and files (the arrangements of C15): a reference binds to the definition whatever member / module shares its scoped name, in every file order
    ctx.tlc("MC_Collide", "MC_Collide", replay="repro", coverage=False)
    trace = ctx.collect_events("repro")
    ctx.validate_events("Trace_Repro", trace)
