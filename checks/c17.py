"""C17 - each input file is compiled exactly once: sources first, in the order given.

(M) Files.tla: a small file-system model (directories, files, symbolic links, '.', '..', absolute paths) with the
    reference resolution Resolve(sources, references); MC_Files checks CompiledOnce, SourceBeatsReference,
    one-file-per-source-argument on every argument vector.
(G) every vector of <= 2 sources x <= 1 reference and <= 1 source x <= 2 references over 16 spellings (thorough: <= 2 x
    <= 2 over 23 spellings) is executed through compile_from_options inside a materialised copy of the skeleton;
    expected: canonical identity and role of every compiled file, sources exactly in argument order, references
    grouped by argument, number of DuplicateFile warnings, E001 iff an argument is unusable or a file unreadable,
    nothing parsed when E001.
"""
import json
import os
import re

RULE = ("cases = argument vectors enumerated by TLC over the skeleton's spellings; distinct = distinct argument vectors; "
        "non-trivial = at least two arguments")
ASSUMPTIONS = ["order inside a reference directory follows read_dir and is not compared",
               "the sandbox runs as root: an unreadable file is modelled by a file that is not valid UTF-8",
               "symbolic-link loops are not part of the skeleton"]


def signature(f):
    d = f.get("detail") or {}
    return "files %s %s" % (d.get("kind"), d.get("what", ""))


def replay_env(f, ctx):
    return {"VERIF_FILES_TREE": tree_file(ctx)}


def tree_file(ctx):
    res = ctx.tlc("MC_Files", "MC_Files_tree", coverage=False)
    tree = None
    for line in open(os.path.join(ctx.work, "MC_Files_tree.tlc.log")):
        m = re.match(r'<<"TREE", (".*")>>$', line.strip())
        if m:
            tree = json.loads(json.loads(m.group(1)))
    if not tree:
        raise Exception("tree not printed")
    tp = os.path.join(ctx.work, "tree.json")
    json.dump(tree, open(tp, "w"))
    return tp


def run(ctx):
    os.environ["VERIF_FILES_TREE"] = tree_file(ctx)
    if ctx.quick:
        ctx.tlc("MC_Files", "MC_Files_quick", replay="files", coverage=False)
        ctx.tlc("MC_Files", "MC_Files_refs_quick", replay="files", coverage=False)
    else:
        ctx.tlc("MC_Files", "MC_Files_thorough", replay="files", coverage=False)
    # few spellings, lists of up to three sources and two references: repeats with another argument in between
    ctx.tlc("MC_Files", "MC_Files_dup3", replay="files", coverage=False)
