"""C04 - accepted programs are well-formed; every rule violation is diagnosed.

(M) Rules.tla: the complete rule catalogue of the statement as Violations(family, item) -> set of diagnostic codes that
    belong to the violated rules; MC_Rules checks per family that well-formed and ill-formed items both exist
    (vacuity) and prints every item.  The generator of MC_Syntax carries the same rules as guards: every finished
    program is well-formed and must be accepted (checked by C02).
(G) bounded-exhaustive small-scope families: tags x optional x duplicate names over <= 3 members of {struct, compact
    struct, enumerator of enum / of compact enum, parameters, return tuple} (86 544 items); enums: 22 underlying types
    (every integral type, bool, float, string, optional, via alias) x checked / unchecked / compact x <= 2 (3) values from
    {implicit, min-1, min, max, max+1, repeated} x fields (6 536 / 107 k); every dictionary key form x 5 positions (310);
    stream placement over <= 3 parameters / return members (720); duplicate names in every scope kind, inherited
    operations through chains and diamonds, alias of optional, module placement (34); every built-in attribute x 17
    targets (incl. base interface and underlying type) x 6 argument shapes x repeated (1 428);
    lists of up to three attributes in front of one operation (155): E026 iff a non-repeatable one occurs twice;
    Inheritance.tla / MC_Inherit: every acyclic hierarchy of <= 4 (5) interfaces with <= 2 written bases each x every
    assignment of two operation names x 3 layouts (declaration order, reverse, two files): TLC checks that the closure
    the code computes (own bases, then the bases' closures, first occurrence kept) is the transitive closure and that
    "own name = inherited name" is "redeclares an ancestor's operation"; each hierarchy is compiled: E011 iff the model
    says so, every E011 points at a redeclaring operation, and for accepted programs all_base_interfaces /
    all_inherited_operations / all_operations equal the model's sets with nothing listed twice.
    MC_Syntax_inject: ONE violation from a catalogue of 19 injections (member / enumerator / operation / definition names,
    tags unique / optional / compact / range, stream placement, tuple arity, key type, empty compact struct / checked
    enum, enumerator values unique - written in two spellings - and in range, alias of optional, unknown / repeated
    attribute) at a seed-chosen site of a generated well-formed program (480 / 6000 programs: nested modules, several
    files, attributes, streams, inheritance around the site).
    Oracle: accepted <=> Violations = {}; if rejected: reported codes non-empty and a subset of Violations; every
    diagnostic span lies inside its file.
"""
RULE = ("cases = items of the rule families enumerated by TLC; distinct = distinct rendered programs; non-trivial = at "
        "least one rule violated")
ASSUMPTIONS = ["the four dictionary-key codes belong to one rule, as do the two stream codes (the statement names the rule, "
               "not the code)", "warnings are ignored"]


def signature(f):
    d = f.get("detail") or {}
    c = f.get("case") or {}
    return "rules %s %s fam=%s" % (d.get("kind"), d.get("what", ""), c.get("fam"))


def run(ctx):
    for fam in ("members", "enums", "keys", "stream", "names", "attrs", "attrlists", "enumorder"):
        cfg = "MC_Rules_%s_%s" % (fam, ctx.tier if fam == "enums" else "quick")
        ctx.tlc("MC_Rules", cfg, replay="rules", coverage=False)
    # one violation injected into a generated well-formed program (every rule in contexts no template has)
    ctx.tlc("MC_Syntax", "MC_Syntax_inject", replay="rules", simulate={"num": 480 if ctx.quick else 6000, "depth": 500, "procs": 12, "seed_offset": 30},
            label="MC_Syntax_inject", timeout=7200)
    # interface hierarchies: closure = transitive closure, shadowing = redeclaration (model checked), then compiled
    ctx.tlc("MC_Inherit", "MC_Inherit_" + ctx.tier, replay="rules", coverage=False)
    # every argument list <= 3 of every known directive (Attributes.tla): well-formed lists accepted, the others rejected with E027 / E028
    ctx.tlc("MC_AttrArgs", "MC_AttrArgs", replay="rules", coverage=False)
    ctx.tlc("MC_Inherit", "MC_Inherit_twolevels", must_pass=False, workers=2, coverage=False,
            label="MC_Inherit_twolevels(documents what a closure cut after two levels misses)")
