"""C04 - accepted programs are well-formed; every rule violation is diagnosed.

(M) Rules.tla: the complete rule catalogue of the statement as Violations(family, item) -> set of diagnostic codes that
    belong to the violated rules; MC_Rules checks per family that well-formed and ill-formed items both exist
    (vacuity) and prints every item.  The generator of MC_Syntax carries the same rules as guards: every finished
    program is well-formed and must be accepted (checked by C02).
(G) bounded-exhaustive small-scope families: tags x optional x duplicate names over <= 3 members of {struct, compact
    struct, enumerator of enum / of compact enum, parameters, return tuple} (86 544 items); enums: 22 underlying types
    (every integral type, bool, float, string, optional, via alias) x checked / unchecked / compact x <= 2 (3) values from
    {implicit, min-1, min, max, max+1, repeated} x fields (6 536 / 107 k); every dictionary key form x 5 positions (310);
    stream placement over <= 3 parameters / return members (720); duplicate names in every scope kind, inherited
    operations through chains and diamonds, alias of optional, module placement (34); every built-in attribute x 17
    targets (incl. base interface and underlying type) x 6 argument shapes x repeated (1 428).
    Oracle: accepted <=> Violations = {}; if rejected: reported codes non-empty and a subset of Violations; every
    diagnostic span lies inside its file.
"""
RULE = ("cases = items of the rule families enumerated by TLC; distinct = distinct rendered programs; non-trivial = at "
        "least one rule violated")
ASSUMPTIONS = ["the four dictionary-key codes belong to one rule, as do the two stream codes (the statement names the rule, "
               "not the code)", "warnings are ignored"]


def signature(f):
    d = f.get("detail") or {}
    c = f.get("case") or {}
    return "rules %s %s fam=%s" % (d.get("kind"), d.get("what", ""), c.get("fam"))


def run(ctx):
    for fam in ("members", "enums", "keys", "stream", "names", "attrs"):
        cfg = "MC_Rules_%s_%s" % (fam, ctx.tier if fam == "enums" else "quick")
        ctx.tlc("MC_Rules", cfg, replay="rules", coverage=False)
