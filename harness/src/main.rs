#![allow(dead_code)]
// vh: the Rust side of the model-based checks.
//
//   vh replay <family> [--jobs N] [--timeout-ms T] [--summary FILE] [--faildir DIR] [--tlclog FILE] [--maxfail K]
//        reads TLC output (lines `<<"CASE", "<json>">>`) or plain NDJSON cases from stdin, executes every case against
//        the real code in isolated worker processes, writes a JSON summary.
//   vh worker <family>          (internal) executes cases read from stdin, one result line per case
//   vh record <family> [k=v ..] writes an NDJSON trace of real executions to stdout, for TLC trace validation
//
// The harness renders abstract inputs, runs slicec / slice-codec, and projects what it observes. Expected values
// come from the TLA+ specification (they are part of each case); the only comparison made here is structural
// equality between the projection and the expectation.

mod ast_project;
mod fam_buffers;
mod fam_cycles;
mod fam_driver;
mod fam_emitter;
mod fam_files;
mod fam_lints;
mod fam_totality;
mod fam_request;
mod comment_spans;
mod fam_doccomment;
mod fam_options;
mod fam_preproc;
mod fam_repro;
mod fam_rules;
mod fam_scope;
mod fam_snippet;
mod fam_syntax;
mod fam_wire;
mod supervisor;
mod util;

use serde_json::Value;
use std::alloc::{GlobalAlloc, Layout, System};
use std::sync::atomic::{AtomicUsize, Ordering};

/// A global allocator that remembers the largest single request that was granted while tracking is on. It lets the
/// decoding families observe whether memory is claimed according to what the input merely announces (C11).
pub struct Counting;
pub static MAX_GRANTED: AtomicUsize = AtomicUsize::new(0);

unsafe impl GlobalAlloc for Counting {
    unsafe fn alloc(&self, l: Layout) -> *mut u8 {
        let p = System.alloc(l);
        if !p.is_null() {
            MAX_GRANTED.fetch_max(l.size(), Ordering::Relaxed);
        }
        p
    }
    unsafe fn alloc_zeroed(&self, l: Layout) -> *mut u8 {
        let p = System.alloc_zeroed(l);
        if !p.is_null() {
            MAX_GRANTED.fetch_max(l.size(), Ordering::Relaxed);
        }
        p
    }
    unsafe fn dealloc(&self, p: *mut u8, l: Layout) {
        System.dealloc(p, l)
    }
    unsafe fn realloc(&self, p: *mut u8, l: Layout, new_size: usize) -> *mut u8 {
        let q = System.realloc(p, l, new_size);
        if !q.is_null() {
            MAX_GRANTED.fetch_max(new_size, Ordering::Relaxed);
        }
        q
    }
}

#[global_allocator]
static GLOBAL: Counting = Counting;

/// What a family reports for one case.
pub struct Outcome {
    /// None = the implementation agrees with the specification's expectation.
    pub fail: Option<Value>,
    /// Non-trivial by the family's own rule (documented in the evidence file).
    pub nontrivial: bool,
    /// Hash of the rendered concrete input (for counting distinct inputs).
    pub key: u64,
    /// The rendered concrete input, kept for samples and replay files.
    pub rendered: Value,
}

pub trait Family {
    fn run(&mut self, case: &Value) -> Outcome;
}

pub fn make_family(name: &str) -> Option<Box<dyn Family>> {
    match name {
        "options" => Some(Box::new(fam_options::Options::default())),
        "buffers" => Some(Box::new(fam_buffers::Buffers::default())),
        "preproc" => Some(Box::new(fam_preproc::Preproc::default())),
        "cycles" => Some(Box::new(fam_cycles::Cycles::default())),
        "driver" => Some(Box::new(fam_driver::Driver::default())),
        "files" => Some(Box::new(fam_files::Files::default())),
        "emitter" => Some(Box::new(fam_emitter::Emitter::default())),
        "emitbin" => Some(Box::new(fam_emitter::EmitBin::default())),
        "syntax" => Some(Box::new(fam_syntax::Syntax { mode: "ast" })),
        "syntax-find" => Some(Box::new(fam_syntax::Syntax { mode: "find" })),
        "syntax-visit" => Some(Box::new(fam_syntax::Syntax { mode: "visit" })),
        "syntax-spans" => Some(Box::new(fam_syntax::Syntax { mode: "spans" })),
        "snippet" => Some(Box::new(fam_snippet::Snippet::default())),
        "snippet-notes" => Some(Box::new(fam_snippet::SnippetNotes::default())),
        "scope" => Some(Box::new(fam_scope::Scope::default())),
        "aliaschain" => Some(Box::new(fam_scope::AliasChain::default())),
        "repro" => Some(Box::new(fam_repro::Repro::default())),
        "rules" => Some(Box::new(fam_rules::Rules::default())),
        "lints" => Some(Box::new(fam_lints::Lints::default())),
        "totality" => Some(Box::new(fam_totality::Totality::default())),
        "request" => Some(Box::new(fam_request::Request::default())),
        "doccomment" => Some(Box::new(fam_doccomment::DocComments)),
        "wire" => Some(Box::new(fam_wire::Wire::default())),
        _ => None,
    }
}

fn main() {
    let args: Vec<String> = std::env::args().collect();
    if args.len() < 3 {
        eprintln!("usage: vh replay|worker|record <family> [options]");
        std::process::exit(2);
    }
    let code = match args[1].as_str() {
        "worker" => supervisor::worker_main(&args[2]),
        "replay" => supervisor::replay_main(&args[2], &args[3..]),
        "record" => record_main(&args[2], &args[3..]),
        "emitstate" => fam_emitter::emitstate(&args[2..]),
        _ => {
            eprintln!("unknown subcommand {}", args[1]);
            2
        }
    };
    std::process::exit(code);
}

fn arg_u64(rest: &[String], key: &str, default: u64) -> u64 {
    rest.iter()
        .filter_map(|a| a.strip_prefix(&format!("{key}=")).and_then(|v| v.parse().ok()))
        .next()
        .unwrap_or(default)
}

fn record_main(family: &str, rest: &[String]) -> i32 {
    match family {
        "options" => {
            fam_options::record(arg_u64(rest, "n", 1000));
            0
        }
        "wire" => {
            fam_wire::record(arg_u64(rest, "n", 1000));
            0
        }
        "decoder" => {
            fam_wire::record_dec(arg_u64(rest, "n", 1000));
            0
        }
        "buffers" => {
            fam_buffers::record(arg_u64(rest, "histories", 20), arg_u64(rest, "maxlen", 200));
            0
        }
        _ => {
            eprintln!("unknown record family {family}");
            2
        }
    }
}
