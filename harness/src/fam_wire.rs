// C10 / C11: the real Encoder / Decoder against the cases TLC prints from Wire.tla.
// value case: {"type", "v", "enc": {"ok": true, "bytes": [..]} | {"ok": false}}
// bytes case: {"type", "bytes": [..], "ok", "v", "consumed", "err"}
// JSON values: integers = 8 base-256 digits (little endian, two's complement), floats = digits of the bit pattern,
// strings = code points, sequences = arrays, dictionaries = arrays of {"k", "v"} in iteration order.

use crate::util::{hash_str, mismatch};
use crate::{Family, Outcome};
use serde_json::{json, Value};
use slice_codec::buffer::slice::{SliceInputSource, SliceOutputTarget};
use slice_codec::buffer::vec::VecOutputTarget;
use slice_codec::buffer::InputSource;
use slice_codec::decoder::Decoder;
use slice_codec::encoder::Encoder;
use std::collections::{BTreeMap, HashMap};

#[derive(Default)]
pub struct Wire;

// ---------------------------------------------------------------------------------------------------------------------
// JSON <-> Rust values

pub trait J: Sized {
    fn from_json(v: &Value) -> Self;
    fn to_json(&self) -> Value;
}

pub fn digits_u64(v: &Value) -> u64 {
    let mut b = [0u8; 8];
    if let Some(a) = v.as_array() {
        for (i, d) in a.iter().take(8).enumerate() {
            b[i] = d.as_u64().unwrap_or(0) as u8;
        }
    }
    u64::from_le_bytes(b)
}
pub fn u64_digits(x: u64) -> Value {
    json!(x.to_le_bytes().to_vec())
}

macro_rules! j_unsigned {
    ($($t:ty),*) => {$(
        impl J for $t {
            fn from_json(v: &Value) -> Self { digits_u64(v) as $t }
            fn to_json(&self) -> Value { u64_digits(*self as u64) }
        }
    )*};
}
macro_rules! j_signed {
    ($($t:ty),*) => {$(
        impl J for $t {
            fn from_json(v: &Value) -> Self { digits_u64(v) as i64 as $t }
            fn to_json(&self) -> Value { u64_digits(*self as i64 as u64) }
        }
    )*};
}
j_unsigned!(u8, u16, u32, u64, usize);
j_signed!(i8, i16, i32, i64);

impl J for bool {
    fn from_json(v: &Value) -> Self {
        v.as_bool().unwrap_or(false)
    }
    fn to_json(&self) -> Value {
        json!(*self)
    }
}
impl J for f32 {
    fn from_json(v: &Value) -> Self {
        f32::from_bits(digits_u64(v) as u32)
    }
    fn to_json(&self) -> Value {
        u64_digits(self.to_bits() as u64)
    }
}
impl J for f64 {
    fn from_json(v: &Value) -> Self {
        f64::from_bits(digits_u64(v))
    }
    fn to_json(&self) -> Value {
        u64_digits(self.to_bits())
    }
}
impl J for String {
    fn from_json(v: &Value) -> Self {
        v.as_array().map(|a| a.iter().map(|c| char::from_u32(c.as_u64().unwrap_or(63) as u32).unwrap_or('?')).collect()).unwrap_or_default()
    }
    fn to_json(&self) -> Value {
        Value::Array(self.chars().map(|c| json!(c as u32)).collect())
    }
}
impl<T: J> J for Vec<T> {
    fn from_json(v: &Value) -> Self {
        v.as_array().map(|a| a.iter().map(T::from_json).collect()).unwrap_or_default()
    }
    fn to_json(&self) -> Value {
        Value::Array(self.iter().map(|x| x.to_json()).collect())
    }
}
impl<K: J + Ord, V: J> J for BTreeMap<K, V> {
    fn from_json(v: &Value) -> Self {
        v.as_array().map(|a| a.iter().map(|p| (K::from_json(&p["k"]), V::from_json(&p["v"]))).collect()).unwrap_or_default()
    }
    fn to_json(&self) -> Value {
        Value::Array(self.iter().map(|(k, v)| json!({"k": k.to_json(), "v": v.to_json()})).collect())
    }
}
impl<K: J + Ord + std::hash::Hash + Eq, V: J> J for HashMap<K, V> {
    fn from_json(v: &Value) -> Self {
        v.as_array().map(|a| a.iter().map(|p| (K::from_json(&p["k"]), V::from_json(&p["v"]))).collect()).unwrap_or_default()
    }
    fn to_json(&self) -> Value {
        // reported in key order, like the model's dictionaries
        let mut items: Vec<(&K, &V)> = self.iter().collect();
        items.sort_by(|a, b| a.0.cmp(b.0));
        Value::Array(items.iter().map(|(k, v)| json!({"k": k.to_json(), "v": v.to_json()})).collect())
    }
}

// ---------------------------------------------------------------------------------------------------------------------
// per-type encode / decode through the public API

thread_local! {
    /// what the decoder looked like after the last failed decode of this thread: None = consistent
    static AFTERMATH: std::cell::RefCell<Option<String>> = const { std::cell::RefCell::new(None) };
}

/// After a failed decode the decoder is still a decoder over the same buffer (Sources.tla: the position never leaves
/// the buffer): remaining() <= length, and whatever is read next are the bytes of the buffer at that position, ending
/// in an end-of-buffer error - never a panic, never a byte from beyond the end.
fn probe_after_error<I: InputSource>(d: &mut Decoder<I>, window: &[u8]) -> Option<String> {
    let r = std::panic::catch_unwind(std::panic::AssertUnwindSafe(|| {
        let rem = d.remaining();
        if rem > window.len() {
            return Some(format!("remaining() = {rem} for a buffer of {} bytes", window.len()));
        }
        let mut at = window.len() - rem;
        for _ in 0..3 {
            match d.decode::<u8>() {
                Ok(b) if at < window.len() && b == window[at] => at += 1,
                Ok(b) => return Some(format!("read the byte {b} at offset {at} of a buffer of {} bytes", window.len())),
                Err(_) if at == window.len() => break,
                Err(_) => return Some(format!("end of buffer reported at offset {at} of a buffer of {} bytes", window.len())),
            }
        }
        None
    }));
    r.unwrap_or_else(|_| Some("using the decoder after the error panicked".to_owned()))
}

macro_rules! codec_table {
    ($( $name:literal => $ty:ty, |$e:ident, $val:ident| $enc:expr, |$d:ident| $dec:expr ;)*) => {
        /// Encode `v` (JSON) as type `name` into a Vec target; Ok(bytes) or Err(bytes written before refusal).
        fn enc_vec(name: &str, v: &Value) -> Option<Result<Vec<u8>, usize>> {
            match name {
                $( $name => {
                    let $val: $ty = <$ty as J>::from_json(v);
                    let mut buf: Vec<u8> = Vec::new();
                    let r = {
                        let mut $e = Encoder::new(VecOutputTarget::from(&mut buf));
                        $enc
                    };
                    Some(match r { Ok(()) => Ok(buf), Err(_) => Err(buf.len()) })
                } )*
                _ => None,
            }
        }
        /// Encode into a fixed slice of `cap` bytes inside a guard-padded arena; returns (ok, bytes written region, guards intact).
        fn enc_slice(name: &str, v: &Value, cap: usize) -> Option<(bool, Vec<u8>, bool)> {
            match name {
                $( $name => {
                    let $val: $ty = <$ty as J>::from_json(v);
                    let mut arena = vec![0xA5u8; cap + 32];
                    let ok = {
                        let window: &mut [u8] = &mut arena[16..16 + cap];
                        let mut $e = Encoder::new(SliceOutputTarget::from(window));
                        let r = $enc;
                        r.is_ok()
                    };
                    let guards = arena[..16].iter().chain(arena[16 + cap..].iter()).all(|b| *b == 0xA5);
                    Some((ok, arena[16..16 + cap].to_vec(), guards))
                } )*
                _ => None,
            }
        }
        /// Decode type `name` from `bytes` (placed in an arena followed by `poison`); Ok((value json, consumed)) or Err(display ok?, text).
        fn dec_bytes(name: &str, bytes: &[u8], poison: u8) -> Option<Result<(Value, usize), (bool, String)>> {
            let mut arena = vec![poison; bytes.len() + 48];
            arena[16..16 + bytes.len()].copy_from_slice(bytes);
            let window: &[u8] = &arena[16..16 + bytes.len()];
            match name {
                $( $name => {
                    let mut $d = Decoder::new(SliceInputSource::from(window));
                    let r: slice_codec::Result<$ty> = $dec;
                    Some(match r {
                        Ok(x) => Ok((x.to_json(), bytes.len() - $d.remaining())),
                        Err(e) => {
                            let after = probe_after_error(&mut $d, window);
                            AFTERMATH.with(|a| *a.borrow_mut() = after);
                            let shown = std::panic::catch_unwind(std::panic::AssertUnwindSafe(|| e.to_string()));
                            match shown {
                                Ok(s) => Err((true, s)),
                                Err(_) => Err((false, format!("{:?}", e.kind()))),
                            }
                        }
                    })
                } )*
                "tagged" => {
                    let mut d = Decoder::new(SliceInputSource::from(window));
                    Some(match d.skip_tagged_fields() {
                        Ok(()) => Ok((json!("skipped"), bytes.len() - d.remaining())),
                        Err(e) => {
                            let after = probe_after_error(&mut d, window);
                            AFTERMATH.with(|a| *a.borrow_mut() = after);
                            let shown = std::panic::catch_unwind(std::panic::AssertUnwindSafe(|| e.to_string()));
                            match shown {
                                Ok(s) => Err((true, s)),
                                Err(_) => Err((false, format!("{:?}", e.kind()))),
                            }
                        }
                    })
                }
                _ => None,
            }
        }
    };
}

codec_table! {
    "bool" => bool, |e, x| e.encode(x), |d| d.decode();
    "u8" => u8, |e, x| e.encode(x), |d| d.decode();
    "i8" => i8, |e, x| e.encode(x), |d| d.decode();
    "u16" => u16, |e, x| e.encode(x), |d| d.decode();
    "i16" => i16, |e, x| e.encode(x), |d| d.decode();
    "u32" => u32, |e, x| e.encode(x), |d| d.decode();
    "i32" => i32, |e, x| e.encode(x), |d| d.decode();
    "u64" => u64, |e, x| e.encode(x), |d| d.decode();
    "i64" => i64, |e, x| e.encode(x), |d| d.decode();
    "f32" => f32, |e, x| e.encode(x), |d| d.decode();
    "f64" => f64, |e, x| e.encode(x), |d| d.decode();
    "varint32" => i32, |e, x| e.encode_varint(x), |d| d.decode_varint::<i32>();
    "varint62" => i64, |e, x| e.encode_varint(x), |d| d.decode_varint::<i64>();
    "varuint32" => u32, |e, x| e.encode_varuint(x), |d| d.decode_varuint::<u32>();
    "varuint62" => u64, |e, x| e.encode_varuint(x), |d| d.decode_varuint::<u64>();
    "size" => usize, |e, x| e.encode_size(x), |d| d.decode_size();
    "string" => String, |e, x| e.encode(&x), |d| d.decode();
    "seq_u8" => Vec<u8>, |e, x| e.encode(&x), |d| d.decode();
    "seq_bool" => Vec<bool>, |e, x| e.encode(&x), |d| d.decode();
    "seq_i16" => Vec<i16>, |e, x| e.encode(&x), |d| d.decode();
    "seq_string" => Vec<String>, |e, x| e.encode(&x), |d| d.decode();
    "seq_seq_u8" => Vec<Vec<u8>>, |e, x| e.encode(&x), |d| d.decode();
    "seq_seq_seq_bool" => Vec<Vec<Vec<bool>>>, |e, x| e.encode(&x), |d| d.decode();
    "dict_u8_u8" => BTreeMap<u8, u8>, |e, x| e.encode(&x), |d| d.decode();
    "hdict_u8_u8" => HashMap<u8, u8>, |e, x| e.encode(&x), |d| d.decode();
    "dict_string_bool" => BTreeMap<String, bool>, |e, x| e.encode(&x), |d| d.decode();
    "dict_u8_seq_u8" => BTreeMap<u8, Vec<u8>>, |e, x| e.encode(&x), |d| d.decode();
    "dict_u8_dict_u8_bool" => BTreeMap<u8, BTreeMap<u8, bool>>, |e, x| e.encode(&x), |d| d.decode();
}

/// The same value through the other implementations of EncodeInto the crate offers for its type (a borrowed primitive, a
/// string slice, an element slice): every one of them must write what the primary one writes.
macro_rules! alt_encodings {
    ($name:expr, $v:expr; $( $n:literal => $ty:ty, |$e:ident, $x:ident| $enc:expr ;)*) => {
        match $name {
            $( $n => {
                let $x: $ty = <$ty as J>::from_json($v);
                let mut buf: Vec<u8> = Vec::new();
                let r = {
                    let mut $e = Encoder::from(&mut buf);
                    $enc
                };
                Some(match r { Ok(()) => Ok(buf), Err(_) => Err(buf.len()) })
            } )*
            _ => None,
        }
    };
}
fn enc_alt(name: &str, v: &Value) -> Option<Result<Vec<u8>, usize>> {
    alt_encodings! { name, v;
        "bool" => bool, |e, x| e.encode(&x);
        "u8" => u8, |e, x| e.encode(&x);
        "i8" => i8, |e, x| e.encode(&x);
        "u16" => u16, |e, x| e.encode(&x);
        "i16" => i16, |e, x| e.encode(&x);
        "u32" => u32, |e, x| e.encode(&x);
        "i32" => i32, |e, x| e.encode(&x);
        "u64" => u64, |e, x| e.encode(&x);
        "i64" => i64, |e, x| e.encode(&x);
        "f32" => f32, |e, x| e.encode(&x);
        "f64" => f64, |e, x| e.encode(&x);
        "string" => String, |e, x| e.encode(x.as_str());
        "seq_u8" => Vec<u8>, |e, x| e.encode(x.as_slice());
        "seq_bool" => Vec<bool>, |e, x| e.encode(x.as_slice());
        "seq_i16" => Vec<i16>, |e, x| e.encode(x.as_slice());
        "seq_string" => Vec<String>, |e, x| e.encode(x.as_slice());
        "seq_seq_u8" => Vec<Vec<u8>>, |e, x| e.encode(x.as_slice());
        "seq_seq_seq_bool" => Vec<Vec<Vec<bool>>>, |e, x| e.encode(x.as_slice());
    }
}

fn to_bytes(v: &Value) -> Vec<u8> {
    v.as_array().map(|a| a.iter().map(|b| b.as_u64().unwrap_or(0) as u8).collect()).unwrap_or_default()
}

/// Observes the real encoder and decoder for one (type, value): returns {"ok", "bytes", "decoded", "remaining"...} or a failure.
pub fn observe_value(name: &str, v: &Value) -> Result<Value, Value> {
    let Some(r) = enc_vec(name, v) else { return Err(json!({"kind": "harness", "what": format!("unknown type {name}")})) };
    match r {
        Err(wrote) => {
            if wrote != 0 {
                return Err(json!({"kind": "mismatch", "what": "a refused value left bytes in the output", "observed": wrote}));
            }
            Ok(json!({"ok": false}))
        }
        Ok(bytes) => {
            if let Some(alt) = enc_alt(name, v) {
                if alt.as_ref().ok() != Some(&bytes) {
                    return Err(mismatch("the other EncodeInto implementation for this type (borrowed value / string slice / element slice) writes something else", json!(bytes), json!(alt)));
                }
            }
            // fixed slice of exactly the right size: same bytes; one byte less: error, guards intact
            let (ok, sb, guards) = enc_slice(name, v, bytes.len()).unwrap();
            let unordered = name.starts_with("hdict");
            if !ok || !guards || (!unordered && sb != bytes) {
                return Err(mismatch("fixed-slice target differs from growable target", json!(bytes), json!({"ok": ok, "bytes": sb, "guards": guards})));
            }
            if !bytes.is_empty() {
                let (ok2, _, guards2) = enc_slice(name, v, bytes.len() - 1).unwrap();
                if ok2 || !guards2 {
                    return Err(mismatch("encoding into a slice one byte too small", json!("error, guards intact"), json!({"ok": ok2, "guards": guards2})));
                }
            }
            // decode what was written, with two different poison suffixes beyond the logical end
            let mut decoded = Value::Null;
            for poison in [0x00u8, 0xFF] {
                match dec_bytes(name, &bytes, poison).unwrap() {
                    Ok((val, consumed)) => {
                        if consumed != bytes.len() {
                            return Err(mismatch("bytes consumed when decoding the encoder's output", json!(bytes.len()), json!(consumed)));
                        }
                        decoded = val;
                    }
                    Err((_, text)) => return Err(mismatch("decoding the encoder's output", json!("ok"), json!(text))),
                }
            }
            // with k extra bytes appended the same value is decoded and exactly k bytes remain
            let mut longer = bytes.clone();
            longer.extend_from_slice(&[0xFF, 0x00, 0x01]);
            match dec_bytes(name, &longer, 0x7E).unwrap() {
                Ok((val, consumed)) if val == decoded && consumed == bytes.len() => {}
                other => {
                    return Err(mismatch("decoding with a suffix appended", json!({"consumed": bytes.len()}), json!(other.map_err(|e| e.1))));
                }
            }
            Ok(json!({"ok": true, "bytes": bytes, "decoded": decoded}))
        }
    }
}

fn run_value(case: &Value) -> Option<Value> {
    let name = case["type"].as_str().unwrap_or("");
    let v = &case["v"];
    let want = &case["enc"];
    let obs = match observe_value(name, v) {
        Ok(o) => o,
        Err(f) => return Some(f),
    };
    if want["ok"] == false {
        if obs["ok"] != false {
            return Some(mismatch("value outside the range must be refused", json!("refused"), obs));
        }
        return None;
    }
    if obs["ok"] != true {
        return Some(mismatch("encoder refused a value the format can hold", want.clone(), obs));
    }
    let unordered = name.starts_with("hdict");
    let wb = to_bytes(&want["bytes"]);
    let ob = to_bytes(&obs["bytes"]);
    if (!unordered && ob != wb) || ob.len() != wb.len() || ob.first() != wb.first() {
        return Some(mismatch("encoded bytes", want["bytes"].clone(), obs["bytes"].clone()));
    }
    if &obs["decoded"] != v {
        return Some(mismatch("round trip value", v.clone(), obs["decoded"].clone()));
    }
    None
}

/// Dictionaries are compared as sets of entries: arrays of {"k", "v"} objects are put in key order on both sides
/// (the model lists entries in wire order, BTreeMap / HashMap have their own orders).
pub fn canon(v: &Value) -> Value {
    match v {
        Value::Array(a) => {
            let mut items: Vec<Value> = a.iter().map(canon).collect();
            if !items.is_empty() && items.iter().all(|x| x.is_object() && x.get("k").is_some() && x.get("v").is_some()) {
                items.sort_by_key(|x| x["k"].to_string());
            }
            Value::Array(items)
        }
        Value::Object(o) => Value::Object(o.iter().map(|(k, x)| (k.clone(), canon(x))).collect()),
        other => other.clone(),
    }
}

fn run_bytes(case: &Value) -> Option<Value> {
    let name = case["type"].as_str().unwrap_or("");
    let bytes = to_bytes(&case["bytes"]);
    let want_ok = case["ok"].as_bool().unwrap_or(false);
    let want_v = canon(&case["v"]);
    let mut first: Option<Result<(Value, usize), (bool, String)>> = None;
    for poison in [0x00u8, 0xFF] {
        crate::MAX_GRANTED.store(0, std::sync::atomic::Ordering::Relaxed);
        let t0 = crate::util::thread_cpu_ms();
        let Some(r) = dec_bytes(name, &bytes, poison) else { return Some(json!({"kind": "harness", "what": format!("unknown type {name}")})) };
        let granted = crate::MAX_GRANTED.load(std::sync::atomic::Ordering::Relaxed);
        let elapsed = crate::util::thread_cpu_ms().saturating_sub(t0); // CPU time: not inflated by a busy machine
        // cost is governed by the length of the input, not by the sizes it announces
        if granted > 64 * bytes.len() + 4096 {
            return Some(json!({"kind": "cost", "what": "memory claimed according to an announced size", "granted_bytes": granted, "input_len": bytes.len()}));
        }
        if elapsed > 2000 {
            return Some(json!({"kind": "cost", "what": "time spent according to an announced size", "elapsed_ms": elapsed, "input_len": bytes.len()}));
        }
        match &r {
            Ok((val, consumed)) => {
                if !want_ok {
                    return Some(mismatch("decoder accepted bytes the format forbids", json!({"error": case["err"]}), json!({"v": val, "consumed": consumed})));
                }
                if canon(val) != want_v || *consumed as u64 != case["consumed"].as_u64().unwrap_or(0) {
                    return Some(mismatch("decoded value / bytes consumed", json!({"v": case["v"], "consumed": case["consumed"]}), json!({"v": val, "consumed": consumed})));
                }
            }
            Err((display_ok, text)) => {
                if want_ok {
                    return Some(mismatch("decoder refused valid bytes", json!({"v": case["v"]}), json!(text)));
                }
                if !display_ok {
                    return Some(json!({"kind": "panic", "what": "Display of the returned error panicked", "msg": text}));
                }
                if let Some(what) = AFTERMATH.with(|a| a.borrow_mut().take()) {
                    return Some(json!({"kind": "mismatch", "what": "after a failed decode the decoder is no longer inside its buffer", "observed": what}));
                }
            }
        }
        if let Some(prev) = &first {
            let same = match (prev, &r) {
                (Ok(a), Ok(b)) => a == b,
                (Err(_), Err(_)) => true,
                _ => false,
            };
            if !same {
                return Some(json!({"kind": "mismatch", "what": "result depends on bytes beyond the logical end of the buffer"}));
            }
        } else {
            first = Some(r);
        }
    }
    None
}

impl Family for Wire {
    fn run(&mut self, case: &Value) -> Outcome {
        let is_value = case.get("enc").is_some();
        let rendered = if is_value { json!({"type": case["type"], "v": case["v"]}) } else { json!({"type": case["type"], "bytes": case["bytes"]}) };
        let key = hash_str(&rendered.to_string());
        let fail = if is_value { run_value(case) } else { run_bytes(case) };
        let nontrivial = if is_value {
            // anything but the 1-byte encodings of tiny values
            case["enc"]["ok"] == false || case["enc"]["bytes"].as_array().map(|a| a.len() > 1).unwrap_or(false)
        } else {
            case["bytes"].as_array().map(|a| !a.is_empty()).unwrap_or(false)
        };
        Outcome { fail, nontrivial, key, rendered }
    }
}

// ---------------------------------------------------------------------------------------------------------------------
// (T) recorded sweeps for Trace_Wire

fn random_string(rng: &mut crate::util::Rng) -> String {
    let n = rng.below(6);
    let mut s = String::new();
    for _ in 0..n {
        let cp = match rng.below(6) {
            0 => rng.below(0x80),
            1 => 0x80 + rng.below(0x780),
            2 => 0x800 + rng.below(0xF800),
            3 => 0x10000 + rng.below(0x100000),
            _ => *rng.pick(&[0u64, 0x7F, 0x80, 0x7FF, 0x800, 0xD7FF, 0xE000, 0xFFFF, 0x10000, 0x10FFFF]),
        } as u32;
        s.push(char::from_u32(cp).unwrap_or('\u{fffd}'));
    }
    s
}

/// One recorded encode event: the value is given as JSON of the shape the model uses.
fn emit_enc(out: &mut impl std::io::Write, name: &str, v: Value) {
    let ev = match std::panic::catch_unwind(|| observe_value(name, &v)) {
        Ok(Ok(o)) => {
            if o["ok"] == true {
                json!({"ev": "enc", "type": name, "v": v, "ok": true, "bytes": o["bytes"], "decoded": o["decoded"]})
            } else {
                json!({"ev": "enc", "type": name, "v": v, "ok": false, "bytes": [], "decoded": 0})
            }
        }
        Ok(Err(f)) => json!({"ev": "harness-mismatch", "type": name, "v": v, "detail": f}),
        Err(_) => json!({"ev": "crash", "type": name, "v": v}),
    };
    let _ = writeln!(out, "{ev}");
}

/// One container of n fixed-width elements through the real encoder and decoder: what stands in front of the first
/// element, the total length, whether decoding gives the value back and how much it consumes.
macro_rules! emit_big {
    ($out:expr, $name:expr, $n:expr, $width:expr, $ty:ty, $value:expr) => {{
        let (n, width, value): (usize, usize, $ty) = ($n, $width, $value);
        let r = std::panic::catch_unwind(|| {
            let mut buf: Vec<u8> = Vec::new();
            let ok = Encoder::from(&mut buf).encode(&value).is_ok();
            if !ok {
                return json!({"ev": "bigenc", "type": $name, "n": n, "width": width, "ok": false, "head": [], "total": 0, "same": false, "consumed": 0});
            }
            let head = buf.len().saturating_sub(n * width);
            let mut longer = buf.clone();
            longer.extend_from_slice(&[0xFF, 0x00]);
            let mut dec = Decoder::from(longer.as_slice());
            let back: Result<$ty, _> = dec.decode();
            let consumed = longer.len() - dec.remaining();
            json!({"ev": "bigenc", "type": $name, "n": n, "width": width, "ok": true, "head": buf[..head.min(12)].to_vec(), "total": buf.len(),
                   "same": back.map(|b| b == value).unwrap_or(false), "consumed": consumed})
        });
        let ev = r.unwrap_or_else(|_| json!({"ev": "crash", "type": $name, "v": n}));
        let _ = writeln!($out, "{ev}");
    }};
}

pub fn record(n: u64) {
    use std::io::Write;
    crate::supervisor::install_quiet_panic_hook();
    let mut rng = crate::util::Rng::new(crate::util::seed_from_env() ^ 0xC10);
    let out = std::io::stdout();
    let mut out = std::io::BufWriter::new(out.lock());
    // containers at the steps of the size prefix (and one random size in between): the count is the point
    let mut sizes: Vec<usize> = vec![31, 32, 63, 64, 8191, 8192, 8193, 16383, 16384, 16385, 65535, 65536];
    sizes.push(8192 + rng.below(8192) as usize);
    sizes.push(70_000 + rng.below(1 << 20) as usize);
    for &k in &sizes {
        emit_big!(out, "seq_u8", k, 1, Vec<u8>, (0..k).map(|i| i as u8).collect());
        emit_big!(out, "seq_bool", k, 1, Vec<bool>, (0..k).map(|i| i % 3 == 0).collect());
        emit_big!(out, "seq_i16", k, 2, Vec<i16>, (0..k).map(|i| i as i16).collect());
        emit_big!(out, "seq_f64", k, 8, Vec<f64>, (0..k).map(|i| i as f64 * 0.5).collect());
        emit_big!(out, "string", k, 1, String, (0..k).map(|i| (b'a' + (i % 26) as u8) as char).collect());
        if k <= 65536 {
            emit_big!(out, "dict_u16_u8", k, 3, BTreeMap<u16, u8>, (0..k).map(|i| (i as u16, i as u8)).collect());
            emit_big!(out, "hdict_u16_u8", k, 3, HashMap<u16, u8>, (0..k).map(|i| (i as u16, i as u8)).collect());
        }
    }
    // long strings of multi-byte characters behind 0..3 one-byte characters (whatever unit the code copies or validates in, some
    // character straddles its border)
    for (ch, reps) in [('\u{e9}', 1000usize), ('\u{20ac}', 700), ('\u{1f600}', 600), ('\u{e9}', 5000)] {
        for lead in 0..4usize {
            let s: String = "x".repeat(lead) + &ch.to_string().repeat(reps);
            emit_big!(out, "string", s.len(), 1, String, s);
        }
    }
    let _ = out.flush();
    // strided sweep of the variable-width integers below 2^30 (both signs), stride derived from n
    let stride = ((1u64 << 30) / (n / 4).max(1)).max(1);
    let mut x = rng.below(stride);
    while x < (1 << 30) {
        emit_enc(&mut out, "varuint62", u64_digits(x));
        emit_enc(&mut out, "varint62", u64_digits(x));
        emit_enc(&mut out, "varint62", u64_digits((-(x as i64)) as u64));
        emit_enc(&mut out, "size", u64_digits(x));
        x += stride;
    }
    for i in 0..n / 2 {
        match i % 10 {
            0 => emit_enc(&mut out, "varint62", u64_digits(rng.next())),
            1 => emit_enc(&mut out, "varuint62", u64_digits(rng.next())),
            2 => emit_enc(&mut out, "i64", u64_digits(rng.next())),
            3 => {
                // float bit patterns: every exponent class, NaN payloads, subnormals, zeros, infinities, random
                let bits: u32 = match rng.below(6) {
                    0 => 0x7F80_0000 | (rng.next() as u32 & 0x007F_FFFF) | ((rng.next() as u32 & 1) << 31),
                    1 => rng.next() as u32 & 0x807F_FFFF,
                    2 => *rng.pick(&[0u32, 0x8000_0000, 0x7F80_0000, 0xFF80_0000, 0x7FC0_0000, 1, 0x7F7F_FFFF]),
                    _ => rng.next() as u32,
                };
                emit_enc(&mut out, "f32", u64_digits(bits as u64));
            }
            4 => {
                let bits: u64 = match rng.below(6) {
                    0 => 0x7FF0_0000_0000_0000 | (rng.next() & 0x000F_FFFF_FFFF_FFFF) | ((rng.next() & 1) << 63),
                    1 => rng.next() & 0x800F_FFFF_FFFF_FFFF,
                    2 => *rng.pick(&[0u64, 1 << 63, 0x7FF0_0000_0000_0000, 0xFFF0_0000_0000_0000, 1]),
                    _ => rng.next(),
                };
                emit_enc(&mut out, "f64", u64_digits(bits));
            }
            5 => emit_enc(&mut out, "string", random_string(&mut rng).to_json()),
            6 => {
                let v: Vec<String> = (0..rng.below(4)).map(|_| random_string(&mut rng)).collect();
                emit_enc(&mut out, "seq_string", v.to_json());
            }
            7 => {
                let v: Vec<Vec<u8>> = (0..rng.below(4)).map(|_| (0..rng.below(5)).map(|_| rng.next() as u8).collect()).collect();
                emit_enc(&mut out, "seq_seq_u8", v.to_json());
            }
            8 => {
                let mut m: BTreeMap<u8, BTreeMap<u8, bool>> = BTreeMap::new();
                for _ in 0..rng.below(4) {
                    let mut inner = BTreeMap::new();
                    for _ in 0..rng.below(3) {
                        inner.insert(rng.next() as u8, rng.chance(1, 2));
                    }
                    m.insert(rng.next() as u8, inner);
                }
                emit_enc(&mut out, "dict_u8_dict_u8_bool", m.to_json());
            }
            _ => {
                let mut m: BTreeMap<String, bool> = BTreeMap::new();
                for _ in 0..rng.below(4) {
                    m.insert(random_string(&mut rng), rng.chance(1, 2));
                }
                emit_enc(&mut out, "dict_string_bool", m.to_json());
            }
        }
    }
}

const DEC_TYPES: &[&str] = &[
    "bool", "u8", "i16", "u32", "i64", "f64", "varint32", "varint62", "varuint32", "varuint62", "size", "string", "seq_u8",
    "seq_bool", "seq_i16", "seq_string", "seq_seq_u8", "seq_seq_seq_bool", "dict_u8_u8", "hdict_u8_u8", "dict_string_bool",
    "dict_u8_seq_u8", "dict_u8_dict_u8_bool", "tagged",
];

/// Random and mutated byte strings up to 64 bytes, decoded by the real code (C11).
pub fn record_dec(n: u64) {
    use std::io::Write;
    crate::supervisor::install_quiet_panic_hook();
    let mut rng = crate::util::Rng::new(crate::util::seed_from_env() ^ 0xC11);
    let out = std::io::stdout();
    let mut out = std::io::BufWriter::new(out.lock());
    for i in 0..n {
        let name = DEC_TYPES[(i % DEC_TYPES.len() as u64) as usize];
        let len = if rng.chance(1, 5) { rng.below(65) } else { rng.below(12) } as usize;
        let mut bytes: Vec<u8> = Vec::with_capacity(len);
        for _ in 0..len {
            // biased towards small counts, width codes, UTF-8 structure bytes and the tag-end marker
            let b = match rng.below(4) {
                0 => rng.next() as u8,
                1 => (rng.below(6) * 4) as u8,
                2 => *rng.pick(&[0u8, 1, 2, 4, 8, 12, 0x7F, 0x80, 0xBF, 0xC2, 0xE0, 0xED, 0xF0, 0xF4, 0xFC, 0xFF]),
                _ => rng.below(8) as u8,
            };
            bytes.push(b);
        }
        let r = std::panic::catch_unwind(|| dec_bytes(name, &bytes, 0x3C));
        let ev = match r {
            Ok(Some(Ok((v, consumed)))) => json!({"ev": "dec", "type": name, "bytes": bytes, "ok": true, "v": v, "consumed": consumed, "inside": true}),
            Ok(Some(Err((display_ok, text)))) => {
                if display_ok {
                    // inside: the decoder is still a decoder over its buffer after the error
                    let after = AFTERMATH.with(|a| a.borrow_mut().take());
                    json!({"ev": "dec", "type": name, "bytes": bytes, "ok": false, "v": 0, "consumed": 0, "inside": after.is_none(), "after": after.unwrap_or_default()})
                } else {
                    json!({"ev": "display-panic", "type": name, "bytes": bytes, "text": text})
                }
            }
            _ => json!({"ev": "crash", "type": name, "bytes": bytes}),
        };
        let _ = writeln!(out, "{ev}");
    }
}
