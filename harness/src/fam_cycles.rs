// C05: containment / alias / inheritance graphs printed by MC_CyclesGen are rendered as programs and compiled; the
// observed outcome is written as one event per program for Trace_Cycles (the verdict is TLC's, from the reference).
// contain: {"family":"contain","n","edges":[{"a","b","w"}],"kinds":"struct"|"enum"|"alt","compact":bool}
// alias:   {"family":"alias","n","target":[0..n]}       inherit: {"family":"inherit","n","edges":[{"a","b"}]}

use crate::util::{emit_event, hash_str};
use crate::{Family, Outcome};
use serde_json::{json, Value};
use slicec::diagnostics::DiagnosticLevel;

#[derive(Default)]
pub struct Cycles;

fn wrap(w: u64, t: &str) -> String {
    match w {
        1 => t.to_owned(),
        2 => format!("{t}?"),
        3 => format!("Sequence<{t}>"),
        4 => format!("Dictionary<int32, {t}>"),
        5 => format!("Dictionary<{t}, int32>"),
        6 => format!("Result<{t}, bool>"),
        7 => format!("Result<Sequence<bool>, {t}?>"),
        // wrappers inside wrappers
        10 => format!("Sequence<Sequence<{t}>>"),
        11 => format!("Dictionary<string, Sequence<{t}>>"),
        12 => format!("Sequence<Result<{t}, string>>"),
        13 => format!("Result<Sequence<{t}>?, int32>"),
        _ => format!("Result<Sequence<bool>, {t}?>"),
    }
}

fn is_enum(kinds: &str, i: usize) -> bool {
    match kinds {
        "enum" | "enumu" => true,
        "alt" => i % 2 == 0,
        _ => false,
    }
}

pub fn render_contain(case: &Value) -> String {
    let n = case["n"].as_u64().unwrap_or(0) as usize;
    let kinds = case["kinds"].as_str().unwrap_or("struct");
    let compact = case["compact"].as_bool().unwrap_or(false);
    let edges = case["edges"].as_array().cloned().unwrap_or_default();
    let mut out = String::from("module M\n");
    for i in 1..=n {
        let fields: Vec<String> = edges
            .iter()
            .enumerate()
            .filter(|(_, e)| e["a"].as_u64() == Some(i as u64))
            .map(|(k, e)| {
                let (w, t) = (e["w"].as_u64().unwrap_or(1), format!("T{}", e["b"]));
                match w {
                    // tagged members (necessarily optional; not in compact types, where the plain optional form stands in)
                    8 | 9 if compact => format!("f{}: {}", k + 1, wrap(2, &t)),
                    8 => format!("tag({}) f{}: {t}?", k + 1, k + 1),
                    9 => format!("tag({}) f{}: Sequence<{t}>?", k + 1, k + 1),
                    _ => format!("f{}: {}", k + 1, wrap(w, &t)),
                }
            })
            .collect();
        if is_enum(kinds, i) {
            // fields hang off the third enumerator, after one without fields and one with an unrelated field
            if fields.is_empty() {
                out.push_str(&format!("enum T{i} {{ X }}\n"));
            } else {
                // ("enumu": with an underlying type - fields are illegal there, but what contains itself contains itself)
                let under = if kinds == "enumu" { " : uint8" } else { "" };
                out.push_str(&format!("enum T{i}{under} {{ X, Y(n: int32), Z({}) }}\n", fields.join(", ")));
            }
        } else {
            let c = if compact && !fields.is_empty() { "compact " } else { "" };
            out.push_str(&format!("{c}struct T{i} {{ {} }}\n", fields.join(", ")));
        }
    }
    // every node is also used from auxiliary definitions (later phases recurse through the containment graph)
    out.push_str("struct Aux {\n");
    for i in 1..=n {
        out.push_str(&format!("  k{i}: Dictionary<T{i}, bool>,\n  v{i}: Dictionary<string, T{i}>,\n  s{i}: Sequence<T{i}?>,\n"));
    }
    out.push_str("}\n");
    for i in 1..=n {
        out.push_str(&format!("typealias A{i} = T{i}\n"));
    }
    out.push_str("interface I {\n");
    for i in 1..=n {
        out.push_str(&format!("  op{i}(p: T{i}, q: A{i}?) -> Sequence<T{i}>\n"));
    }
    out.push_str("}\n");
    out
}

fn node_index(name: &str) -> Option<u64> {
    name.rsplit("::").next()?.strip_prefix('T')?.parse().ok()
}

/// The program of a case split into files: one file per node of the graph (an interface / alias / type per file, each with
/// the module line), what is left (users of the nodes) in a last file - for the order-independence runs of C15.
pub fn render_split(case: &Value) -> Vec<String> {
    let text = render_text(case);
    let mut lines = text.lines();
    let module = lines.next().unwrap_or("module M").to_owned();
    let n = case["n"].as_u64().unwrap_or(0) as usize;
    let mut files: Vec<String> = Vec::new();
    let mut rest = String::new();
    for l in lines {
        if files.len() < n {
            files.push(format!("{module}\n{l}\n"));
        } else {
            rest.push_str(l);
            rest.push('\n');
        }
    }
    if !rest.is_empty() {
        files.push(format!("{module}\n{rest}"));
    }
    files
}

pub fn render_text(case: &Value) -> String {
        let family = case["family"].as_str().unwrap_or("");
        let n = case["n"].as_u64().unwrap_or(0);
        match family {
            "contain" => render_contain(case),
            "alias" => {
                let mut s = String::from("module M\n");
                for (i, t) in case["target"].as_array().cloned().unwrap_or_default().iter().enumerate() {
                    let t = t.as_u64().unwrap_or(0);
                    let target = if t == 0 { "int32".to_owned() } else { format!("L{t}") };
                    let w = case["w"][i].as_u64().unwrap_or(1);
                    s.push_str(&format!("typealias L{} = {}\n", i + 1, wrap(w, &target)));
                }
                // each alias is also used
                s.push_str("struct U {\n");
                for i in 1..=n {
                    s.push_str(&format!("  u{i}: L{i},\n"));
                }
                s.push_str("}\n");
                s
            }
            "inherit" => {
                let edges = case["edges"].as_array().cloned().unwrap_or_default();
                let mut s = String::from("module M\n");
                for i in 1..=n {
                    let bases: Vec<String> = edges.iter().filter(|e| e["a"].as_u64() == Some(i)).map(|e| format!("J{}", e["b"])).collect();
                    let b = if bases.is_empty() { String::new() } else { format!(" : {}", bases.join(", ")) };
                    s.push_str(&format!("interface J{i}{b} {{ op{i}() }}\n"));
                }
                s
            }
            _ => String::new(),
        }
}

/// the event of a containment graph from the errors of (one module of) its compilation
fn contain_event(case: &Value, n: u64, errors: &[&slicec::diagnostics::Diagnostic]) -> Value {
    let pairs: Vec<Value> = case["edges"].as_array().cloned().unwrap_or_default().iter().map(|e| json!([e["a"], e["b"]])).collect();
    let mut codes: Vec<String> = errors.iter().map(|d| d.code().to_owned()).collect();
    codes.sort();
    codes.dedup();
    let mut reported = Vec::new();
    let mut unparsed = 0;
    for d in errors.iter().filter(|d| d.code() == "E032") {
        // "... : M::T1 -> M::T2 -> M::T1": the chain is what follows the last ": "
        let msg = d.message();
        let chain: Vec<Option<u64>> = msg.rsplit(": ").next().unwrap_or("").split(" -> ").map(node_index).collect();
        if chain.iter().any(|c| c.is_none()) || chain.is_empty() {
            unparsed += 1;
            continue;
        }
        let chain: Vec<u64> = chain.into_iter().flatten().collect();
        // the type the diagnostic is attached to: its span is the definition's
        reported.push(json!({"root": chain[0], "chain": chain, "notes": d.notes().len()}));
    }
    json!({"ev": "contain", "n": n, "edges": pairs, "reported": reported, "unparsed": unparsed, "accepted": errors.is_empty(),
           "cycle_errors": errors.iter().filter(|d| d.code() == "E032").count(), "codes": codes})
}

impl Family for Cycles {
    fn run(&mut self, case: &Value) -> Outcome {
        let family = case["family"].as_str().unwrap_or("");
        let n = case["n"].as_u64().unwrap_or(0);
        let text = render_text(case);
        let key = hash_str(&text);
        let rendered = json!({"text": text});
        // a third of the containment graphs is compiled together with its twin: the same definitions, same names, in module N
        // (a second file) - every module has its own cycles, and each gets its own event
        let twin = family == "contain" && (key >> 6) % 3 == 0;
        let twin_text = text.replacen("module M", "module N", 1);
        let state = if twin { slicec::compile_from_strings(&[&text, &twin_text], None) } else { slicec::compile_from_strings(&[&text], None) };
        let diags = state.into_diagnostics(&Default::default());
        let all_errors: Vec<&slicec::diagnostics::Diagnostic> = diags.iter().filter(|d| d.level() == DiagnosticLevel::Error).collect();
        if twin {
            // the errors of module N (its file is string-1) as an event of their own
            let errors: Vec<&slicec::diagnostics::Diagnostic> = all_errors.iter().filter(|d| d.span().map(|s| s.file == "string-1").unwrap_or(false)).copied().collect();
            emit_event("cycles", &contain_event(case, n, &errors));
        }
        let errors: Vec<&slicec::diagnostics::Diagnostic> = if twin { all_errors.iter().filter(|d| d.span().map(|s| s.file != "string-1").unwrap_or(true)).copied().collect() } else { all_errors };
        let accepted = errors.is_empty();
        let pairs: Vec<Value> = case["edges"].as_array().cloned().unwrap_or_default().iter().map(|e| json!([e["a"], e["b"]])).collect();
        let mut codes: Vec<String> = errors.iter().map(|d| d.code().to_owned()).collect();
        codes.sort();
        codes.dedup();
        let ev = match family {
            "contain" => contain_event(case, n, &errors),
            "alias" => {
                let mut e019: Vec<u64> = errors
                    .iter()
                    .filter(|d| d.code() == "E019")
                    .filter_map(|d| {
                        // the alias the diagnostic is about is the one whose definition the span points at: row = index + 1
                        d.span().map(|s| (s.start.row as u64).saturating_sub(1))
                    })
                    .collect();
                e019.sort();
                e019.dedup();
                json!({"ev": "alias", "n": n, "target": case["target"], "w": case["w"], "e019": e019, "accepted": accepted, "codes": codes})
            }
            _ => {
                // every E037: the interface it is attached to (one interface per row, J{i} on row i + 1) and the chain of
                // base interfaces it reports ("...: M::J1 -> M::J2 -> M::J1")
                let mut e037 = Vec::new();
                for d in errors.iter().filter(|d| d.code() == "E037") {
                    let root = d.span().map(|s| (s.start.row as u64).saturating_sub(1)).unwrap_or(0);
                    let msg = d.message();
                    let chain: Vec<u64> = msg
                        .rsplit(": ")
                        .next()
                        .unwrap_or("")
                        .split(" -> ")
                        .map(|x| x.trim().strip_prefix("M::J").and_then(|k| k.parse::<u64>().ok()).unwrap_or(0))
                        .collect();
                    e037.push(json!({"root": root, "chain": chain}));
                }
                json!({"ev": "inherit", "n": n, "edges": pairs, "accepted": accepted, "codes": codes, "e037": e037})
            }
        };
        emit_event("cycles", &ev);
        let nontrivial = !pairs.is_empty() || family == "alias";
        Outcome { fail: None, nontrivial, key, rendered }
    }
}
