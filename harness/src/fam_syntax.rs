// C02 (and the shared front end of C09 / C20 / C08): programs printed by MC_Syntax.
// case: {"files": [{"out": [{"sep": [cls..], "tok": {...}}], "spans": [...]}], "expect": [File..]}
// The harness concatenates separators and token spellings, compiles, projects the AST and compares it structurally
// with the expectation (after rewriting the model's attribute / number notation into the projection's).

use crate::ast_project;
use crate::util::{hash_str, mismatch, strs};
use crate::{Family, Outcome};
use serde_json::{json, Value};
use slicec::diagnostics::DiagnosticLevel;

#[derive(Default)]
pub struct Syntax {
    /// "ast" (C02), "visit" (C20), "spans" (C09)
    pub mode: &'static str,
}

/// string literal table: (raw text between the quotes, unescaped value)
pub const STRINGS: [(&str, &str); 10] = [
    ("plain", "plain"),
    ("a\\\"b", "a\"b"),
    ("back\\\\slash", "back\\slash"),
    ("caf\u{e9} \u{4e2d}", "caf\u{e9} \u{4e2d}"),
    ("x]y,z)", "x]y,z)"),
    ("", ""),
    ("a // b /* c", "a // b /* c"),
    // escapes at the very start and at the very end of a literal, two backslashes in a row
    ("\\\"start", "\"start"),
    ("\\\\\\\\srv\\\\x", "\\\\srv\\x"),
    ("end\\\\", "end\\"),
];

pub fn sep_text(cls: &str) -> &'static str {
    match cls {
        "sp" => " ",
        "tab" => "\t",
        "nl" => "\n",
        "cr" => "\r",
        "bc" => "/*c\u{e9}*/",
        "lc" => "//c",
        "lc4" => "////x",
        "ws3" => "\u{3000}",
        "bc2" => "/* x **/",
        "bc3" => "/***/",
        "bc4" => "/*/ x */",
        "bc5" => "/* a/b *c/ */",
        "ppskip" => "\n#if NOPE\nstruct Hidden {}\n#endif\n",
        "ppdef" => "\n#define ZED\n",
        _ => " ",
    }
}

pub fn tok_text(t: &Value) -> String {
    match t["k"].as_str().unwrap_or("") {
        "w" | "num" => t["s"].as_str().unwrap_or("").to_owned(),
        "esc" => format!("\\{}", t["s"].as_str().unwrap_or("")),
        "str" => format!("\"{}\"", STRINGS[t["id"].as_u64().unwrap_or(1) as usize - 1].0),
        "doc" => format!("/// doc{}", t["id"]),
        _ => String::new(),
    }
}

pub fn render_file(out: &Value) -> String {
    let mut s = String::new();
    for item in out.as_array().cloned().unwrap_or_default() {
        for c in strs(&item["sep"]) {
            s.push_str(sep_text(&c));
        }
        s.push_str(&tok_text(&item["tok"]));
    }
    // how the file ends is layout too: a line break, nothing at all, a comment that the end of the file closes, ...
    const ENDINGS: [&str; 6] = ["\n", "", " // the end", "\n/* the end */", "\r\n", "\n\n\t"];
    s.push_str(ENDINGS[((hash_str(&s) >> 4) % ENDINGS.len() as u64) as usize]);
    s
}

/// Rewrites the model's notation into the projection's: attributes {d: [segs], paren, args: [{q, id, s}]} -> {d, args};
/// enumerator values {base, plus} -> decimal text.
pub fn normalise(v: &Value) -> Value {
    match v {
        Value::Array(a) => Value::Array(a.iter().map(normalise).collect()),
        Value::Object(o) => {
            if o.contains_key("d") && o.contains_key("paren") {
                let d = strs(&o["d"]).join("::");
                let args: Vec<String> = o["args"]
                    .as_array()
                    .cloned()
                    .unwrap_or_default()
                    .iter()
                    .map(|a| {
                        if a["q"] == true {
                            STRINGS[a["id"].as_u64().unwrap_or(1) as usize - 1].1.to_owned()
                        } else {
                            a["s"].as_str().unwrap_or("").to_owned()
                        }
                    })
                    .collect();
                return json!({"d": d, "args": args});
            }
            if o.len() == 2 && o.contains_key("base") && o.contains_key("plus") {
                let base: i128 = o["base"].as_str().unwrap_or("0").parse().unwrap_or(0);
                return json!((base + o["plus"].as_i64().unwrap_or(0) as i128).to_string());
            }
            Value::Object(o.iter().map(|(k, x)| (k.clone(), normalise(x))).collect())
        }
        other => other.clone(),
    }
}

/// First path at which two JSON values differ (for readable failure reports).
pub fn first_diff(a: &Value, b: &Value, path: &str) -> Option<String> {
    if a == b {
        return None;
    }
    match (a, b) {
        (Value::Object(x), Value::Object(y)) => {
            // every key once (visiting the keys of both sides one after the other doubled the work at every level of
            // nesting: deep type expressions took minutes)
            for k in x.keys().chain(y.keys().filter(|k| !x.contains_key(*k))) {
                match (x.get(k), y.get(k)) {
                    (Some(p), Some(q)) => {
                        if let Some(d) = first_diff(p, q, &format!("{path}.{k}")) {
                            return Some(d);
                        }
                    }
                    _ => return Some(format!("{path}.{k} (present on one side only)")),
                }
            }
            None
        }
        (Value::Array(x), Value::Array(y)) => {
            if x.len() != y.len() {
                return Some(format!("{path} (length {} vs {})", x.len(), y.len()));
            }
            for (i, (p, q)) in x.iter().zip(y.iter()).enumerate() {
                if let Some(d) = first_diff(p, q, &format!("{path}[{i}]")) {
                    return Some(d);
                }
            }
            None
        }
        _ => {
            if a == b {
                None
            } else {
                Some(format!("{path}: expected {a} observed {b}"))
            }
        }
    }
}

impl Family for Syntax {
    fn run(&mut self, case: &Value) -> Outcome {
        let files = case["files"].as_array().cloned().unwrap_or_default();
        let texts: Vec<String> = files.iter().map(|f| render_file(&f["out"])).collect();
        let refs: Vec<&str> = texts.iter().map(|s| s.as_str()).collect();
        let key = hash_str(&texts.join("\u{1}"));
        let rendered = json!({"files": texts});
        let state = slicec::compile_from_strings(&refs, None);
        // the AST is only complete (every reference patched) when no error was reported
        let clean = !state.diagnostics.has_errors();
        let observed = if clean { Value::Array(state.files.iter().map(ast_project::file).collect()) } else { Value::Null };
        // C09: every element path the printer knows, with the facts its span must satisfy
        let mut span_failure: Option<Value> = None;
        if clean && self.mode == "spans" {
            'outer: for (fi, f) in files.iter().enumerate() {
                let nrows = texts[fi].lines().count();
                for facts in f["spans"].as_array().cloned().unwrap_or_default() {
                    let path = facts["el"].as_array().cloned().unwrap_or_default();
                    let last = path.last().and_then(|v| v.as_str()).unwrap_or("");
                    let prev_is_index = path.len() >= 2 && path[path.len() - 1].is_number();
                    let kind_step = if prev_is_index { path[path.len() - 2].as_str().unwrap_or("") } else { last };
                    let Some(span) = ast_project::span_at(&state.files, &path) else {
                        span_failure = Some(json!({"kind": "mismatch", "what": "no element found at a path the source declares", "el": path}));
                        break 'outer;
                    };
                    let s = json!([span.start.row, span.start.col]);
                    let e = json!([span.end.row, span.end.col]);
                    let inside = span.start.row >= 1 && span.start.col >= 1 && span.end.row <= nrows + 1 && (span.start.row, span.start.col) <= (span.end.row, span.end.col);
                    // identifiers, type references, attributes, integers: exactly the text; declarations: first token
                    // of the declaration proper, name included, end on a token of the element
                    let exact = matches!(kind_step, "id" | "t" | "e" | "k" | "v" | "s" | "x" | "u" | "b" | "a" | "fa" | "tag" | "val");
                    let ok = if exact {
                        s == facts["lo"] && e == facts["hi"]
                    } else {
                        let name_ok = match facts["name"].as_array() {
                            Some(n) if n.len() == 2 => {
                                let ns = (n[0][0].as_u64().unwrap_or(0), n[0][1].as_u64().unwrap_or(0));
                                let ne = (n[1][0].as_u64().unwrap_or(0), n[1][1].as_u64().unwrap_or(0));
                                (span.start.row as u64, span.start.col as u64) <= ns && ne <= (span.end.row as u64, span.end.col as u64)
                            }
                            _ => true,
                        };
                        s == facts["first"] && name_ok && facts["ends"].as_array().map(|a| a.contains(&e)).unwrap_or(false)
                    };
                    if !inside || !ok || span.file != format!("string-{fi}") {
                        span_failure = Some(json!({"kind": "mismatch", "what": format!("span of a '{kind_step}' element"), "el": path, "exact": exact,
                                                   "observed": [s, e], "facts": facts}));
                        break 'outer;
                    }
                }
            }
        }
        // C03: every definition, field, enumerator, operation (and parameter) can be retrieved by its fully scoped name
        if clean && self.mode == "find" {
            span_failure = find_all(&state);
        }
        let visited: Vec<Value> = if clean && self.mode == "visit" {
            state
                .files
                .iter()
                .map(|f| {
                    let mut r = ast_project::Recorder::default();
                    f.visit_with(&mut r);
                    Value::Array(r.events)
                })
                .collect()
        } else {
            vec![]
        };
        // every walk is also an event for Trace_Visitor: the model's element tree of the file and what was presented
        if self.mode == "visit" {
            for (fi, got) in visited.iter().enumerate() {
                crate::util::emit_event("visit", &json!({"ev": "walk", "f": fi + 1, "tree": case["tree"][fi], "got": got}));
            }
        }
        let diags = state.into_diagnostics(&Default::default());
        let errors: Vec<String> = diags
            .iter()
            .filter(|d| d.level() == DiagnosticLevel::Error)
            .map(|d| format!("{} {} @{:?}", d.code(), d.message(), d.span().map(|s| (s.file.clone(), s.start.row, s.start.col))))
            .collect();
        let expect = normalise(&case["expect"]);
        let fail = if !errors.is_empty() {
            Some(mismatch("a well-formed model program was rejected", json!([]), json!(errors)))
        } else if self.mode == "spans" || self.mode == "find" {
            span_failure
        } else if self.mode == "visit" {
            first_diff(&case["visit"], &Value::Array(visited), "visit").map(|d| json!({"kind": "mismatch", "what": "visitor callbacks differ from the pre-order walk of the file", "at": d}))
        } else {
            first_diff(&expect, &observed, "ast").map(|d| json!({"kind": "mismatch", "what": "AST differs from the source", "at": d}))
        };
        let ntok: usize = files.iter().map(|f| f["out"].as_array().map(|a| a.len()).unwrap_or(0)).sum();
        Outcome { fail, nontrivial: ntok > 12, key, rendered }
    }
}


/// Looks every entity of the compiled files up by its scoped identifier; returns the first failure.
fn find_all(state: &slicec::compilation_state::CompilationState) -> Option<Value> {
    use slicec::grammar::*;
    let ast = &state.ast;
    macro_rules! check {
        ($ty:ty, $e:expr) => {{
            let id = $e.parser_scoped_identifier();
            match ast.find_element::<$ty>(&id) {
                Ok(found) => {
                    if found.span() != $e.span() || found.identifier() != $e.identifier() {
                        return Some(json!({"kind": "mismatch", "what": "find_element returned another element", "id": id}));
                    }
                }
                Err(_) => return Some(json!({"kind": "mismatch", "what": "an entity cannot be retrieved by its scoped name", "id": id, "type": stringify!($ty)})),
            }
            if ast.find_element::<$ty>(&format!("{id}x")).is_ok() || ast.find_element::<$ty>(&format!("Zz::{id}")).is_ok() {
                return Some(json!({"kind": "mismatch", "what": "find_element found something for a name nothing declares", "id": id}));
            }
        }};
    }
    for f in &state.files {
        for d in &f.contents {
            match d {
                Definition::Struct(s) => {
                    let s = s.borrow();
                    check!(Struct, s);
                    for x in s.fields() {
                        check!(Field, x);
                    }
                }
                Definition::Enum(e) => {
                    let e = e.borrow();
                    check!(Enum, e);
                    for n in e.enumerators() {
                        check!(Enumerator, n);
                        for x in n.fields() {
                            check!(Field, x);
                        }
                    }
                }
                Definition::Interface(i) => {
                    let i = i.borrow();
                    check!(Interface, i);
                    for o in i.operations() {
                        check!(Operation, o);
                    }
                }
                Definition::CustomType(c) => {
                    let c = c.borrow();
                    check!(CustomType, c);
                }
                Definition::TypeAlias(a) => {
                    let a = a.borrow();
                    check!(TypeAlias, a);
                }
            }
        }
    }
    None
}
