// Projection of the real AST (slicec::grammar) into the neutral JSON shape that the TLA+ models print as expectation.
// No comparison logic here: only reading public fields / accessors.
//
// File   {module, fattrs, mattrs, defs}                 Attr {d: "a::b", args: [str]}
// Def    {k: struct|enum|interface|custom|alias, name, attrs, ...}
// Member {name, tag: "" | decimal, stream, attrs, type}   TypeRef {opt, attrs, t}
// Type   {f: prim, n} | {f: named, target, tk} | {f: seq, e} | {f: dict, k, v} | {f: res, s, x}

use serde_json::{json, Value};
use slicec::grammar::attributes::{Allow, Compress, Deprecated, Oneway, SlicedFormat, Unparsed};
use slicec::grammar::*;
use slicec::slice_file::{SliceFile, Span};

pub fn span_json(s: &Span) -> Value {
    json!({"s": [s.start.row, s.start.col], "e": [s.end.row, s.end.col], "file": s.file})
}

pub fn attr(a: &Attribute) -> Value {
    let (d, args): (String, Vec<String>) = if let Some(u) = a.downcast::<Unparsed>() {
        (u.directive.clone(), u.args.clone())
    } else if let Some(x) = a.downcast::<Deprecated>() {
        ("deprecated".into(), x.reason.iter().cloned().collect())
    } else if let Some(x) = a.downcast::<Allow>() {
        ("allow".into(), x.allowed_lints.clone())
    } else if let Some(x) = a.downcast::<Compress>() {
        let mut v = Vec::new();
        if x.compress_args {
            v.push("Args".to_owned());
        }
        if x.compress_return {
            v.push("Return".to_owned());
        }
        ("compress".into(), v)
    } else if let Some(x) = a.downcast::<SlicedFormat>() {
        let mut v = Vec::new();
        if x.sliced_args {
            v.push("Args".to_owned());
        }
        if x.sliced_return {
            v.push("Return".to_owned());
        }
        ("slicedFormat".into(), v)
    } else if a.downcast::<Oneway>().is_some() {
        ("oneway".into(), vec![])
    } else {
        (a.kind.directive().to_owned(), vec!["?".into()])
    };
    json!({"d": d, "args": args})
}

pub fn attrs(v: Vec<&Attribute>) -> Value {
    Value::Array(v.into_iter().map(attr).collect())
}

pub fn type_ref(tr: &TypeRef) -> Value {
    let t = match tr.concrete_type() {
        Types::Primitive(p) => json!({"f": "prim", "n": p.kind()}),
        Types::Struct(s) => json!({"f": "named", "target": s.module_scoped_identifier(), "tk": "struct", "name": s.identifier()}),
        Types::Enum(e) => json!({"f": "named", "target": e.module_scoped_identifier(), "tk": "enum", "name": e.identifier()}),
        Types::CustomType(c) => json!({"f": "named", "target": c.module_scoped_identifier(), "tk": "custom", "name": c.identifier()}),
        Types::Sequence(s) => json!({"f": "seq", "e": type_ref(&s.element_type)}),
        Types::Dictionary(d) => json!({"f": "dict", "k": type_ref(&d.key_type), "v": type_ref(&d.value_type)}),
        Types::ResultType(r) => json!({"f": "res", "s": type_ref(&r.success_type), "x": type_ref(&r.failure_type)}),
    };
    json!({"opt": tr.is_optional, "attrs": attrs(tr.attributes()), "t": t})
}

pub fn member(name: &str, tag: Option<u32>, stream: bool, a: Vec<&Attribute>, tr: &TypeRef) -> Value {
    json!({"name": name, "tag": tag.map(|t| t.to_string()).unwrap_or_default(), "stream": stream, "attrs": attrs(a), "type": type_ref(tr)})
}

pub fn field(f: &Field) -> Value {
    member(f.identifier(), f.tag(), false, f.attributes(), f.data_type())
}

pub fn parameter(p: &Parameter) -> Value {
    member(p.identifier(), p.tag(), p.is_streamed, p.attributes(), p.data_type())
}

pub fn definition(d: &Definition) -> Value {
    match d {
        Definition::Struct(s) => {
            let s = s.borrow();
            json!({"k": "struct", "name": s.identifier(), "compact": s.is_compact, "attrs": attrs(s.attributes()),
                   "fields": s.fields().into_iter().map(field).collect::<Vec<_>>()})
        }
        Definition::Enum(e) => {
            let e = e.borrow();
            let ens: Vec<Value> = e
                .enumerators()
                .into_iter()
                .map(|n| {
                    let fields: Vec<Value> = match &n.fields {
                        Some(_) => vec![Value::Array(n.fields().into_iter().map(field).collect())],
                        None => vec![],
                    };
                    json!({"name": n.identifier(), "explicit": matches!(n.value, EnumeratorValue::Explicit(_)), "value": n.value().to_string(),
                           "attrs": attrs(n.attributes()), "fields": fields})
                })
                .collect();
            let underlying: Vec<Value> = e
                .underlying
                .iter()
                .map(|u| json!({"opt": u.is_optional, "attrs": attrs(u.attributes()), "t": {"f": "prim", "n": u.definition().kind()}}))
                .collect();
            json!({"k": "enum", "name": e.identifier(), "compact": e.is_compact, "unchecked": e.is_unchecked, "attrs": attrs(e.attributes()),
                   "underlying": underlying, "ens": ens})
        }
        Definition::Interface(i) => {
            let i = i.borrow();
            let bases: Vec<Value> = i
                .bases
                .iter()
                .map(|b| json!({"opt": b.is_optional, "attrs": attrs(b.attributes()), "t": {"f": "named", "target": b.definition().module_scoped_identifier(), "tk": "interface", "name": b.definition().identifier()}}))
                .collect();
            let ops: Vec<Value> = i
                .operations()
                .into_iter()
                .map(|o| {
                    json!({"name": o.identifier(), "idem": o.is_idempotent, "attrs": attrs(o.attributes()),
                           "params": o.parameters().into_iter().map(parameter).collect::<Vec<_>>(),
                           "rets": o.return_members().into_iter().map(parameter).collect::<Vec<_>>()})
                })
                .collect();
            json!({"k": "interface", "name": i.identifier(), "attrs": attrs(i.attributes()), "bases": bases, "ops": ops})
        }
        Definition::CustomType(c) => {
            let c = c.borrow();
            json!({"k": "custom", "name": c.identifier(), "attrs": attrs(c.attributes())})
        }
        Definition::TypeAlias(a) => {
            let a = a.borrow();
            json!({"k": "alias", "name": a.identifier(), "attrs": attrs(a.attributes()), "type": type_ref(&a.underlying)})
        }
    }
}

pub fn file(f: &SliceFile) -> Value {
    let (module, mattrs) = match &f.module {
        Some(m) => (json!(m.borrow().nested_module_identifier()), attrs(m.borrow().attributes())),
        None => (json!(""), json!([])),
    };
    json!({"module": module, "fattrs": attrs(f.attributes()), "mattrs": mattrs, "defs": f.contents.iter().map(definition).collect::<Vec<_>>()})
}


/// A visitor that records every callback it receives: {cb, id} (id = parser-scoped identifier, or the type string).
#[derive(Default)]
pub struct Recorder {
    pub events: Vec<Value>,
}

/// the number of the file a span lies in (string-N -> N + 1), 0 when unknown
fn file_no(s: &Span) -> u64 {
    s.file.strip_prefix("string-").and_then(|x| x.parse::<u64>().ok()).map(|n| n + 1).unwrap_or(0)
}

impl slicec::visitor::Visitor for Recorder {
    fn visit_file(&mut self, f: &SliceFile) {
        let n = f.relative_path.strip_prefix("string-").and_then(|x| x.parse::<u64>().ok()).map(|n| n + 1).unwrap_or(0);
        self.events.push(json!({"cb": "file", "id": "", "f": n}));
    }
    fn visit_module(&mut self, m: &Module) {
        self.events.push(json!({"cb": "module", "id": m.nested_module_identifier(), "f": file_no(m.span())}));
    }
    fn visit_struct(&mut self, x: &Struct) {
        self.events.push(json!({"cb": "struct", "id": x.parser_scoped_identifier(), "f": file_no(x.span())}));
    }
    fn visit_interface(&mut self, x: &Interface) {
        self.events.push(json!({"cb": "interface", "id": x.parser_scoped_identifier(), "f": file_no(x.span())}));
    }
    fn visit_enum(&mut self, x: &Enum) {
        self.events.push(json!({"cb": "enum", "id": x.parser_scoped_identifier(), "f": file_no(x.span())}));
    }
    fn visit_operation(&mut self, x: &Operation) {
        self.events.push(json!({"cb": "operation", "id": x.parser_scoped_identifier(), "f": file_no(x.span())}));
    }
    fn visit_custom_type(&mut self, x: &CustomType) {
        self.events.push(json!({"cb": "custom", "id": x.parser_scoped_identifier(), "f": file_no(x.span())}));
    }
    fn visit_type_alias(&mut self, x: &TypeAlias) {
        self.events.push(json!({"cb": "alias", "id": x.parser_scoped_identifier(), "f": file_no(x.span())}));
    }
    fn visit_field(&mut self, x: &Field) {
        self.events.push(json!({"cb": "field", "id": x.parser_scoped_identifier(), "f": file_no(x.span())}));
    }
    fn visit_parameter(&mut self, x: &Parameter) {
        self.events.push(json!({"cb": "parameter", "id": x.parser_scoped_identifier(), "f": file_no(x.span())}));
    }
    fn visit_enumerator(&mut self, x: &Enumerator) {
        self.events.push(json!({"cb": "enumerator", "id": x.parser_scoped_identifier(), "f": file_no(x.span())}));
    }
    fn visit_type_ref(&mut self, x: &TypeRef) {
        self.events.push(json!({"cb": "type_ref", "id": x.type_string(), "f": 0}));
    }
}

// ---------------------------------------------------------------------------------------------------------------------
// C09: the span of the element at a model path (see SliceSyntax.tla for the path scheme), by walking public fields.

fn type_at<'a>(tr: &'a TypeRef, rest: &[Value]) -> Option<Span> {
    if rest.is_empty() {
        return Some(tr.span().clone());
    }
    let step = rest[0].as_str()?;
    if step == "a" {
        let j = rest.get(1)?.as_u64()? as usize;
        return tr.attributes.get(j - 1).map(|a| a.borrow().span().clone());
    }
    match (tr.concrete_type(), step) {
        (Types::Sequence(s), "e") => type_at(&s.element_type, &rest[1..]),
        (Types::Dictionary(d), "k") => type_at(&d.key_type, &rest[1..]),
        (Types::Dictionary(d), "v") => type_at(&d.value_type, &rest[1..]),
        (Types::ResultType(r), "s") => type_at(&r.success_type, &rest[1..]),
        (Types::ResultType(r), "x") => type_at(&r.failure_type, &rest[1..]),
        _ => None,
    }
}

fn attr_at(list: &[slicec::utils::ptr_util::WeakPtr<Attribute>], rest: &[Value]) -> Option<Span> {
    let j = rest.first()?.as_u64()? as usize;
    list.get(j - 1).map(|a| a.borrow().span().clone())
}

fn field_at(f: &Field, rest: &[Value]) -> Option<Span> {
    match rest.first().and_then(|v| v.as_str()) {
        None => Some(f.span().clone()),
        Some("id") => Some(f.raw_identifier().span().clone()),
        Some("tag") => f.raw_tag().map(|t| t.span().clone()),
        Some("a") => attr_at(&f.attributes, &rest[1..]),
        Some("t") => type_at(&f.data_type, &rest[1..]),
        _ => None,
    }
}

fn param_at(p: &Parameter, rest: &[Value]) -> Option<Span> {
    match rest.first().and_then(|v| v.as_str()) {
        None => Some(p.span().clone()),
        Some("id") => Some(p.raw_identifier().span().clone()),
        Some("tag") => p.raw_tag().map(|t| t.span().clone()),
        Some("a") => attr_at(&p.attributes, &rest[1..]),
        Some("t") => type_at(&p.data_type, &rest[1..]),
        _ => None,
    }
}

pub fn span_at(files: &[SliceFile], path: &[Value]) -> Option<Span> {
    if path.len() < 2 || path[0] != "f" {
        return None;
    }
    let f = files.get(path[1].as_u64()? as usize - 1)?;
    let rest = &path[2..];
    match rest.first().and_then(|v| v.as_str())? {
        "fa" => attr_at(&f.attributes, &rest[1..]),
        "m" => {
            let m = f.module.as_ref()?.borrow();
            match rest.get(1).and_then(|v| v.as_str()) {
                None => Some(m.span().clone()),
                Some("id") => Some(m.raw_identifier().span().clone()),
                Some("a") => attr_at(&m.attributes, &rest[2..]),
                _ => None,
            }
        }
        "d" => {
            let d = f.contents.get(rest.get(1)?.as_u64()? as usize - 1)?;
            let rest = &rest[2..];
            let step = rest.first().and_then(|v| v.as_str());
            match d {
                Definition::Struct(s) => {
                    let s = s.borrow();
                    match step {
                        None => Some(s.span().clone()),
                        Some("id") => Some(s.raw_identifier().span().clone()),
                        Some("a") => attr_at(&s.attributes, &rest[1..]),
                        Some("m") => field_at(s.fields().get(rest.get(1)?.as_u64()? as usize - 1)?, &rest[2..]),
                        _ => None,
                    }
                }
                Definition::Enum(e) => {
                    let e = e.borrow();
                    match step {
                        None => Some(e.span().clone()),
                        Some("id") => Some(e.raw_identifier().span().clone()),
                        Some("a") => attr_at(&e.attributes, &rest[1..]),
                        Some("u") => {
                            let u = e.underlying.as_ref()?;
                            match rest.get(1).and_then(|v| v.as_str()) {
                                None => Some(u.span().clone()),
                                Some("a") => attr_at(&u.attributes, &rest[2..]),
                                _ => None,
                            }
                        }
                        Some("n") => {
                            let ens = e.enumerators();
                            let n = ens.get(rest.get(1)?.as_u64()? as usize - 1)?;
                            let rest = &rest[2..];
                            match rest.first().and_then(|v| v.as_str()) {
                                None => Some(n.span().clone()),
                                Some("id") => Some(n.raw_identifier().span().clone()),
                                Some("a") => attr_at(&n.attributes, &rest[1..]),
                                Some("val") => match &n.value {
                                    EnumeratorValue::Explicit(i) => Some(i.span().clone()),
                                    _ => None,
                                },
                                Some("m") => field_at(n.fields().get(rest.get(1)?.as_u64()? as usize - 1)?, &rest[2..]),
                                _ => None,
                            }
                        }
                        _ => None,
                    }
                }
                Definition::Interface(i) => {
                    let i = i.borrow();
                    match step {
                        None => Some(i.span().clone()),
                        Some("id") => Some(i.raw_identifier().span().clone()),
                        Some("a") => attr_at(&i.attributes, &rest[1..]),
                        Some("b") => {
                            let b = i.bases.get(rest.get(1)?.as_u64()? as usize - 1)?;
                            match rest.get(2).and_then(|v| v.as_str()) {
                                None => Some(b.span().clone()),
                                Some("a") => attr_at(&b.attributes, &rest[3..]),
                                _ => None,
                            }
                        }
                        Some("o") => {
                            let ops = i.operations();
                            let o = ops.get(rest.get(1)?.as_u64()? as usize - 1)?;
                            let rest = &rest[2..];
                            match rest.first().and_then(|v| v.as_str()) {
                                None => Some(o.span().clone()),
                                Some("id") => Some(o.raw_identifier().span().clone()),
                                Some("a") => attr_at(&o.attributes, &rest[1..]),
                                Some("p") => param_at(o.parameters().get(rest.get(1)?.as_u64()? as usize - 1)?, &rest[2..]),
                                Some("r") => param_at(o.return_members().get(rest.get(1)?.as_u64()? as usize - 1)?, &rest[2..]),
                                _ => None,
                            }
                        }
                        _ => None,
                    }
                }
                Definition::CustomType(c) => {
                    let c = c.borrow();
                    match step {
                        None => Some(c.span().clone()),
                        Some("id") => Some(c.raw_identifier().span().clone()),
                        Some("a") => attr_at(&c.attributes, &rest[1..]),
                        _ => None,
                    }
                }
                Definition::TypeAlias(a) => {
                    let a = a.borrow();
                    match step {
                        None => Some(a.span().clone()),
                        Some("id") => Some(a.raw_identifier().span().clone()),
                        Some("a") => attr_at(&a.attributes, &rest[1..]),
                        Some("t") => type_at(&a.underlying, &rest[1..]),
                        _ => None,
                    }
                }
            }
        }
        _ => None,
    }
}

// ---------------------------------------------------------------------------------------------------------------------
// Doc comments of a file (for digests): per commented element its overview, tags and what every link is bound to.

fn message_text(m: &Message) -> String {
    m.value
        .iter()
        .map(|c| match c {
            MessageComponent::Text(t) => t.clone(),
            MessageComponent::Link(l) => match l.linked_entity() {
                Ok(e) => format!("{{->{}}}", e.parser_scoped_identifier()),
                Err(id) => format!("{{?{}}}", id.value),
            },
        })
        .collect()
}

fn comment_json(id: String, c: &DocComment) -> Value {
    json!({
        "of": id,
        "overview": c.overview.as_ref().map(message_text),
        "params": c.params.iter().map(|p| json!([p.identifier.value, message_text(&p.message)])).collect::<Vec<_>>(),
        "returns": c.returns.iter().map(|r| json!([r.identifier.as_ref().map(|i| i.value.clone()), message_text(&r.message)])).collect::<Vec<_>>(),
        "see": c.see.iter().map(|s| match s.linked_entity() {
            Ok(e) => format!("->{}", e.parser_scoped_identifier()),
            Err(id) => format!("?{}", id.value),
        }).collect::<Vec<_>>(),
    })
}

#[derive(Default)]
struct CommentCollector {
    out: Vec<Value>,
}
impl CommentCollector {
    fn add(&mut self, x: &dyn Commentable) {
        if let Some(c) = x.comment() {
            self.out.push(comment_json(x.parser_scoped_identifier(), c));
        }
    }
}
impl slicec::visitor::Visitor for CommentCollector {
    fn visit_struct(&mut self, x: &Struct) {
        self.add(x);
    }
    fn visit_interface(&mut self, x: &Interface) {
        self.add(x);
    }
    fn visit_enum(&mut self, x: &Enum) {
        self.add(x);
    }
    fn visit_operation(&mut self, x: &Operation) {
        self.add(x);
    }
    fn visit_custom_type(&mut self, x: &CustomType) {
        self.add(x);
    }
    fn visit_type_alias(&mut self, x: &TypeAlias) {
        self.add(x);
    }
    fn visit_field(&mut self, x: &Field) {
        self.add(x);
    }
    fn visit_enumerator(&mut self, x: &Enumerator) {
        self.add(x);
    }
}

pub fn comments(f: &SliceFile) -> Value {
    let mut c = CommentCollector::default();
    f.visit_with(&mut c);
    Value::Array(c.out)
}
