// C19: generator specifications. Case: {"s": [class...], "expect": {"res": "ok", "path": [...], "args": [{"k": [...], "v": [...]}]}
// or {"res": "rejected"}}.  Classes are rendered to fixed representative characters; the observed result is mapped back.

use crate::util::{hash_str, mismatch};
use crate::{Family, Outcome};
use clap::Parser;
use serde_json::{json, Value};
use slicec::slice_options::SliceOptions;

#[derive(Default)]
pub struct Options;

pub fn class_to_char(c: &str) -> char {
    match c {
        "a" => 'a',
        "s" => ' ',
        "," => ',',
        "=" => '=',
        "b" => '\\',
        "u" => '\u{3000}', // a multi-byte character that str::trim removes
        "x" => '\u{e9}',
        other => other.chars().next().unwrap_or('?'),
    }
}

/// white space as `str::trim` understands it (every char with the Unicode property White_Space): class "s"
pub const BLANKS: [char; 8] = [' ', '\t', '\u{a0}', '\u{b}', '\u{2003}', '\n', '\u{85}', '\u{1680}'];

pub fn char_to_class(c: char) -> String {
    match c {
        'a' => "a".into(),
        c if BLANKS.contains(&c) => "s".into(),
        ',' => ",".into(),
        '=' => "=".into(),
        '\\' => "b".into(),
        '\u{3000}' => "u".into(),
        '\u{e9}' => "x".into(),
        other => other.to_string(),
    }
}

fn classes(s: &str) -> Value {
    Value::Array(s.chars().map(|c| Value::String(char_to_class(c))).collect())
}

pub fn project(argv: &[String], which: usize) -> Value {
    match SliceOptions::try_parse_from(argv) {
        Ok(o) => match o.generators.get(which) {
            Some(p) => {
                let args: Vec<Value> = p.args.iter().map(|(k, v)| json!({"k": classes(k), "v": classes(v)})).collect();
                json!({"res": "ok", "path": classes(&p.path), "args": args})
            }
            None => json!({"res": "missing"}),
        },
        Err(e) => {
            let usage = matches!(e.kind(), clap::error::ErrorKind::ValueValidation) && e.exit_code() == 2;
            if usage {
                json!({"res": "rejected"})
            } else {
                json!({"res": "rejected-other", "kind": format!("{:?}", e.kind())})
            }
        }
    }
}

impl Family for Options {
    fn run(&mut self, case: &Value) -> Outcome {
        let s: String = case["s"].as_array().map(|a| a.iter().map(|c| class_to_char(c.as_str().unwrap_or("?"))).collect()).unwrap_or_default();
        let expect = &case["expect"];
        let rendered = json!({"generator": s});
        let key = hash_str(&s);
        let nontrivial = s.chars().any(|c| c == ',' || c == '=' || c == '\\') || s.trim() != s;
        // (1) the value alone
        let one = project(&["slicec".into(), "-G".into(), s.clone()], 0);
        if &one != expect {
            return Outcome { fail: Some(mismatch("single -G", expect.clone(), one)), nontrivial, key, rendered };
        }
        // (1b) the same with every blank written as some other white-space character (two assignments)
        if s.contains(' ') {
            for k in 1..=2usize {
                let other: String = s.chars().enumerate().map(|(i, c)| if c == ' ' { BLANKS[(i * 3 + k * 5 + (key >> 7) as usize) % BLANKS.len()] } else { c }).collect();
                let got = project(&["slicec".into(), "-G".into(), other.clone()], 0);
                if &got != expect {
                    return Outcome { fail: Some(mismatch(&format!("single -G with other white-space characters ({:?})", other), expect.clone(), got)), nontrivial, key, rendered };
                }
            }
        }
        // (2) repeated -G: the value second, after a plain one; each keeps its own result
        if expect["res"] == "ok" {
            let argv: Vec<String> = vec!["slicec".into(), "--generator".into(), "p,k=v".into(), "-G".into(), s.clone(), "x.slice".into()];
            let second = project(&argv, 1);
            let first = project(&argv, 0);
            let first_expect = json!({"res": "ok", "path": ["p"], "args": [{"k": ["k"], "v": ["v"]}]});
            if &second != expect || first != first_expect {
                return Outcome { fail: Some(mismatch("repeated -G", expect.clone(), json!([first, second]))), nontrivial, key, rendered };
            }
        }
        // (3) "the arguments reach the generator unchanged": for a sample of the accepted values the pairs are written
        // again with the escaping function behind the paths of real (capturing) generators and the binary is run: first a
        // generator that cannot be started, then two that can; what each of those reads on stdin is one identical
        // request followed by exactly its own pairs, in order
        if expect["res"] == "ok" && (key >> 5) % 8 == 0 {
            if let Some(f) = generators_receive(expect, key) {
                return Outcome { fail: Some(f), nontrivial, key, rendered };
            }
        }
        Outcome { fail: None, nontrivial, key, rendered }
    }
}

fn generators_receive(expect: &Value, key: u64) -> Option<Value> {
    let pairs: Vec<(String, String)> = expect["args"]
        .as_array()
        .cloned()
        .unwrap_or_default()
        .iter()
        .map(|a| {
            let txt = |v: &Value| -> String { v.as_array().map(|x| x.iter().map(|c| class_to_char(c.as_str().unwrap_or("?"))).collect()).unwrap_or_default() };
            (txt(&a["k"]), txt(&a["v"]))
        })
        .collect();
    // a component that ends in a backslash cannot be written in front of a separator (the syntax cannot express it)
    if pairs.iter().any(|(k, v)| k.ends_with('\\') || v.ends_with('\\')) {
        return None;
    }
    let work = std::env::var("VERIF_WORK").unwrap_or_else(|_| "/verif/work".into());
    let dir = std::path::PathBuf::from(format!("{work}/options-{}/{key}", std::process::id()));
    let _ = std::fs::remove_dir_all(&dir);
    std::fs::create_dir_all(&dir).ok()?;
    std::fs::write(dir.join("x.slice"), "module M\nstruct S { a: int32 }\n").ok()?;
    let written = |p: &[(String, String)]| -> String { p.iter().map(|(k, v)| format!(",{}={}", escape(k), escape(v))).collect() };
    // the second working generator gets the pairs in reverse order plus one of its own
    let mut other: Vec<(String, String)> = pairs.iter().rev().cloned().collect();
    // its value is of a length that depends on the case: command lines are usually short, and a buffer of a fixed size
    // for the encoded arguments would go unnoticed otherwise (seeded change C19-s13: 4096 bytes on the stack)
    const LONG: &[usize] = &[1, 64, 4000, 4096, 5000, 16384, 70000];
    other.push(("own".to_owned(), "2".repeat(LONG[((key >> 9) % LONG.len() as u64) as usize])));
    let mut argv: Vec<String> = vec!["x.slice".into(), "--diagnostic-format".into(), "json".into()];
    argv.extend(["-G".into(), format!("{}/no-such-generator{}", dir.display(), written(&pairs))]);
    for (name, p) in [("gen1", &pairs), ("gen2", &other)] {
        let g = dir.join(name);
        if std::fs::hard_link(crate::fam_driver::fakegen_bin(), &g).is_err() {
            let _ = std::fs::copy(crate::fam_driver::fakegen_bin(), &g);
        }
        let _ = std::fs::write(dir.join(format!("{name}.json")), json!({"beh": "ok0", "index": 1}).to_string());
        argv.extend(["-G".into(), format!("{}{}", g.display(), written(p))]);
    }
    // the first working generator once more, with one more pair: every -G is a generator run of its own
    let mut again: Vec<(String, String)> = pairs.clone();
    again.push(("again".to_owned(), "1".to_owned()));
    again.push(("again".to_owned(), "1".to_owned())); // the same pair twice in a row: both reach the generator
    // ... and, for two cases in three, several hundred short pairs (many arguments rather than a long one)
    for i in 0..((key >> 13) % 3) as usize * 400 {
        again.push((format!("k{i}"), format!("{i}")));
    }
    argv.extend(["-G".into(), format!("{}{}", dir.join("gen1").display(), written(&again))]);
    let res = crate::fam_driver::run_limited(std::process::Command::new(crate::fam_driver::slicec_bin()).args(&argv).current_dir(&dir), std::time::Duration::from_secs(20));
    let read = |name: &str| std::fs::read(dir.join(format!("{name}.stdin"))).ok();
    // what each process started under the path of gen1 read
    let per_process = |dir: &std::path::Path| -> Vec<Vec<u8>> {
        let mut v: Vec<Vec<u8>> = std::fs::read_dir(dir)
            .map(|rd| rd.flatten().filter(|e| e.file_name().to_string_lossy().starts_with("gen1.stdin.")).filter_map(|e| std::fs::read(e.path()).ok()).collect())
            .unwrap_or_default();
        v.sort();
        v
    };
    let gen1_runs = per_process(&dir);
    let (own1, own_again) = (crate::fam_driver::encode_args(&pairs), crate::fam_driver::encode_args(&again));
    let two = read("gen2");
    // (for the checks below) the run of gen1 that was given the plain pairs
    let one = gen1_runs.iter().find(|c| c.ends_with(&own1) && !c.ends_with(&own_again)).cloned();
    let twice_ok = gen1_runs.len() == 2 && gen1_runs.iter().filter(|c| c.ends_with(&own_again)).count() == 1 && one.is_some();
    for e in std::fs::read_dir(&dir).into_iter().flatten().flatten() {
        if e.file_name().to_string_lossy().starts_with("gen1.stdin.") {
            let _ = std::fs::remove_file(e.path());
        }
    }
    // the same first generator alone: what it reads does not depend on which other generators were listed
    let _ = std::fs::remove_file(dir.join("gen1.stdin"));
    let alone_argv: Vec<String> = vec!["x.slice".into(), "--diagnostic-format".into(), "json".into(), "-G".into(), format!("{}{}", dir.join("gen1").display(), written(&pairs))];
    let _ = crate::fam_driver::run_limited(std::process::Command::new(crate::fam_driver::slicec_bin()).args(&alone_argv).current_dir(&dir), std::time::Duration::from_secs(20));
    let alone = read("gen1");
    let fail = (|| {
        if !twice_ok && !gen1_runs.is_empty() {
            return Some(json!({"kind": "mismatch", "what": "a generator listed twice with different arguments is run once for each -G, each time with the arguments written there",
                               "runs_of_gen1": gen1_runs.len(), "exit": format!("{:?}", res.status)}));
        }
        let (Some(one), Some(two)) = (one, two) else {
            return Some(json!({"kind": "mismatch", "what": "a generator listed after one that cannot be started was not run (or got nothing)",
                               "exit": format!("{:?}", res.status), "stderr": String::from_utf8_lossy(&res.stderr).chars().take(400).collect::<String>()}));
        };
        let own2 = crate::fam_driver::encode_args(&other);
        if !one.ends_with(&own1) || !two.ends_with(&own2) {
            return Some(mismatch("the pairs a generator reads behind the request (exactly those written for it, in order)", json!({"gen1": pairs, "gen2": other}),
                                 json!({"gen1_tail": one[one.len().saturating_sub(own1.len() + 8)..].to_vec(), "gen2_tail": two[two.len().saturating_sub(own2.len() + 8)..].to_vec()})));
        }
        if alone.as_ref() != Some(&one) {
            return Some(json!({"kind": "mismatch", "what": "what a generator reads depends on the other generators of the command line", "with_others": one.len(), "alone": alone.map(|a| a.len())}));
        }
        if one[..one.len() - own1.len()] != two[..two.len() - own2.len()] || one.len() == own1.len() {
            return Some(json!({"kind": "mismatch", "what": "the two generators did not receive one identical request in front of their arguments", "lengths": [one.len() - own1.len(), two.len() - own2.len()]}));
        }
        None
    })();
    let _ = std::fs::remove_dir_all(&dir);
    fail
}

// ---------------------------------------------------------------------------------------------------------------------
// (T) recorded executions for Trace_Options: random Unicode paths / argument lists rendered with the escaping
// function, and random raw strings, parsed by the real code; one event per call.

fn cps(s: &str) -> Value {
    Value::Array(s.chars().map(|c| json!(c as u32)).collect())
}

fn random_component(rng: &mut crate::util::Rng, allow_empty: bool) -> String {
    const POOL: &[char] = &[
        'a', 'Z', '0', ' ', ' ', ',', '=', '\\', '\t', '\u{3000}', '\u{a0}', '\u{85}', '\u{2003}', '\u{e9}', '\u{4e2d}',
        '\u{1f600}', '/', '.', '-', '"', '\'', '\n', '\u{feff}', '\u{200b}',
    ];
    loop {
        let n = rng.below(7) as usize;
        let mut s = String::new();
        for _ in 0..n {
            if rng.chance(1, 6) {
                // any scalar value
                let mut cp = rng.below(0x110000) as u32;
                if (0xD800..0xE000).contains(&cp) {
                    cp = 0x41;
                }
                s.push(char::from_u32(cp).unwrap_or('a'));
            } else {
                s.push(*rng.pick(POOL));
            }
        }
        if s.ends_with('\\') {
            continue; // not expressible: the backslash would escape the separator that follows
        }
        if s.is_empty() && !allow_empty {
            continue;
        }
        return s;
    }
}

pub fn escape(s: &str) -> String {
    let mut out = String::new();
    for c in s.chars() {
        if c == ',' || c == '=' {
            out.push('\\');
        }
        out.push(c);
    }
    out
}

fn observe(input: &str) -> (String, Value, Value) {
    let argv = vec!["slicec".to_string(), format!("--generator={input}"), "x.slice".to_string()];
    let res = std::panic::catch_unwind(|| SliceOptions::try_parse_from(&argv));
    match res {
        Err(_) => ("crash".into(), json!([]), json!([])),
        Ok(Err(e)) => {
            if matches!(e.kind(), clap::error::ErrorKind::ValueValidation) {
                ("rejected".into(), json!([]), json!([]))
            } else {
                (format!("clap:{:?}", e.kind()), json!([]), json!([]))
            }
        }
        Ok(Ok(o)) => match o.generators.first() {
            Some(p) => {
                let args: Vec<Value> = p.args.iter().map(|(k, v)| json!({"k": cps(k), "v": cps(v)})).collect();
                ("ok".into(), cps(&p.path), Value::Array(args))
            }
            None => ("missing".into(), json!([]), json!([])),
        },
    }
}

pub fn record(n: u64) {
    use std::io::Write;
    crate::supervisor::install_quiet_panic_hook();
    let mut rng = crate::util::Rng::new(crate::util::seed_from_env() ^ 0xC19);
    let out = std::io::stdout();
    let mut out = std::io::BufWriter::new(out.lock());
    for i in 0..n {
        let (input, written) = if i % 4 == 3 {
            // a raw string over the interesting characters (non-empty: the empty string is covered exhaustively)
            let mut s = String::new();
            let len = 1 + rng.below(12);
            for _ in 0..len {
                s.push(*rng.pick(&['a', ' ', ',', '=', '\\', '\u{3000}', 'b', '\t']));
            }
            (s, json!([]))
        } else {
            let path = random_component(&mut rng, i % 16 == 5);
            let nargs = rng.below(4);
            let mut args = Vec::new();
            let mut text = escape(&path);
            for _ in 0..nargs {
                let empty_key = rng.chance(1, 23);
                let k = random_component(&mut rng, empty_key);
                let v = random_component(&mut rng, true);
                text.push(',');
                text.push_str(&escape(&k));
                // a key without '=' has an empty value; an argument whose key is empty too is always written with its '=':
                // without it, it would be no argument at all but the trailing comma the syntax ignores
                if !(v.is_empty() && !k.trim().is_empty() && rng.chance(1, 2)) {
                    text.push('=');
                    text.push_str(&escape(&v));
                }
                args.push(json!({"k": cps(&k), "v": cps(&v)}));
            }
            if rng.chance(1, 4) {
                text.push(',');
            }
            (text, json!([{"path": cps(&path), "args": args}]))
        };
        if input.is_empty() {
            continue; // the empty string is part of the exhaustive (G) family
        }
        let (outcome, path, args) = observe(&input);
        let ev = json!({"ev": "parse", "input": cps(&input), "outcome": outcome, "path": path, "args": args, "written": written});
        let _ = writeln!(out, "{ev}");
    }
}
