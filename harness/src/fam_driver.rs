// C07 / C18: scenarios printed by MC_DriverGen are executed with the real slicec binary and fake generators; what was
// observed (which generators started, what they received, which errors name them, files, exit status) is written as
// one event per run for Trace_Driver, where TLC compares it with Driver!Expected(scenario).
// case: {"cls", "errfile", "dry", "allow", "outdir", "gens": [beh..], "k": truncation point (optional)}

use crate::util::{emit_event, hash_str};
use crate::{Family, Outcome};
use serde_json::{json, Value};
use std::io::Read;
use std::os::unix::fs::MetadataExt;
use std::os::unix::process::ExitStatusExt;
use std::path::PathBuf;
use std::process::{Command, Stdio};
use std::time::{Duration, Instant, SystemTime};

#[derive(Default)]
pub struct Driver {
    counter: u64,
}

pub fn slicec_bin() -> String {
    std::env::var("VERIF_SLICEC_BIN").unwrap_or_else(|_| "/verif/build/target/release/slicec".into())
}
pub fn fakegen_bin() -> String {
    std::env::var("VERIF_FAKEGEN_BIN").unwrap_or_else(|_| "/verif/build/target/release/fakegen".into())
}

/// (file a, file b) for a compile-outcome class; the defect sits in file `errfile` (1 or 2).
pub fn program(cls: &str, errfile: u64) -> (String, String) {
    let good_a = "module A\nstruct SA { x: int32 }\n".to_owned();
    let good_b = "module B\nstruct SB { y: A::SA }\n".to_owned();
    let bad = |m: &str, s: &str| -> String {
        match cls {
            "err_syntax" => format!("module {m}\nstruct {{\n"),
            "err_attr" => format!("module {m}\n[bogus] struct {s} {{ x: int32 }}\n"),
            "err_type" => format!("module {m}\nstruct {s} {{ x: Missing }}\n"),
            "err_cycle" => format!("module {m}\nstruct {s} {{ x: int32 }}\nstruct Loop{m} {{ again: Loop{m} }}\n"),
            "err_redef" => format!("module {m}\nstruct {s} {{ x: int32 }}\nstruct Twice {{}}\nstruct Twice {{}}\n"),
            // a type alias that takes the name of a struct
            "err_redef_alias" => format!("module {m}\nstruct {s} {{ x: int32 }}\nstruct Twice {{}}\ntypealias Twice = string\n"),
            "err_rule" => format!("module {m}\nstruct {s} {{ x: tag(1) int32 }}\n"),
            "err_256" => {
                let fields: Vec<String> = (0..256).map(|k| format!("  f{k}: Missing{k}")).collect();
                format!("module {m}\nstruct {s} {{\n  x: int32\n{}\n}}\n", fields.join("\n"))
            }
            _ => format!("module {m}\nstruct {s} {{ x: int32 }}\n"),
        }
    };
    match cls {
        "err_fileattr" => {
            // the defective file holds a file attribute and nothing else; the other file stands on its own
            if errfile == 1 {
                ("[[oneway]]\n".to_owned(), "module B\nstruct SB { y: int32 }\n".to_owned())
            } else {
                (good_a, "[[compress(Args)]]\n".to_owned())
            }
        }
        "warn" => {
            let w = |m: &str, s: &str| format!("module {m}\n[deprecated] struct Old{m} {{}}\nstruct {s} {{ x: int32, o: Old{m} }}\n");
            if errfile == 1 {
                (w("A", "SA"), good_b)
            } else {
                (good_a, "module B\n[deprecated] struct OldB {}\nstruct SB { y: A::SA, o: OldB }\n".to_owned())
            }
        }
        "warn_malformed" | "warn_link" | "warn_incorrect" => {
            let comment = match cls {
                "warn_malformed" => "/// See {@linked Nothing} here.\n/// @remarks: no such tag",
                "warn_link" => "/// See {@link Nothing} here.",
                _ => "/// @param nope: structs have no parameters",
            };
            if errfile == 1 {
                (format!("module A\n{comment}\nstruct SA {{ x: int32 }}\n"), good_b)
            } else {
                (good_a, format!("module B\n{comment}\nstruct SB {{ y: A::SA }}\n"))
            }
        }
        "clean" | "err_io" | "err_io_ext" | "err_io_dir" => (good_a, good_b),
        "big" => {
            let defs: String = (0..4000).map(|k| format!("struct Big{k} {{ a: int32, b: Sequence<string> }}\n")).collect();
            (format!("module A\nstruct SA {{ x: int32 }}\n{defs}"), good_b)
        }
        _ => {
            if errfile == 1 {
                (bad("A", "SA"), good_b)
            } else {
                (good_a, bad("B", "SB").replace("x: int32", "y: A::SA"))
            }
        }
    }
}

pub struct RunResult {
    pub status: Option<std::process::ExitStatus>,
    pub stdout: Vec<u8>,
    pub stderr: Vec<u8>,
    pub timed_out: bool,
    pub elapsed_ms: u64,
    /// CPU time of the process tree (the child and the children it waited for)
    pub cpu_ms: u64,
}

/// Runs a command with a time limit, capturing stdout / stderr.  The limit is a wall-clock limit for a child that
/// is not computing (a hang), and a CPU-time limit for one that is: on a busy machine a computing child is given up
/// to eight times the limit in wall-clock time before it is declared hung.
pub fn run_limited(cmd: &mut Command, limit: Duration) -> RunResult {
    let t0 = Instant::now();
    let cpu0 = crate::util::children_cpu_ms();
    let mut child = match cmd.stdin(Stdio::null()).stdout(Stdio::piped()).stderr(Stdio::piped()).spawn() {
        Ok(c) => c,
        Err(_) => return RunResult { status: None, stdout: vec![], stderr: vec![], timed_out: false, elapsed_ms: 0, cpu_ms: 0 },
    };
    let mut so = child.stdout.take().unwrap();
    let mut se = child.stderr.take().unwrap();
    let t1 = std::thread::spawn(move || {
        let mut b = Vec::new();
        let _ = so.read_to_end(&mut b);
        b
    });
    let t2 = std::thread::spawn(move || {
        let mut b = Vec::new();
        let _ = se.read_to_end(&mut b);
        b
    });
    let mut timed_out = false;
    let status = loop {
        match child.try_wait() {
            Ok(Some(s)) => break Some(s),
            Ok(None) => {
                let over = crate::util::overload();
                if t0.elapsed() > limit
                    && (t0.elapsed() > limit * 8 * over.min(4) as u32
                        || crate::util::proc_tree_cpu_ms(child.id()).map_or(true, |c| {
                            c as u128 >= limit.as_millis()
                                || (t0.elapsed() > limit * 2 && (c as u128) * 32 * (over as u128) < t0.elapsed().as_millis() && crate::util::proc_state(child.id()) != 'R')
                        }))
                {
                    // over the limit in CPU time, or idle (less than 1/32 of the wall-clock time spent computing): hung
                    timed_out = true;
                    let _ = child.kill();
                    break child.wait().ok();
                }
                std::thread::sleep(Duration::from_millis(2));
            }
            Err(_) => break None,
        }
    };
    // the pipes may be held open by orphaned grandchildren: do not wait for them forever
    let stdout = t1.join().unwrap_or_default();
    let stderr = t2.join().unwrap_or_default();
    let cpu_ms = crate::util::children_cpu_ms().saturating_sub(cpu0);
    RunResult { status, stdout, stderr, timed_out, elapsed_ms: t0.elapsed().as_millis() as u64, cpu_ms }
}

pub fn encode_args(args: &[(String, String)]) -> Vec<u8> {
    // the arguments section: size, then (key, value) strings - built with the codec that C10 checks
    use slice_codec::buffer::vec::VecOutputTarget;
    use slice_codec::encoder::Encoder;
    let mut buf = Vec::new();
    {
        let mut e = Encoder::new(VecOutputTarget::from(&mut buf));
        let _ = e.encode_size(args.len());
        for (k, v) in args {
            let _ = e.encode(k.as_str());
            let _ = e.encode(v.as_str());
        }
    }
    buf
}

fn startable(b: &str) -> bool {
    b != "missing" && b != "noexec"
}

impl Family for Driver {
    fn run(&mut self, case: &Value) -> Outcome {
        self.counter += 1;
        let work = std::env::var("VERIF_WORK").unwrap_or_else(|_| "/verif/work".into());
        let dir = PathBuf::from(format!("{work}/drv-{}/{}", std::process::id(), self.counter));
        let _ = std::fs::remove_dir_all(&dir);
        std::fs::create_dir_all(dir.join("cwd")).expect("scenario dir");
        let cls = case["cls"].as_str().unwrap_or("clean");
        let errfile = case["errfile"].as_u64().unwrap_or(1);
        let dry = case["dry"].as_bool().unwrap_or(false);
        let allow = case["allow"].as_bool().unwrap_or(false);
        let outdir = case["outdir"].as_str().unwrap_or("absent");
        let gens: Vec<String> = case["gens"].as_array().map(|a| a.iter().map(|g| g.as_str().unwrap_or("ok0").to_owned()).collect()).unwrap_or_default();

        let (a, b) = program(cls, errfile);
        std::fs::write(dir.join("a.slice"), &a).unwrap();
        std::fs::write(dir.join("b.slice"), &b).unwrap();
        let mut argv: Vec<String> = vec![dir.join("a.slice").display().to_string(), dir.join("b.slice").display().to_string()];
        match (cls, errfile) {
            ("err_io", 1) => argv.push(dir.join("missing.slice").display().to_string()),
            // a reference directory that does not exist (nothing of the program depends on it)
            ("err_io", _) => argv.extend(["-R".to_owned(), dir.join("no-such-refs").display().to_string()]),
            ("err_io_ext", _) => {
                std::fs::write(dir.join("notes.txt"), "module Notes\n").unwrap();
                argv.push(dir.join("notes.txt").display().to_string());
            }
            ("err_io_dir", _) => {
                std::fs::create_dir_all(dir.join("srcdir")).unwrap();
                std::fs::write(dir.join("srcdir/inner.slice"), "module Inner\n").unwrap();
                argv.push(dir.join("srcdir").display().to_string());
            }
            _ => {}
        }
        let dup = case["dup"].as_bool().unwrap_or(false);
        if dup {
            // the first source once more, in another spelling of the same path
            argv.push(format!("{}/./a.slice", dir.display()));
        }
        argv.extend(["--diagnostic-format".into(), "json".into(), "--disable-color".into()]);
        if allow {
            argv.extend(["-A".into(), "All".into()]);
        }
        if dry {
            argv.push("--dry-run".into());
        }
        // where generated files land
        let target: PathBuf = match outdir {
            "absent" => dir.join("cwd"),
            "unusable" => {
                std::fs::write(dir.join("notadir"), b"a regular file").unwrap();
                argv.extend(["-O".into(), dir.join("notadir").display().to_string()]);
                dir.join("notadir")
            }
            _ => {
                std::fs::create_dir_all(dir.join("out")).unwrap();
                argv.extend(["-O".into(), dir.join("out").display().to_string()]);
                dir.join("out")
            }
        };
        // the sub-directories relative paths of generated files point into exist (where there is a directory at all)
        if outdir != "unusable" {
            for i in 1..=gens.len() {
                let _ = std::fs::create_dir_all(target.join(format!("sub {i}")));
            }
        }
        // generators
        let mut gen_args: Vec<Vec<(String, String)>> = Vec::new();
        let mut pre: Vec<(PathBuf, u64, i64, i64)> = Vec::new(); // pre-existing files: path, inode, mtime, mtime_nsec
        for (idx, beh) in gens.iter().enumerate() {
            let i = idx as u64 + 1;
            let path = dir.join(format!("gen{i}"));
            match beh.as_str() {
                "missing" => {}
                "noexec" => std::fs::write(&path, b"#!/bin/sh\nexit 0\n").unwrap(),
                _ => {
                    if std::fs::hard_link(fakegen_bin(), &path).is_err() {
                        std::fs::copy(fakegen_bin(), &path).expect("copy fakegen");
                    }
                    let mut sc = json!({"beh": beh, "index": i});
                    if let Some(k) = case.get("k") {
                        sc["k"] = k.clone();
                    }
                    std::fs::write(dir.join(format!("gen{i}.json")), sc.to_string()).unwrap();
                }
            }
            // the last pair is written twice in a row: a generator receives the pairs that were written, not a set of them
            // (seeded change C18-s12: `dedup()` before the arguments are encoded)
            let args = vec![("id".to_owned(), i.to_string()), ("mode".to_owned(), format!("m {i}")), ("flag".to_owned(), String::new()),
                            ("rep".to_owned(), "r".to_owned()), ("rep".to_owned(), "r".to_owned())];
            argv.push("-G".into());
            argv.push(format!("{},id={i},mode = m {i} ,flag,rep=r,rep=r", path.display()));
            gen_args.push(args);
            // pre-existing files of generators that produce files
            if matches!(outdir, "identical" | "different" | "longer" | "shorter") && matches!(beh.as_str(), "ok1" | "ok2" | "okinfo" | "okwarn" | "oksource" | "okshort" | "okwide") {
                let p = target.join(gen_file_name_for(beh, i, 1));
                let new = gen_file_contents(i, 1);
                let content = match outdir {
                    "identical" => new,
                    "longer" => format!("{new}left over from an earlier run\n"),
                    "shorter" => new.chars().take(new.chars().count() / 2).collect(),
                    _ => "something else entirely\n".to_owned(),
                };
                std::fs::write(&p, content).unwrap();
                let f = std::fs::File::options().write(true).open(&p).unwrap();
                let _ = f.set_modified(SystemTime::UNIX_EPOCH + Duration::from_secs(1_000_000_000));
                drop(f);
                let m = std::fs::metadata(&p).unwrap();
                pre.push((p, m.ino(), m.mtime(), m.mtime_nsec()));
            }
        }

        let rendered = json!({"argv": argv.iter().map(|a| a.replace(&dir.display().to_string(), "$D")).collect::<Vec<_>>(), "a.slice": a, "b.slice": b});
        let key = hash_str(&format!("{}{}", rendered, case));
        let res = run_limited(Command::new(slicec_bin()).args(&argv).current_dir(dir.join("cwd")), Duration::from_secs(20));

        // ---- observe
        let exit: Value = if res.timed_out {
            json!("timeout")
        } else {
            match res.status {
                Some(s) => match s.code() {
                    Some(c) => json!(c),
                    None => json!(format!("signal {}", s.signal().unwrap_or(0))),
                },
                None => json!("not started"),
            }
        };
        let stderr = String::from_utf8_lossy(&res.stderr).to_string();
        let mut diag_errors = 0;
        let mut diag_warnings = 0;
        let mut named: Vec<u64> = Vec::new();
        let mut file_errors = 0;
        let mut foreign_lines = 0;
        for line in stderr.lines() {
            if let Ok(d) = serde_json::from_str::<Value>(line) {
                if d["severity"] == "error" {
                    diag_errors += 1;
                    let msg = d["message"].as_str().unwrap_or("");
                    let mut names_gen = false;
                    for i in 1..=gens.len() as u64 {
                        if msg.contains(&dir.join(format!("gen{i}")).display().to_string()) && !msg.contains(&format!("gen{i}_")) {
                            named.push(i);
                            names_gen = true;
                        }
                    }
                    if !names_gen && d["error_code"] == "E001" && msg.contains("gen") {
                        file_errors += 1;
                    }
                } else if d["severity"] == "warning" {
                    diag_warnings += 1;
                }
            } else if !line.starts_with("fakegen ") {
                foreign_lines += 1;
            }
        }
        named.sort();
        named.dedup();
        let mut started: Vec<u64> = Vec::new();
        let mut captured: Vec<(u64, Vec<u8>)> = Vec::new();
        for i in 1..=gens.len() as u64 {
            if dir.join(format!("gen{i}.started")).exists() {
                started.push(i);
            }
            if let Ok(b) = std::fs::read(dir.join(format!("gen{i}.stdin"))) {
                captured.push((i, b));
            }
        }
        // all captured streams = one identical request followed by the generator's own arguments
        let mut same_request = true;
        let mut prefix: Option<Vec<u8>> = None;
        for (i, bytes) in &captured {
            let own = encode_args(&gen_args[*i as usize - 1]);
            if bytes.len() < own.len() || bytes[bytes.len() - own.len()..] != own[..] {
                same_request = false;
                continue;
            }
            let p = bytes[..bytes.len() - own.len()].to_vec();
            if p.is_empty() {
                same_request = false;
            }
            match &prefix {
                None => prefix = Some(p),
                Some(q) => {
                    if *q != p {
                        same_request = false;
                    }
                }
            }
        }
        // files
        let mut filers: Vec<u64> = Vec::new();
        let mut stray = 0;
        for (idx, beh) in gens.iter().enumerate() {
            let i = idx as u64 + 1;
            let want = match beh.as_str() {
                "ok1" | "okinfo" | "okwarn" | "oksource" | "okshort" | "okwide" => 1,
                "ok2" => 2,
                _ => 0,
            };
            let mut have_all = want > 0;
            for j in 1..=2u64 {
                let p = target.join(gen_file_name_for(beh, i, j));
                let content = std::fs::read_to_string(&p).ok();
                if j <= want {
                    if content.as_deref() != Some(gen_file_contents(i, j).as_str()) {
                        have_all = false;
                    }
                } else if content.is_some() {
                    stray += 1;
                }
            }
            if have_all {
                filers.push(i);
            }
        }
        // also nothing may appear in the working directory when an output directory was given
        if outdir != "absent" {
            stray += std::fs::read_dir(dir.join("cwd")).map(|d| d.count()).unwrap_or(0);
        }
        // and nothing but what the replies name in the sub-directories
        for i in 1..=gens.len() as u64 {
            let allowed = gen_file_name(i, 2);
            for e in std::fs::read_dir(target.join(format!("sub {i}"))).into_iter().flatten().flatten() {
                if target.join(&allowed) != e.path() {
                    stray += 1;
                }
            }
        }
        // pre-existing identical files keep inode and mtime; different ones are replaced (checked through `filers`)
        let mut preexisting_ok = true;
        if outdir == "identical" {
            for (p, ino, mt, mtn) in &pre {
                match std::fs::metadata(p) {
                    Ok(m) => {
                        if m.ino() != *ino || m.mtime() != *mt || m.mtime_nsec() != *mtn {
                            preexisting_ok = false;
                        }
                    }
                    Err(_) => preexisting_ok = false,
                }
            }
        }
        let crashed = !res.timed_out && !matches!(exit.as_i64(), Some(0) | Some(1) | Some(2));
        let panicked = stderr.contains("panicked at") || stderr.contains("overflowed its stack");
        let ev = json!({
            "ev": "run", "cls": cls, "errfile": errfile, "k": case["k"], "dry": dry, "allow": allow, "dup": dup, "outdir": outdir, "gens": gens,
            "obs": {
                "exit": exit, "started": started, "captured": captured.iter().map(|c| c.0).collect::<Vec<_>>(), "same_request": same_request,
                "named": named, "errors": diag_errors, "warnings": diag_warnings, "file_errors": file_errors, "foreign_lines": foreign_lines,
                "filers": filers, "stray": stray, "preexisting_ok": preexisting_ok, "crashed": crashed || panicked, "elapsed_ms": res.elapsed_ms,
                "stdout_len": res.stdout.len(),
            },
            "dir": dir.display().to_string(),
        });
        emit_event("driver", &ev);
        let keep = crashed || panicked || res.timed_out;
        if !keep {
            let _ = std::fs::remove_dir_all(&dir);
        }
        let nontrivial = !gens.is_empty() && gens.iter().any(|g| startable(g));
        Outcome { fail: None, nontrivial, key, rendered }
    }
}

/// the name of file j of generator `index` under behaviour `beh`
pub fn gen_file_name_for(beh: &str, index: u64, j: u64) -> String {
    match (beh, j) {
        ("okshort", 1) => ((b'a' + (index % 26) as u8) as char).to_string(),
        ("okwide", 1) => format!("\u{65e5}{index}.cs"),
        _ => gen_file_name(index, j),
    }
}
/// the second file of a generator lies in a sub-directory (with a blank in its name) of wherever generated files go
pub fn gen_file_name(index: u64, j: u64) -> String {
    if j == 2 {
        format!("sub {index}/gen{index}_{j}.txt")
    } else {
        format!("gen{index}_{j}.txt")
    }
}
pub fn gen_file_contents(index: u64, j: u64) -> String {
    format!("generated by generator {index}, file {j}\nline two \u{e9}\n")
}
