// C16: doc comments. Cases come from MC_DocComment.tla (families dedent / tags / links / malformed); the expectation
// (which indentation remains on which line, which tags fit, where every link binds) is computed by the specification;
// this file renders the comment into a fixed program, compiles it and projects Commentable::comment().

use crate::util::{hash_str, mismatch, strs};
use crate::{Family, Outcome};
use serde_json::{json, Value};
use slicec::ast::node::Node;
use slicec::diagnostics::DiagnosticLevel;
use slicec::grammar::*;

#[derive(Default)]
pub struct DocComments;

#[derive(Clone, Debug, PartialEq)]
enum Item {
    T(String),
    L(String), // written target
}

fn ws_chars(ws: &Value) -> String {
    ws.as_array()
        .map(|a| {
            a.iter()
                .map(|c| match c.as_str().unwrap_or("") {
                    "wide" => '\u{3000}',
                    "tab" => '\t',
                    _ => ' ',
                })
                .collect()
        })
        .unwrap_or_default()
}

fn content_items(k: &str, i: usize) -> Vec<Item> {
    match k {
        "t" => vec![Item::T(format!("alpha{i} beta"))],
        "tl" => vec![Item::T("see ".into()), Item::L("T".into()), Item::T(format!(" ok{i}"))],
        "lt" => vec![Item::L("T".into()), Item::T(format!(" tail{i}"))],
        "tll" => vec![Item::T(format!("head{i} ")), Item::L("T".into())],
        _ => vec![],
    }
}

fn written(items: &[Item]) -> String {
    items
        .iter()
        .map(|x| match x {
            Item::T(t) => t.clone(),
            Item::L(l) => format!("{{@link {l}}}"),
        })
        .collect()
}

fn merge(items: Vec<Item>) -> Vec<Item> {
    let mut out: Vec<Item> = Vec::new();
    for it in items {
        match (&it, out.last_mut()) {
            (Item::T(t), Some(Item::T(prev))) => prev.push_str(t),
            (Item::T(t), _) if t.is_empty() => {}
            _ => out.push(it),
        }
    }
    out
}

fn items_json(items: &[Item]) -> Value {
    Value::Array(
        items
            .iter()
            .map(|x| match x {
                Item::T(t) => json!({"t": t}),
                Item::L(l) => json!({"l": l}),
            })
            .collect(),
    )
}

/// the source lines of a list of model lines [indent, k]; `base` makes the texts of different blocks distinct
fn source_lines(lines: &Value, base: usize) -> Vec<String> {
    lines
        .as_array()
        .map(|a| {
            a.iter()
                .enumerate()
                .map(|(i, l)| {
                    let k = l["k"].as_str().unwrap_or("");
                    if k == "blank" {
                        String::new()
                    } else {
                        format!("{}{}", ws_chars(&l["indent"]), written(&content_items(k, base + i + 1)))
                    }
                })
                .collect()
        })
        .unwrap_or_default()
}

/// the message the specification expects for lines [ws, k]
fn expected_lines(exp: &Value, base: usize) -> Vec<Item> {
    let mut out = Vec::new();
    for (i, l) in exp.as_array().map(|a| a.as_slice()).unwrap_or(&[]).iter().enumerate() {
        let k = l["k"].as_str().unwrap_or("");
        out.push(Item::T(ws_chars(&l["ws"])));
        out.extend(content_items(k, base + i + 1));
        out.push(Item::T("\n".into()));
    }
    out
}

fn message_items(m: &Message) -> Vec<Item> {
    merge(
        m.value
            .iter()
            .map(|c| match c {
                MessageComponent::Text(t) => Item::T(t.clone()),
                MessageComponent::Link(l) => Item::L(match l.linked_entity() {
                    Ok(e) => format!("->{}", e.parser_scoped_identifier()),
                    Err(id) => id.value.clone(),
                }),
            })
            .collect(),
    )
}

/// links of the expectation are written targets; observed links are "->scoped" when bound. For the families where the
/// target is always T of module M the expectation is rewritten accordingly.
fn bind_t(items: Vec<Item>) -> Vec<Item> {
    items
        .into_iter()
        .map(|x| match x {
            Item::L(l) if l == "T" || l == "S" || l == "E" => Item::L(format!("->M::{l}")),
            o => o,
        })
        .collect()
}

const POS_PROGRAM: &[(&str, &str, &str, &str)] = &[
    // (position, scoped identifier, indentation in the file, the element's line)
    ("", "", "", "module M"),
    ("struct", "M::S", "", "struct S {"),
    ("field", "M::S::x", "  ", "x: int32"),
    ("", "M::S::y", "  ", "y: int32"),
    ("", "", "", "}"),
    ("interface", "M::I", "", "interface I {"),
    ("op", "M::I::op", "    ", "op(p: int32) -> bool"),
    ("op0", "M::I::op0", "    ", "op0(p: int32, q: string)"),
    ("op1", "M::I::op1", "    ", "op1(p: int32) -> bool"),
    ("op2", "M::I::op2", "    ", "op2(p: int32) -> (r: bool, s: int32)"),
    ("op3", "M::I::op3", "    ", "op3(p: int32) -> (p: bool, s: int32)"),
    ("", "", "", "}"),
    ("enum", "M::E", "", "enum E {"),
    ("enumerator", "M::E::A", "\t", "A(f: int32)"),
    ("", "M::E::B", "\t", "B"),
    ("", "", "", "}"),
    ("custom", "M::C", "", "custom C"),
    ("alias", "M::L", "", "typealias L = Sequence<int32>"),
    ("", "M::T", "", "struct T {}"),
    ("", "", "", "enum E2 {"),
    ("", "M::E2::W", "  ", "W("),
    ("enfield", "M::E2::W::g", "      ", "g: int32"),
    ("", "", "  ", ")"),
    ("", "", "", "}"),
];

fn render_positions(pos: &str, comment: &[String]) -> (String, String) {
    render_positions_kept(pos, comment, &[])
}

/// the same, with the well-formed comment 'Kept {@link S}.' on the elements listed in `kept`
fn render_positions_kept(pos: &str, comment: &[String], kept: &[String]) -> (String, String) {
    let mut text = String::new();
    let mut id = String::new();
    for (p, sid, ind, line) in POS_PROGRAM {
        if !sid.is_empty() && kept.iter().any(|k| k == sid) {
            text.push_str(&format!("{ind}/// Kept {{@link S}}.\n"));
        }
        if *p == pos && !pos.is_empty() {
            id = (*sid).to_owned();
            for c in comment {
                text.push_str(&format!("{ind}///{c}\n"));
            }
        }
        text.push_str(&format!("{ind}{line}\n"));
    }
    (text, id)
}

const LINK_FILES: &[&[(&str, &str, &str)]] = &[
    &[
        ("", "", "module M"),
        ("M::S", "", "struct S {"),
        ("M::S::x", "  ", "x: int32"),
        ("", "  ", "y: int32"),
        ("", "", "}"),
        ("", "", "interface I {"),
        ("M::I::op", "  ", "op(p: int32) -> bool"),
        ("", "  ", "op2()"),
        ("", "", "}"),
        ("", "", "enum E {"),
        ("M::E::A", "  ", "A"),
        ("", "  ", "B"),
        ("", "", "}"),
        ("", "", "custom C"),
        ("M::L", "", "typealias L = Sequence<int32>"),
        ("", "", "struct T {}"),
    ],
    &[("", "", "module M::N"), ("M::N::Other", "", "struct Other {"), ("", "  ", "z: int32"), ("", "", "}"), ("", "", "struct S {}")],
    &[("", "", "module K"), ("", "", "struct Far {}")],
];
const ALL_IDS: &[&str] = &[
    "M::S", "M::S::x", "M::S::y", "M::I", "M::I::op", "M::I::op2", "M::E", "M::E::A", "M::E::B", "M::C", "M::L", "M::T", "M::N::Other", "M::N::Other::z",
    "M::N::S", "K::Far",
];

fn comment_of<'a>(ast: &'a slicec::ast::Ast, id: &str) -> Result<Option<&'a DocComment>, String> {
    for node in ast.as_slice() {
        let c: Option<&dyn Commentable> = match node {
            Node::Struct(p) => Some(p.borrow()),
            Node::Field(p) => Some(p.borrow()),
            Node::Interface(p) => Some(p.borrow()),
            Node::Operation(p) => Some(p.borrow()),
            Node::Enum(p) => Some(p.borrow()),
            Node::Enumerator(p) => Some(p.borrow()),
            Node::CustomType(p) => Some(p.borrow()),
            Node::TypeAlias(p) => Some(p.borrow()),
            _ => None,
        };
        if let Some(c) = c {
            if c.parser_scoped_identifier() == id {
                return Ok(c.comment());
            }
        }
    }
    Err(format!("element {id} is not in the AST"))
}

struct Compiled {
    state: slicec::compilation_state::CompilationState,
    counts: std::collections::BTreeMap<String, usize>,
    errors: Vec<String>,
    non_warning_lints: Vec<String>,
    /// C09: first location defect of a comment part / comment lint (VERIF_DOC_SPANS = off | on | only)
    span_fail: Option<Value>,
}

thread_local! {
    static LAST_SPAN_FAIL: std::cell::RefCell<Option<Value>> = const { std::cell::RefCell::new(None) };
}

fn span_mode() -> String {
    std::env::var("VERIF_DOC_SPANS").unwrap_or_else(|_| "off".into())
}

fn compile(texts: &[String]) -> Compiled {
    let refs: Vec<&str> = texts.iter().map(|s| s.as_str()).collect();
    let state = slicec::compile_from_strings(&refs, None);
    let mut counts = std::collections::BTreeMap::new();
    let mut errors = Vec::new();
    let mut non_warning_lints = Vec::new();
    // levels as a user sees them: through into_updated with default options (done on a second compilation, since
    // into_diagnostics consumes the state)
    let state2 = slicec::compile_from_strings(&refs, None);
    let mut lints = Vec::new();
    for d in state2.into_diagnostics(&Default::default()) {
        lints.push((d.code().to_owned(), d.span().cloned()));
        if d.level() == DiagnosticLevel::Error {
            errors.push(format!("{} {}", d.code(), d.message()));
        } else {
            *counts.entry(d.code().to_owned()).or_insert(0) += 1;
            if d.level() != DiagnosticLevel::Warning {
                non_warning_lints.push(d.code().to_owned());
            }
        }
    }
    let span_fail = if span_mode() == "off" {
        None
    } else {
        crate::comment_spans::check(texts, &state.ast, &lints).map(|mut f| {
            f["spans"] = json!(true);
            f
        })
    };
    LAST_SPAN_FAIL.with(|l| *l.borrow_mut() = span_fail.clone());
    Compiled { state, counts, errors, non_warning_lints, span_fail }
}

fn count(c: &Compiled, code: &str) -> usize {
    c.counts.get(code).copied().unwrap_or(0)
}

fn check_counts(c: &Compiled, want: &[(&str, usize)]) -> Option<Value> {
    if !c.errors.is_empty() {
        return Some(mismatch("a doc comment produced an error (comments only ever warn)", json!([]), json!(c.errors)));
    }
    if !c.non_warning_lints.is_empty() {
        return Some(mismatch("level of the comment lints", json!("Warning"), json!(c.non_warning_lints)));
    }
    for (code, n) in want {
        if count(c, code) != *n {
            return Some(mismatch(&format!("number of {code} warnings"), json!(n), json!({"counts": c.counts})));
        }
    }
    None
}

fn elements_kept(c: &Compiled, ids: &[&str]) -> Option<Value> {
    for id in ids {
        if c.state.ast.find_node(id).is_err() {
            return Some(mismatch("the comment cost an element", json!(id), json!("missing from the AST")));
        }
    }
    None
}

fn pos_ids() -> Vec<&'static str> {
    POS_PROGRAM.iter().map(|x| x.1).filter(|s| !s.is_empty()).collect()
}

fn inline_text(inline: &str, j: usize) -> (String, Vec<Item>, bool) {
    // the inline link of the j-th tag names ltargets[(j - 1) % 3] (MC_DocComment!LinkTargets)
    let lt = ["T", "S", "E"][(j - 1) % 3];
    // (what is written after the tag head, the inline message, whether an inline message exists)
    match inline {
        "emptycolon" => (":".into(), vec![], false),
        "text" => (format!(": gamma{j}"), vec![Item::T(format!("gamma{j}"))], true),
        "padded" => (format!(":    gamma{j}"), vec![Item::T(format!("gamma{j}"))], true),
        "link" => (format!(": {{@link {lt}}} delta{j}"), vec![Item::L(lt.into()), Item::T(format!(" delta{j}"))], true),
        "textlink" => (format!(": see the {{@link {lt}}} omega{j}"), vec![Item::T("see the ".into()), Item::L(lt.into()), Item::T(format!(" omega{j}"))], true),
        _ => (String::new(), vec![], false),
    }
}

fn malformed_text(form: &str) -> &'static str {
    match form {
        "unknown_tag" => " @bogus x",
        "at_alone" => " @",
        "missing_brace" => " see {@link T here",
        "inline_param" => " a {@param p} b",
        "block_link" => " @link T",
        "param_no_id" => " @param : text",
        "see_no_target" => " @see",
        "stray_symbol" => " @param p ~ text",
        "link_no_target" => " {@link} x",
        "returns_stray" => " @returns r s: text",
        "see_with_message" => " @see T: hello",
        "double_colon_end" => " @see T::",
        "unknown_inline" => " {@bogus T}",
        _ => " @bogus",
    }
}

/// the program of a case of MC_DocComment (the same texts the doccomment family compiles)
pub fn render(case: &Value) -> Option<Vec<String>> {
    match case["fam"].as_str().unwrap_or("") {
        "dedent" => Some(vec![render_positions(case["pos"].as_str().unwrap_or("struct"), &source_lines(&case["lines"], 0)).0]),
        "tags" => Some(vec![render_positions(case["pos"].as_str().unwrap_or("op0"), &tag_lines(case)).0]),
        "links" => Some(link_texts(case)),
        "malformed" => {
            let lines = vec![" Intro.".to_owned(), malformed_text(case["form"].as_str().unwrap_or("")).to_owned(), " More.".to_owned()];
            Some(vec![render_positions(case["pos"].as_str().unwrap_or("struct"), &lines).0])
        }
        _ => None,
    }
}

fn tag_lines(case: &Value) -> Vec<String> {
    let mut lines: Vec<String> = Vec::new();
    if case["intro"] == true {
        lines.push(" Intro.".into());
    }
    let tags = case["tags"].as_array().cloned().unwrap_or_default();
    // what stands between the slashes and a tag is layout: nothing, blanks, a tab, a wide or a no-break blank
    const GAPS: [&str; 6] = [" ", "", "  ", "\t", "\u{3000}", "\u{a0} "];
    let h = (crate::util::hash_str(&case["tags"].to_string()) >> 5) as usize;
    for (j, t) in tags.iter().enumerate() {
        let kind = t["t"].as_str().unwrap_or("");
        let id = t["id"].as_str().unwrap_or("");
        let (inl, _, _) = inline_text(t["inline"].as_str().unwrap_or("none"), j + 1);
        let g = GAPS[(h + j) % GAPS.len()];
        match kind {
            "param" => lines.push(format!("{g}@param {id}{inl}")),
            "returns" => lines.push(if id.is_empty() { format!("{g}@returns{inl}") } else { format!("{g}@returns {id}{inl}") }),
            _ => lines.push(format!("{g}@see {id}")),
        }
        if kind != "see" {
            let ci = t["cont"].as_u64().unwrap_or(1) as usize;
            lines.extend(source_lines(&case["conts"][ci - 1], (j + 1) * 10));
        }
    }
    lines
}

fn link_spelled(it: &Value) -> String {
    let segs: Vec<String> = it["target"].as_array().map(|a| a.iter().map(|s| s.as_str().unwrap_or("").to_owned()).collect()).unwrap_or_default();
    format!("{}{}", if it["global"] == true { "::" } else { "" }, segs.join("::"))
}

fn link_pos(it: &Value) -> String {
    it["pos"].as_array().map(|a| a.iter().map(|s| s.as_str().unwrap_or("")).collect::<Vec<_>>().join("::")).unwrap_or_default()
}

fn link_texts(case: &Value) -> Vec<String> {
    let items = case["items"].as_array().cloned().unwrap_or_default();
    // comment per position: overview links first, then @param messages, then @see
    let mut texts = Vec::new();
    for file in LINK_FILES {
        let mut text = String::new();
        for (sid, ind, line) in file.iter() {
            if !sid.is_empty() {
                for wh in ["link", "taglink", "see"] {
                    for it in items.iter().filter(|it| link_pos(it) == *sid && it["where"] == wh) {
                        let t = link_spelled(it);
                        text.push_str(&match wh {
                            "link" => format!("{ind}/// See {{@link {t}}} here.\n"),
                            "taglink" => format!("{ind}/// @param p: about {{@link {t}}}\n"),
                            _ => format!("{ind}/// @see {t}\n"),
                        });
                    }
                }
            }
            text.push_str(&format!("{ind}{line}\n"));
        }
        texts.push(text);
    }
    texts
}

impl Family for DocComments {
    fn run(&mut self, case: &Value) -> Outcome {
        LAST_SPAN_FAIL.with(|l| *l.borrow_mut() = None);
        let mut o = self.run_inner(case);
        // C09 runs the families for the locations only: what the comments say is C16's business
        let mode = span_mode();
        if mode == "only" {
            o.fail = None;
        }
        if mode != "off" && o.fail.is_none() {
            o.fail = LAST_SPAN_FAIL.with(|l| l.borrow_mut().take());
        }
        o
    }
}

impl DocComments {
    fn run_inner(&mut self, case: &Value) -> Outcome {
        let fam = case["fam"].as_str().unwrap_or("");
        match fam {
            "dedent" => {
                let pos = case["pos"].as_str().unwrap_or("struct");
                let lines = source_lines(&case["lines"], 0);
                let (text, id) = render_positions(pos, &lines);
                let rendered = json!({"files": [text]});
                let key = hash_str(&rendered.to_string());
                let c = compile(&[text]);
                let fail = (|| {
                    if let Some(f) = check_counts(&c, &[("MalformedDocComment", 0), ("BrokenDocLink", 0), ("IncorrectDocComment", 0)]) {
                        return Some(f);
                    }
                    if let Some(f) = elements_kept(&c, &pos_ids()) {
                        return Some(f);
                    }
                    let comment = match comment_of(&c.state.ast, &id) {
                        Ok(Some(x)) => x,
                        Ok(None) => return Some(mismatch("the comment", json!("present"), json!("absent"))),
                        Err(e) => return Some(json!({"kind": "harness", "what": e})),
                    };
                    let want = merge(bind_t(expected_lines(&case["exp"], 0)));
                    let got = comment.overview.as_ref().map(message_items).unwrap_or_default();
                    if want != got {
                        return Some(mismatch(
                            "overview (written lines minus their common indentation, line breaks kept)",
                            items_json(&want),
                            items_json(&got),
                        ));
                    }
                    if !comment.params.is_empty() || !comment.returns.is_empty() || !comment.see.is_empty() {
                        return Some(mismatch("tags of a comment without tags", json!([]), json!("some")));
                    }
                    None
                })();
                let nontrivial = case["lines"].as_array().map(|a| a.len() > 1).unwrap_or(false);
                Outcome { fail, nontrivial, key, rendered }
            }
            "tags" => {
                let pos = case["pos"].as_str().unwrap_or("op0");
                let position = if pos == "struct" || pos == "enumerator" { pos } else { pos };
                let tags = case["tags"].as_array().cloned().unwrap_or_default();
                let lines = tag_lines(case);
                let (text, id) = render_positions(position, &lines);
                let rendered = json!({"files": [text]});
                let key = hash_str(&rendered.to_string());
                let c = compile(&[text]);
                let fail = (|| {
                    if case["ltargets"] != json!(["T", "S", "E"]) {
                        return Some(json!({"kind": "harness", "what": "link target table differs from MC_DocComment!LinkTargets"}));
                    }
                    let exp = &case["exp"];
                    if let Some(f) = check_counts(
                        &c,
                        &[
                            ("MalformedDocComment", 0),
                            ("BrokenDocLink", exp["broken"].as_u64().unwrap_or(0) as usize),
                            ("IncorrectDocComment", exp["incorrect"].as_u64().unwrap_or(0) as usize),
                        ],
                    ) {
                        return Some(f);
                    }
                    if let Some(f) = elements_kept(&c, &pos_ids()) {
                        return Some(f);
                    }
                    let comment = match comment_of(&c.state.ast, &id) {
                        Ok(Some(x)) => x,
                        Ok(None) => return Some(mismatch("the comment", json!("present"), json!("absent"))),
                        Err(e) => return Some(json!({"kind": "harness", "what": e})),
                    };
                    let want_overview = if case["intro"] == true { vec![Item::T("Intro.\n".into())] } else { vec![] };
                    let got_overview = comment.overview.as_ref().map(message_items).unwrap_or_default();
                    if want_overview != got_overview {
                        return Some(mismatch("overview before the first tag", items_json(&want_overview), items_json(&got_overview)));
                    }
                    // index of each tag in the written order, to recompute its texts
                    let mut pj = Vec::new();
                    let mut rj = Vec::new();
                    let mut sj = Vec::new();
                    for (j, t) in tags.iter().enumerate() {
                        match t["t"].as_str().unwrap_or("") {
                            "param" => pj.push(j + 1),
                            "returns" => rj.push(j + 1),
                            _ => sj.push(j + 1),
                        }
                    }
                    let want_msg = |e: &Value, j: usize| -> Vec<Item> {
                        let (_, inl, has) = inline_text(e["inline"].as_str().unwrap_or("none"), j);
                        let mut items = inl;
                        if has {
                            items.push(Item::T("\n".into()));
                        }
                        items.extend(expected_lines(&e["cont"], j * 10));
                        merge(bind_t(items))
                    };
                    let ep = exp["params"].as_array().cloned().unwrap_or_default();
                    if ep.len() != comment.params.len() {
                        return Some(mismatch("number of @param tags", json!(ep.len()), json!(comment.params.len())));
                    }
                    for (n, (e, g)) in ep.iter().zip(comment.params.iter()).enumerate() {
                        if e["id"].as_str().unwrap_or("") != g.identifier.value {
                            return Some(mismatch("identifier of a @param tag (written order)", e["id"].clone(), json!(g.identifier.value)));
                        }
                        let (w, o) = (want_msg(e, pj[n]), message_items(&g.message));
                        if w != o {
                            return Some(mismatch("message of a @param tag", items_json(&w), items_json(&o)));
                        }
                    }
                    let er = exp["returns"].as_array().cloned().unwrap_or_default();
                    if er.len() != comment.returns.len() {
                        return Some(mismatch("number of @returns tags", json!(er.len()), json!(comment.returns.len())));
                    }
                    for (n, (e, g)) in er.iter().zip(comment.returns.iter()).enumerate() {
                        let gid = g.identifier.as_ref().map(|i| i.value.clone()).unwrap_or_default();
                        if e["id"].as_str().unwrap_or("") != gid {
                            return Some(mismatch("identifier of a @returns tag (written order)", e["id"].clone(), json!(gid)));
                        }
                        let (w, o) = (want_msg(e, rj[n]), message_items(&g.message));
                        if w != o {
                            return Some(mismatch("message of a @returns tag", items_json(&w), items_json(&o)));
                        }
                    }
                    let es = exp["see"].as_array().cloned().unwrap_or_default();
                    if es.len() != comment.see.len() {
                        return Some(mismatch("number of @see tags", json!(es.len()), json!(comment.see.len())));
                    }
                    for (e, g) in es.iter().zip(comment.see.iter()) {
                        let got = match g.linked_entity() {
                            Ok(x) => format!("->{}", x.parser_scoped_identifier()),
                            Err(i) => i.value.clone(),
                        };
                        let want = if e["id"] == "T" { "->M::T".to_owned() } else { e["id"].as_str().unwrap_or("").to_owned() };
                        if got != want {
                            return Some(mismatch("target of a @see tag", json!(want), json!(got)));
                        }
                    }
                    None
                })();
                Outcome { fail, nontrivial: tags.len() > 1 || case["intro"] == true, key, rendered }
            }
            "links" => {
                let items = case["items"].as_array().cloned().unwrap_or_default();
                let spelled = link_spelled;
                let pos_of = link_pos;
                let texts = link_texts(case);
                let rendered = json!({"files": texts});
                let key = hash_str(&rendered.to_string());
                let c = compile(&texts);
                let fail = (|| {
                    let exp = case["exp"].as_array().cloned().unwrap_or_default();
                    let broken = exp.iter().filter(|e| e["bound"] != true).count();
                    if let Some(f) = check_counts(&c, &[("MalformedDocComment", 0), ("BrokenDocLink", broken)]) {
                        return Some(f);
                    }
                    if let Some(f) = elements_kept(&c, ALL_IDS) {
                        return Some(f);
                    }
                    for (n, it) in items.iter().enumerate() {
                        let pos = pos_of(it);
                        let wh = it["where"].as_str().unwrap_or("");
                        let comment = match comment_of(&c.state.ast, &pos) {
                            Ok(Some(x)) => x,
                            Ok(None) => return Some(mismatch("the comment", json!("present"), json!("absent"))),
                            Err(e) => return Some(json!({"kind": "harness", "what": e})),
                        };
                        // which of the same-kind items at this position this one is
                        let k = items[..n].iter().filter(|o| pos_of(o) == pos && o["where"] == wh).count();
                        let link_of = |m: &Message| -> Option<String> {
                            m.value.iter().find_map(|c| match c {
                                MessageComponent::Link(l) => Some(match l.linked_entity() {
                                    Ok(e) => format!("->{}", e.parser_scoped_identifier()),
                                    Err(i) => i.value.clone(),
                                }),
                                _ => None,
                            })
                        };
                        let got = match wh {
                            "link" => comment.overview.as_ref().and_then(|m| {
                                m.value
                                    .iter()
                                    .filter_map(|c| match c {
                                        MessageComponent::Link(l) => Some(match l.linked_entity() {
                                            Ok(e) => format!("->{}", e.parser_scoped_identifier()),
                                            Err(i) => i.value.clone(),
                                        }),
                                        _ => None,
                                    })
                                    .nth(k)
                            }),
                            "taglink" => comment.params.get(k).and_then(|p| link_of(&p.message)),
                            _ => comment.see.get(k).map(|s| match s.linked_entity() {
                                Ok(e) => format!("->{}", e.parser_scoped_identifier()),
                                Err(i) => i.value.clone(),
                            }),
                        };
                        let e = &exp[n];
                        let want = if e["bound"] == true {
                            format!("->{}", e["key"].as_array().map(|a| a.iter().map(|s| s.as_str().unwrap_or("")).collect::<Vec<_>>().join("::")).unwrap_or_default())
                        } else {
                            spelled(it)
                        };
                        if got.as_deref() != Some(want.as_str()) {
                            return Some(mismatch(
                                &format!("binding of '{}' written in the comment of {pos} ({wh})", spelled(it)),
                                json!(want),
                                json!(got),
                            ));
                        }
                    }
                    None
                })();
                Outcome { fail, nontrivial: true, key, rendered }
            }
            "malformed" => {
                let pos = case["pos"].as_str().unwrap_or("struct");
                let form = case["form"].as_str().unwrap_or("");
                let lines = vec![" Intro.".to_owned(), malformed_text(form).to_owned(), " More.".to_owned()];
                let kept = strs(&case["kept"]);
                let (text, id) = render_positions_kept(pos, &lines, &kept);
                let rendered = json!({"files": [text]});
                let key = hash_str(&rendered.to_string());
                let c = compile(&[text]);
                let fail = (|| {
                    if let Some(f) = check_counts(&c, &[]) {
                        return Some(f);
                    }
                    if count(&c, "MalformedDocComment") == 0 {
                        return Some(mismatch("a malformed comment is reported", json!("MalformedDocComment warning"), json!({"counts": c.counts})));
                    }
                    if let Some(f) = elements_kept(&c, &pos_ids()) {
                        return Some(f);
                    }
                    match comment_of(&c.state.ast, &id) {
                        Ok(None) => {}
                        Ok(Some(_)) => return Some(mismatch("the comment of a malformed doc comment", json!("absent"), json!("present"))),
                        Err(e) => return Some(json!({"kind": "harness", "what": e})),
                    }
                    // the well-formed comments of the neighbours survive: text, link and all
                    for k in &kept {
                        let got: Option<String> = match comment_of(&c.state.ast, k) {
                            Ok(Some(cm)) => cm.overview.as_ref().map(|m| {
                                m.value
                                    .iter()
                                    .map(|x| match x {
                                        MessageComponent::Text(t) => t.clone(),
                                        MessageComponent::Link(l) => match l.linked_entity() {
                                            Ok(e) => format!("<{}>", e.parser_scoped_identifier()),
                                            Err(i) => format!("<unresolved {}>", i.value),
                                        },
                                    })
                                    .collect::<Vec<_>>()
                                    .join("")
                            }),
                            Ok(None) => None,
                            Err(e) => return Some(json!({"kind": "harness", "what": e})),
                        };
                        if got.as_deref() != Some("Kept <M::S>.\n") {
                            return Some(mismatch(&format!("the well-formed comment of {k}, a neighbour of the malformed comment"), json!("Kept <M::S>.\n"), json!(got)));
                        }
                    }
                    None
                })();
                Outcome { fail, nontrivial: true, key, rendered }
            }
            _ => Outcome { fail: Some(json!({"kind": "harness", "what": "unknown family"})), nontrivial: false, key: 0, rendered: json!(null) },
        }
    }
}
