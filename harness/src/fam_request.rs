// C08: the generator request. A case is a program (from MC_Syntax simulate, MC_DocComment, MC_Rules - well-formed items -
// or explicit texts). For every split of the files into sources and references (at least one source) and a few argument
// lists the real binary is run with capturing fake generators; one event per generator and run:
//   {"bytes": what the generator received on stdin, "files": the program as seen through the library API compiled with
//    the same options (neutral projection, every text as UTF-8 bytes), "args": the pairs written on the command line}
// Trace_Schema.tla decodes the bytes with the schema-driven decoder and compares with Convert(files).

use crate::util::{emit_event, hash_str, strs};
use crate::{Family, Outcome};
use serde_json::{json, Value};
use slicec::grammar::attributes::{Allow, Compress, Deprecated, Oneway, SlicedFormat, Unparsed};
use slicec::grammar::*;
use slicec::slice_file::SliceFile;
use slicec::slice_options::SliceOptions;

#[derive(Default)]
pub struct Request {
    counter: u64,
}

fn b(s: &str) -> Value {
    Value::Array(s.as_bytes().iter().map(|x| json!(x)).collect())
}

fn attr(a: &Attribute) -> Value {
    let args: Vec<String> = if let Some(u) = a.downcast::<Unparsed>() {
        u.args.clone()
    } else if let Some(x) = a.downcast::<Deprecated>() {
        x.reason.iter().cloned().collect()
    } else if let Some(x) = a.downcast::<Allow>() {
        x.allowed_lints.clone()
    } else if let Some(x) = a.downcast::<Compress>() {
        let mut v = Vec::new();
        if x.compress_args {
            v.push("Args".to_owned());
        }
        if x.compress_return {
            v.push("Return".to_owned());
        }
        v
    } else if let Some(x) = a.downcast::<SlicedFormat>() {
        let mut v = Vec::new();
        if x.sliced_args {
            v.push("Args".to_owned());
        }
        if x.sliced_return {
            v.push("Return".to_owned());
        }
        v
    } else if a.downcast::<Oneway>().is_some() {
        vec![]
    } else {
        vec!["?".into()]
    };
    json!({"d": b(a.kind.directive()), "args": args.iter().map(|x| b(x)).collect::<Vec<_>>()})
}

fn attrs(v: Vec<&Attribute>) -> Value {
    Value::Array(v.into_iter().map(attr).collect())
}

fn type_ref(tr: &TypeRef) -> Value {
    let t = match tr.concrete_type() {
        Types::Primitive(p) => json!({"f": "id", "id": b(p.kind())}),
        Types::Struct(s) => json!({"f": "id", "id": b(&s.module_scoped_identifier())}),
        Types::Enum(e) => json!({"f": "id", "id": b(&e.module_scoped_identifier())}),
        Types::CustomType(c) => json!({"f": "id", "id": b(&c.module_scoped_identifier())}),
        Types::Sequence(s) => json!({"f": "seq", "e": type_ref(&s.element_type)}),
        Types::Dictionary(d) => json!({"f": "dict", "k": type_ref(&d.key_type), "v": type_ref(&d.value_type)}),
        Types::ResultType(r) => json!({"f": "res", "s": type_ref(&r.success_type), "x": type_ref(&r.failure_type)}),
    };
    json!({"opt": tr.is_optional, "attrs": attrs(tr.attributes()), "t": t})
}

fn link(r: Result<&dyn Entity, &Identifier>) -> (Value, bool) {
    match r {
        Ok(e) => (b(&e.parser_scoped_identifier()), true),
        Err(i) => (b(&i.value), false),
    }
}

fn message(m: &Message) -> Value {
    Value::Array(
        m.value
            .iter()
            .map(|c| match c {
                MessageComponent::Text(t) => json!({"l": false, "v": b(t), "bound": false}),
                MessageComponent::Link(l) => {
                    let (v, bound) = link(l.linked_entity());
                    json!({"l": true, "v": v, "bound": bound})
                }
            })
            .collect(),
    )
}

fn comment(c: Option<&DocComment>) -> Value {
    match c {
        None => json!([]),
        Some(c) => json!([{
            "overview": c.overview.as_ref().map(message).unwrap_or_else(|| json!([])),
            "see": c.see.iter().map(|s| { let (v, bound) = link(s.linked_entity()); json!({"v": v, "bound": bound}) }).collect::<Vec<_>>(),
            "params": c.params.iter().map(|p| json!({"id": b(&p.identifier.value), "msg": message(&p.message)})).collect::<Vec<_>>(),
            "returns": c.returns.iter().map(|r| json!({"id": r.identifier.iter().map(|i| b(&i.value)).collect::<Vec<_>>(), "msg": message(&r.message)})).collect::<Vec<_>>(),
        }]),
    }
}

fn tag(t: Option<u32>) -> Value {
    match t {
        Some(x) => json!([x]),
        None => json!([]),
    }
}

fn field(f: &Field) -> Value {
    json!({"name": b(f.identifier()), "attrs": attrs(f.attributes()), "comment": comment(f.comment()), "tag": tag(f.tag()), "type": type_ref(f.data_type())})
}

fn parameter(p: &Parameter) -> Value {
    json!({"name": b(p.identifier()), "attrs": attrs(p.attributes()), "tag": tag(p.tag()), "type": type_ref(p.data_type())})
}

fn definition(d: &Definition) -> Value {
    match d {
        Definition::Struct(s) => {
            let s = s.borrow();
            json!({"k": "struct", "name": b(s.identifier()), "attrs": attrs(s.attributes()), "comment": comment(s.comment()), "compact": s.is_compact,
                   "fields": s.fields().into_iter().map(field).collect::<Vec<_>>()})
        }
        Definition::Interface(i) => {
            let i = i.borrow();
            let ops: Vec<Value> = i
                .operations()
                .into_iter()
                .map(|o| {
                    json!({"name": b(o.identifier()), "attrs": attrs(o.attributes()), "comment": comment(o.comment()), "idem": o.is_idempotent,
                           "params": o.parameters().into_iter().map(parameter).collect::<Vec<_>>(),
                           "sp": o.parameters().last().map(|p| p.is_streamed).unwrap_or(false),
                           "rets": o.return_members().into_iter().map(parameter).collect::<Vec<_>>(),
                           "sr": o.return_members().last().map(|p| p.is_streamed).unwrap_or(false)})
                })
                .collect();
            json!({"k": "interface", "name": b(i.identifier()), "attrs": attrs(i.attributes()), "comment": comment(i.comment()),
                   "bases": i.base_interfaces().into_iter().map(|x| b(&x.module_scoped_identifier())).collect::<Vec<_>>(), "ops": ops})
        }
        Definition::Enum(e) => {
            let e = e.borrow();
            let ens: Vec<Value> = e
                .enumerators()
                .into_iter()
                .map(|n| {
                    let v = n.value();
                    let abs = (v.unsigned_abs() as u64).to_le_bytes();
                    let disc = (v as i32).to_le_bytes();
                    json!({"name": b(n.identifier()), "attrs": attrs(n.attributes()), "comment": comment(n.comment()),
                           "abs": abs.to_vec(), "neg": v < 0, "disc": disc.to_vec(), "inrange": v >= 0 && v <= i32::MAX as i128,
                           "fields": n.fields().into_iter().map(field).collect::<Vec<_>>()})
                })
                .collect();
            json!({"k": "enum", "name": b(e.identifier()), "attrs": attrs(e.attributes()), "comment": comment(e.comment()), "unchecked": e.is_unchecked,
                   "compact": e.is_compact, "underlying": e.underlying.iter().map(|u| b(u.definition().kind())).collect::<Vec<_>>(), "ens": ens})
        }
        Definition::CustomType(c) => {
            let c = c.borrow();
            json!({"k": "custom", "name": b(c.identifier()), "attrs": attrs(c.attributes()), "comment": comment(c.comment())})
        }
        Definition::TypeAlias(a) => {
            let a = a.borrow();
            json!({"k": "alias", "name": b(a.identifier()), "attrs": attrs(a.attributes()), "comment": comment(a.comment()), "type": type_ref(&a.underlying)})
        }
    }
}

fn file(f: &SliceFile) -> Value {
    let module = match &f.module {
        Some(m) => json!({"id": b(m.borrow().nested_module_identifier()), "attrs": attrs(m.borrow().attributes())}),
        None => json!({"id": [], "attrs": []}),
    };
    json!({"path": b(&f.relative_path), "source": f.is_source, "hasmodule": f.module.is_some(), "module": module, "attrs": attrs(f.attributes()),
           "defs": f.contents.iter().map(definition).collect::<Vec<_>>()})
}

pub fn texts_of(case: &Value) -> Option<Vec<String>> {
    if let Some(t) = case.get("texts") {
        return Some(strs(t));
    }
    if let Some(kinds) = case.get("kinds") {
        // MC_Request: files without a module declaration
        return Some(
            strs(kinds)
                .iter()
                .enumerate()
                .map(|(i, k)| match k.as_str() {
                    "normal" => format!("module M{i}\nstruct S{i} {{ a: int32 }}\n"),
                    "normal2" => format!("module Shared\ninterface I{i} {{ op{i}() -> Sequence<string> }}\n"),
                    "empty" => String::new(),
                    "commentonly" => "// nothing here\n/* at all */\n".to_owned(),
                    "ppaway" => format!("#if NOPE\nmodule Gone{i}\nstruct G {{}}\n#endif\n"),
                    _ => "\n   \n\t\n".to_owned(),
                })
                .collect(),
        );
    }
    if case.get("item").is_some() {
        // a case of MC_Rules: only well-formed items are programs
        if case["violations"].as_array().map(|a| !a.is_empty()).unwrap_or(true) {
            return None;
        }
        return crate::fam_rules::render(case);
    }
    if case.get("fam").is_some() {
        return crate::fam_doccomment::render(case);
    }
    case["files"].as_array().map(|fs| fs.iter().map(|f| crate::fam_syntax::render_file(&f["out"])).collect())
}

fn escape(s: &str) -> String {
    s.replace(',', "\\,").replace('=', "\\=")
}

const ARG_LISTS: &[&[(&str, &str)]] = &[&[], &[("k", "v")], &[("a", "1"), ("b", ""), ("name", "\u{e9},=x y")], &[("out", "dir/sub"), ("out", "again")]];

impl Family for Request {
    fn run(&mut self, case: &Value) -> Outcome {
        self.counter += 1;
        let Some(texts) = texts_of(case) else {
            return Outcome { fail: None, nontrivial: false, key: 0, rendered: json!(null) };
        };
        let n = texts.len();
        let rendered = json!({"files": texts});
        let key = hash_str(&rendered.to_string());
        // large enumerations are sampled: one program in VERIF_REQUEST_SAMPLE (chosen by the program text)
        let sample = std::env::var("VERIF_REQUEST_SAMPLE").ok().and_then(|v| v.parse::<u64>().ok()).unwrap_or(1);
        if sample > 1 && (key >> 8) % sample != 0 {
            return Outcome { fail: None, nontrivial: false, key, rendered };
        }
        let work = std::env::var("VERIF_WORK").unwrap_or_else(|_| "/verif/work".into());
        let dir = std::path::PathBuf::from(format!("{work}/request-{}/{}", std::process::id(), self.counter));
        let _ = std::fs::remove_dir_all(&dir);
        std::fs::create_dir_all(&dir).unwrap();
        let names: Vec<String> = (0..n).map(|i| if i % 2 == 0 { format!("f{i}.slice") } else { format!("sub/f{i}.slice") }).collect();
        std::fs::create_dir_all(dir.join("sub")).unwrap();
        for (i, t) in texts.iter().enumerate() {
            std::fs::write(dir.join(&names[i]), t).unwrap();
        }
        for g in ["gen1", "gen2"] {
            let gen = dir.join(g);
            if std::fs::hard_link(crate::fam_driver::fakegen_bin(), &gen).is_err() {
                let _ = std::fs::copy(crate::fam_driver::fakegen_bin(), &gen);
            }
            std::fs::write(dir.join(format!("{g}.json")), json!({"beh": "ok0", "index": 1}).to_string()).unwrap();
        }
        // splits with at least one source; at most four per program, rotating with the case counter
        let all: Vec<u32> = (1..(1u32 << n)).collect();
        let max_splits = std::env::var("VERIF_REQUEST_SPLITS").ok().and_then(|v| v.parse::<usize>().ok()).unwrap_or(2);
        let masks: Vec<u32> = if all.len() <= max_splits {
            all.clone()
        } else {
            (0..max_splits).map(|j| all[(self.counter as usize * 7 + j * (all.len() / max_splits).max(1)) % all.len()]).collect()
        };
        let mut fail = None;
        let prev = std::env::current_dir().ok();
        for (mi, mask) in masks.iter().enumerate() {
            let mut sources = Vec::new();
            let mut references = Vec::new();
            for i in 0..n {
                // references are listed in reverse order, to tell the order of the lists from the order of the files
                if mask & (1 << i) != 0 {
                    sources.push(names[i].clone());
                } else {
                    references.insert(0, names[i].clone());
                }
            }
            let a1 = ARG_LISTS[(self.counter as usize + mi) % ARG_LISTS.len()];
            let a2 = ARG_LISTS[(self.counter as usize + mi + 1) % ARG_LISTS.len()];
            let spec = |g: &str, a: &[(&str, &str)]| -> String {
                let mut s = dir.join(g).display().to_string();
                for (k, v) in a {
                    s.push_str(&format!(",{}={}", escape(k), escape(v)));
                }
                s
            };
            let mut argv: Vec<String> = sources.clone();
            for r in &references {
                argv.push("-R".into());
                argv.push(r.clone());
            }
            argv.extend(["--diagnostic-format".into(), "json".into(), "-G".into(), spec("gen1", a1), "-G".into(), spec("gen2", a2)]);
            let _ = std::fs::remove_file(dir.join("gen1.stdin"));
            let _ = std::fs::remove_file(dir.join("gen2.stdin"));
            let res = crate::fam_driver::run_limited(std::process::Command::new(crate::fam_driver::slicec_bin()).args(&argv).current_dir(&dir), std::time::Duration::from_secs(30));
            // the library's view of the same compilation
            let _ = std::env::set_current_dir(&dir);
            let options = SliceOptions { sources: sources.clone(), references: references.clone(), ..Default::default() };
            let state = slicec::compile_from_options(&options);
            let accepted = !state.diagnostics.has_errors();
            let files: Vec<Value> = if accepted { state.files.iter().map(file).collect() } else { vec![] };
            if let Some(p) = &prev {
                let _ = std::env::set_current_dir(p);
            }
            if !accepted {
                // not a valid program: nothing is handed to generators (C07); no event
                continue;
            }
            let code = res.status.and_then(|s| s.code());
            for (g, a) in [("gen1", a1), ("gen2", a2)] {
                match std::fs::read(dir.join(format!("{g}.stdin"))) {
                    Ok(bytes) => {
                        emit_event(
                            "request",
                            &json!({"bytes": bytes, "files": files, "args": a.iter().map(|(k, v)| json!([b(k), b(v)])).collect::<Vec<_>>(),
                                    "argv": argv, "texts": texts}),
                        );
                    }
                    Err(_) => {
                        if fail.is_none() {
                            fail = Some(json!({"kind": "mismatch", "what": "a valid program was not handed to the generator", "exit": code,
                                               "stderr": String::from_utf8_lossy(&res.stderr).chars().take(600).collect::<String>(), "argv": argv}));
                        }
                    }
                }
            }
        }
        let _ = std::fs::remove_dir_all(&dir);
        Outcome { fail, nontrivial: true, key, rendered }
    }
}
