fn main() {}
