// C01: every input yields a verdict. Cases come from MC_Totality (soup / typepos / scale / options) and from the other
// generators (any case fam_request::texts_of can render: MC_Syntax, MC_DocComment, MC_Rules, MC_Request), optionally
// mutated. Each case is compiled in-process through compile_from_strings (a panic is caught by the worker, an abort /
// stack overflow / hang kills the worker and is attributed to the case by the supervisor) and - for the small families -
// by the binary on real files. One event per execution for Trace_Pipeline:
//   {"ev": "run", "mode": "lib" | "bin", "fam", "bytes", "accepted", "errors", "warnings", "elapsed_ms", "expect",
//    "exit", "signal", "panicked", "usage"}

use crate::util::{emit_event, hash_str, strs, Rng};
use crate::{Family, Outcome};
use serde_json::{json, Value};
use slicec::diagnostics::DiagnosticLevel;
use std::os::unix::process::ExitStatusExt;
use std::time::Instant;

#[derive(Default)]
pub struct Totality {
    counter: u64,
}

fn token_text(t: &str) -> &str {
    match t {
        "<escaped-keyword>" => "\\struct",
        "<huge-int>" => "99999999999999999999999999999999999999999",
        "<string>" => "\"str\"",
        "<empty-string>" => "\"\"",
        "<unterminated-string>" => "\"abc",
        "<doc>" => "/// d\n",
        "<line-comment>" => "// c\n",
        "<block-comment>" => "/* c */",
        "<unterminated-block-comment>" => "/* c",
        "<pp-if>" => "\n#if X\n",
        "<pp-endif>" => "\n#endif\n",
        "<pp-define>" => "\n#define Y\n",
        "<pp-else>" => "\n#else\n",
        "<pp-bogus>" => "\n#bogus\n",
        "<pp-define-accent>" => "\n#define \u{c9}\n",
        "<pp-if-accent>" => "\n#if D\u{c9}BUG\n",
        "<pp-undef-greek>" => "\n#undef Fo\u{3c9}\n",
        "<pp-if-digit>" => "\n#if 1A\n",
        "<pp-if-amp>" => "\n#if A & \u{e9}\n",
        "<pp-elif-accent>" => "\n#elif \u{df}\n",
        "<nul>" => "\0",
        "<bom>" => "\u{feff}",
        "<cr>" => "\r",
        "<crlf>" => "\r\n",
        "<nbsp>" => "\u{a0}",
        "<emoji>" => "\u{1f600}",
        "<u3000>" => "\u{3000}",
        "<backslash>" => "\\",
        x => x,
    }
}

fn render_soup(case: &Value) -> Vec<String> {
    let glue = if case["glue"] == "none" { "" } else { " " };
    let soup = strs(&case["toks"]).iter().map(|t| token_text(t).to_owned()).collect::<Vec<_>>().join(glue);
    vec![match case["ctx"].as_str().unwrap_or("bare") {
        "aftermodule" => format!("module M\n{soup}\n"),
        "structbody" => format!("module M\nstruct S {{ {soup} }}\n"),
        "params" => format!("module M\ninterface I {{ op({soup}) }}\n"),
        "attr" => format!("module M\n[{soup}] struct S {{}}\n"),
        "typepos" => format!("module M\nstruct S {{ f: {soup} }}\n"),
        "enumbody" => format!("module M\nenum E {{ {soup} }}\n"),
        "doc" => format!("module M\n/// {soup}\nstruct S {{}}\n"),
        _ => soup,
    }]
}

/// MC_Totality "taken": a definition named like something built in (escaped), and a use of the plain keyword after it
fn render_taken(case: &Value) -> Vec<String> {
    let name = case["name"].as_str().unwrap_or("int32");
    let def = match case["kind"].as_str().unwrap_or("struct") {
        "struct" => format!("struct \\{name} {{}}"),
        "cstruct" => format!("compact struct \\{name} {{ v: bool }}"),
        "enum" => format!("enum \\{name} {{ A }}"),
        "enumu8" => format!("enum \\{name} : uint8 {{ A }}"),
        "custom" => format!("custom \\{name}"),
        "alias" => format!("typealias \\{name} = bool"),
        _ => format!("interface \\{name} {{}}"),
    };
    // what is used: the plain keyword where the name is one, the name itself otherwise
    let t = match name {
        "Sequence" => "Sequence<int32>".to_owned(),
        "Dictionary" => "Dictionary<int32, bool>".to_owned(),
        "Result" => "Result<bool, int32>".to_owned(),
        "module" | "Foo" => format!("\\{name}"),
        n => n.to_owned(),
    };
    let user = match case["use"].as_str().unwrap_or("none") {
        "none" => String::new(),
        "field" => format!("struct User {{ a: {t} }}"),
        "param" => format!("interface User {{ op(p: {t}) }}"),
        "ret" => format!("interface User {{ op() -> {t} }}"),
        "underlying" => format!("enum User : {t} {{ A }}"),
        "aliastarget" => format!("typealias User = {t}"),
        "element" => format!("struct User {{ a: Sequence<{t}> }}"),
        "key" => format!("struct User {{ a: Dictionary<{t}, bool> }}"),
        "base" => format!("interface User : {t} {{}}"),
        _ => format!("struct User {{ a: \\{name} }}"),
    };
    let head = if case["inmodule"] == true { "module M\n" } else { "" };
    let first = format!("{head}{def}\n{user}\n");
    if case["second"] == true {
        // the use stands in a second file (with a module of its own)
        vec![format!("{head}{def}\n"), format!("module N\n{user}\n")]
    } else {
        vec![first]
    }
}

fn render_typepos(case: &Value) -> Vec<String> {
    let form = case["form"].as_str().unwrap_or("prim");
    let t = match form {
        "prim" => "int32",
        "struct" => "St",
        "interface" => "If",
        "enum" => "En",
        "custom" => "Cu",
        "alias" => "Al",
        "aliasprim" => "AlP",
        "aliasiface" => "AlI",
        "seq" => "Sequence<int32>",
        "dict" => "Dictionary<string, int32>",
        "res" => "Result<int32, string>",
        "missing" => "Nope",
        "module" => "M",
        "self" => "Self",
        "seqself" => "Sequence<Self>",
        _ => "::M::St",
    };
    let t = format!("{t}{}", if case["opt"] == true { "?" } else { "" });
    let mut prelude = String::from("module M\nstruct St {}\ninterface If {}\nenum En { A }\ncustom Cu\ntypealias Al = Sequence<int32>\ntypealias AlP = uint8\n");
    if form == "aliasiface" {
        prelude.push_str("typealias AlI = If\n");
    }
    let def = match case["pos"].as_str().unwrap_or("field") {
        "base" => format!("interface Self : {t} {{}}"),
        "base2" => format!("interface Self : If, {t} {{}}"),
        "underlying" => format!("enum Self : {t} {{ A }}"),
        "key" => format!("struct Self {{ f: Dictionary<{t}, int32> }}"),
        "value" => format!("struct Self {{ f: Dictionary<int32, {t}> }}"),
        "element" => format!("struct Self {{ f: Sequence<{t}> }}"),
        "aliastarget" => format!("typealias Self = {t}"),
        "taggedfield" => format!("struct Self {{ tag(1) f: {t} }}"),
        "param" => format!("interface Self {{ op(p: {t}) }}"),
        "streamparam" => format!("interface Self {{ op(p: stream {t}) }}"),
        "ret" => format!("interface Self {{ op() -> {t} }}"),
        "retmember" => format!("interface Self {{ op() -> (a: {t}, b: int32) }}"),
        "resok" => format!("struct Self {{ f: Result<{t}, string> }}"),
        "reserr" => format!("struct Self {{ f: Result<string, {t}> }}"),
        "enumfield" => format!("enum Self {{ A(f: {t}) }}"),
        _ => format!("struct Self {{ f: {t} }}"),
    };
    vec![format!("{prelude}{def}\n")]
}

fn render_scale(case: &Value) -> Vec<String> {
    let n = case["n"].as_u64().unwrap_or(1) as usize;
    let f = case["f"].as_str().unwrap_or("");
    let mut s = String::from("module M\n");
    match f {
        "dag" | "dagseq" | "cyc" | "cycopt" => {
            for i in 1..=n {
                let fields: Vec<String> = (1..=n)
                    .filter(|j| if f.starts_with("dag") { *j > i } else { *j != i })
                    .map(|j| match f {
                        "dagseq" => format!("f{j}: Sequence<S{j}>"),
                        "cycopt" => format!("f{j}: S{j}?"),
                        _ => format!("f{j}: S{j}"),
                    })
                    .collect();
                s.push_str(&format!("struct S{i} {{ {} }}\n", fields.join(", ")));
            }
        }
        "aliaschain" => {
            s.push_str("typealias L1 = int32\n");
            for i in 2..=n {
                s.push_str(&format!("typealias L{i} = L{}\n", i - 1));
            }
            s.push_str(&format!("struct U {{ f: L{n} }}\n"));
        }
        "ifacechain" => {
            s.push_str("interface I1 { op1() }\n");
            for i in 2..=n {
                s.push_str(&format!("interface I{i} : I{} {{ op{i}() }}\n", i - 1));
            }
        }
        "ifacedense" => {
            s.push_str("interface I1 { op1() }\n");
            for i in 2..=n {
                let bases: Vec<String> = (1..i).map(|j| format!("I{j}")).collect();
                s.push_str(&format!("interface I{i} : {} {{ op{i}() }}\n", bases.join(", ")));
            }
        }
        "aliasdouble" => {
            s.push_str("typealias A0 = int32\n");
            for i in 1..=n {
                s.push_str(&format!("typealias A{i} = Result<A{}, A{}>\n", i - 1, i - 1));
            }
            s.push_str(&format!("struct S {{ a: A{n} }}\n"));
        }
        "keydouble" => {
            s.push_str("compact struct K0 { a: int32 }\n");
            for i in 1..=n {
                s.push_str(&format!("compact struct K{i} {{ a: K{}, b: K{} }}\n", i - 1, i - 1));
            }
            s.push_str(&format!("struct S {{ d: Dictionary<K{n}, bool> }}\n"));
        }
        "seqnest" => s.push_str(&format!("struct S {{ f: {}int32{} }}\n", "Sequence<".repeat(n), ">".repeat(n))),
        "dictnest" => s.push_str(&format!("struct S {{ f: {}int32{} }}\n", "Dictionary<int8, ".repeat(n), ">".repeat(n))),
        "resnest" => s.push_str(&format!("struct S {{ f: {}int32{} }}\n", "Result<".repeat(n), ", bool>".repeat(n))),
        "parens" => s = format!("#if {}X{}\nmodule M\n#endif\nmodule N\n", "(".repeat(n), ")".repeat(n)),
        "nots" => s = format!("#if {}X\nmodule M\n#else\nmodule N\n#endif\n", "!".repeat(n)),
        "modulenest" => s = format!("module A{}\nstruct S {{}}\n", "::A".repeat(n)),
        "files" => return (1..=n).map(|i| format!("module M{i}\nstruct S{i} {{ a: int32 }}\n")).collect(),
        "longid" => s.push_str(&format!("struct {} {{}}\n", "Ab".repeat(n * 25))),
        "fields" => s.push_str(&format!("struct S {{ {} }}\n", (1..=n * 5).map(|i| format!("f{i}: int32")).collect::<Vec<_>>().join(", "))),
        "enumerators" => s.push_str(&format!("enum E {{ {} }}\n", (1..=n * 10).map(|i| format!("E{i}")).collect::<Vec<_>>().join(", "))),
        "attrs" => s.push_str(&format!("{}struct S {{}}\n", (1..=n * 3).map(|i| format!("[x::a{i}(\"v\")] ")).collect::<String>())),
        "doclines" => s.push_str(&format!("{}struct S {{}}\n", (1..=n * 5).map(|i| format!("///{}line {i} {{@link S}}\n", " ".repeat(i % 4))).collect::<String>())),
        "doctags" => s.push_str(&format!("/// Overview.\n{}struct S {{}}\n", (1..=n * 5).map(|_| "/// @see S\n".to_owned()).collect::<String>())),
        _ => s.push_str(&format!("struct S {{ {} }}\n", (1..=n * 5).map(|i| format!("tag({i}) f{i}: Sequence<int32?>?")).collect::<Vec<_>>().join(", "))),
    }
    vec![s]
}

fn option_value(o: &Value) -> String {
    if let Some(w) = o.get("word").and_then(|w| w.as_str()) {
        return match w {
            "s" => " ".to_owned(),
            x => x.to_owned(),
        };
    }
    strs(&o["chars"])
        .iter()
        .map(|c| match c.as_str() {
            "s" => ' ',
            "b" => '\\',
            "," => ',',
            "=" => '=',
            _ => 'a',
        })
        .collect()
}

struct LibRun {
    accepted: bool,
    errors: usize,
    warnings: usize,
    ms: u64,
    cpu_ms: u64,
}

fn lib_run(texts: &[String]) -> LibRun {
    let refs: Vec<&str> = texts.iter().map(|s| s.as_str()).collect();
    let t0 = Instant::now();
    let cpu0 = crate::util::thread_cpu_ms();
    let state = slicec::compile_from_strings(&refs, None);
    let accepted = !state.diagnostics.has_errors();
    let diags = state.into_diagnostics(&Default::default());
    let ms = t0.elapsed().as_millis() as u64;
    let cpu_ms = crate::util::thread_cpu_ms().saturating_sub(cpu0);
    LibRun {
        accepted,
        errors: diags.iter().filter(|d| d.level() == DiagnosticLevel::Error).count(),
        warnings: diags.iter().filter(|d| d.level() == DiagnosticLevel::Warning).count(),
        ms,
        cpu_ms,
    }
}

/// runs the binary on real files; returns the event fields
fn bin_run(dir: &std::path::Path, texts: &[String], extra: &[String], json_format: bool) -> Value {
    let _ = std::fs::remove_dir_all(dir);
    std::fs::create_dir_all(dir).unwrap();
    let mut argv: Vec<String> = Vec::new();
    for (i, t) in texts.iter().enumerate() {
        std::fs::write(dir.join(format!("f{i}.slice")), t).unwrap();
        argv.push(format!("f{i}.slice"));
    }
    if json_format {
        argv.extend(["--diagnostic-format".to_owned(), "json".to_owned()]);
    }
    argv.extend(extra.iter().cloned());
    // a reference directory with files that declare no module: nothing but a comment, everything inside a block that is not
    // selected, only a file attribute - legal, empty files (they change no verdict)
    std::fs::create_dir_all(dir.join("refs")).unwrap();
    std::fs::write(dir.join("refs/only_a_comment.slice"), "// nothing here\n").unwrap();
    std::fs::write(dir.join("refs/not_selected.slice"), "#if NOPE\nmodule Hidden\nstruct H {}\n#endif\n").unwrap();
    std::fs::write(dir.join("refs/only_an_attribute.slice"), "[[cs::x]]\n").unwrap();
    argv.extend(["-R".to_owned(), "refs".to_owned()]);
    let res = crate::fam_driver::run_limited(std::process::Command::new(crate::fam_driver::slicec_bin()).args(&argv).current_dir(dir), std::time::Duration::from_secs(60));
    let stderr = String::from_utf8_lossy(&res.stderr).to_string();
    // JSON: one object per diagnostic; human format: one header line per diagnostic
    let (errors, warnings) = if json_format {
        (stderr.lines().filter(|l| l.contains("\"severity\":\"error\"")).count(), stderr.lines().filter(|l| l.contains("\"severity\":\"warning\"")).count())
    } else {
        (stderr.lines().filter(|l| l.starts_with("error [")).count(), stderr.lines().filter(|l| l.starts_with("warning [")).count())
    };
    let _ = std::fs::remove_dir_all(dir);
    json!({"exit": res.status.and_then(|s| s.code()).unwrap_or(-1), "signal": res.status.and_then(|s| s.signal()).unwrap_or(0), "timed_out": res.timed_out,
           "panicked": stderr.contains("panicked at") || stderr.contains("overflowed its stack"), "errors": errors, "warnings": warnings,
           "elapsed_ms": res.elapsed_ms, "cpu_ms": res.cpu_ms, "argv": argv, "stderr_head": stderr.chars().take(300).collect::<String>()})
}

fn mutate(rng: &mut Rng, text: &str) -> String {
    let chars: Vec<char> = text.chars().collect();
    if chars.is_empty() {
        return "\u{0}".into();
    }
    let i = rng.below(chars.len() as u64) as usize;
    let pool = ['{', '}', '(', ')', '[', ']', '<', '>', ',', ':', '=', '?', '"', '/', '*', '#', '\\', '@', '-', '\n', '\r', ' ', '\t', '\0', '\u{feff}', '\u{3000}', '\u{1f600}', 'x', '0'];
    let mut out = chars.clone();
    match rng.below(7) {
        0 => {
            out.remove(i);
        }
        1 => out.insert(i, *rng.pick(&pool)),
        2 => out[i] = *rng.pick(&pool),
        3 => {
            // delete a span
            let j = (i + 1 + rng.below(12) as usize).min(out.len());
            out.drain(i..j);
        }
        4 => {
            // duplicate a span
            let j = (i + 1 + rng.below(24) as usize).min(out.len());
            let span: Vec<char> = out[i..j].to_vec();
            for (k, c) in span.into_iter().enumerate() {
                out.insert(j + k, c);
            }
        }
        5 => {
            // swap two spans' starting characters
            let j = rng.below(out.len() as u64) as usize;
            out.swap(i, j);
        }
        _ => {
            // truncate
            out.truncate(i);
        }
    }
    out.into_iter().collect()
}

impl Family for Totality {
    fn run(&mut self, case: &Value) -> Outcome {
        self.counter += 1;
        let fam = case["fam"].as_str().unwrap_or("");
        let work = std::env::var("VERIF_WORK").unwrap_or_else(|_| "/verif/work".into());
        let dir = std::path::PathBuf::from(format!("{work}/totality-{}/{}", std::process::id(), self.counter));
        if fam == "options" {
            let o = &case["o"];
            let opt = o["opt"].as_str().unwrap_or("none");
            let v = option_value(o);
            let mut extra: Vec<String> = vec!["--dry-run".into()];
            match opt {
                "none" | "--dry-run" => {}
                "--disable-color" | "--bogus" => extra.push(opt.to_owned()),
                "-G-missing-value" => extra.push("-G".into()),
                _ => {
                    // the value is passed as its own argument (also when empty or starting with '-': "--opt=value" form for those)
                    if v.starts_with('-') || opt == "--diagnostic-format" {
                        extra.push(format!("{opt}={v}"));
                    } else {
                        extra.push(opt.to_owned());
                        extra.push(v.clone());
                    }
                    if case["second"] == true {
                        extra.insert(1, "-D".into());
                        extra.insert(2, "SYM".into());
                    }
                }
            }
            let texts = vec!["module M\nstruct S { a: int32 }\n".to_owned()];
            let rendered = json!({"files": texts, "extra": extra});
            let key = hash_str(&rendered.to_string());
            let mut ev = bin_run(&dir, &texts, &extra, opt != "--diagnostic-format");
            ev["ev"] = json!("run");
            ev["mode"] = json!("bin");
            ev["fam"] = json!("options");
            ev["bytes"] = json!(texts[0].len());
            ev["usage"] = case["usage"].clone();
            ev["expect"] = json!(if case["usage"] == true { "usage" } else { "ok" });
            emit_event("totality", &ev);
            return Outcome { fail: None, nontrivial: opt != "none", key, rendered };
        }
        let mutations = std::env::var("VERIF_TOTALITY_MUTATIONS").ok().and_then(|v| v.parse::<u64>().ok()).unwrap_or(0);
        let (texts, family_name) = match fam {
            "soup" => (render_soup(case), "soup"),
            "typepos" => (render_typepos(case), "typepos"),
            "taken" => (render_taken(case), "taken"),
            "scale" => (render_scale(case), "scale"),
            _ => match if case.get("item").is_some() { crate::fam_rules::render(case) } else { crate::fam_request::texts_of(case) } {
                Some(t) => (t, "generated"),
                None => return Outcome { fail: None, nontrivial: false, key: 0, rendered: json!(null) },
            },
        };
        let rendered = json!({"files": texts});
        let key = hash_str(&rendered.to_string());
        let bytes: usize = texts.iter().map(|t| t.len()).sum();
        let expect = match case.get("expect") {
            Some(Value::String(s)) if fam == "typepos" => json!(s),
            _ => json!("unknown"),
        };
        let r = lib_run(&texts);
        emit_event(
            "totality",
            &json!({"ev": "run", "mode": "lib", "fam": family_name, "bytes": bytes, "accepted": r.accepted, "errors": r.errors, "warnings": r.warnings,
                    "elapsed_ms": r.ms, "cpu_ms": r.cpu_ms, "expect": expect, "detail": match fam { "scale" => json!({"f": case["f"], "n": case["n"]}), "typepos" => json!({"form": case["form"], "opt": case["opt"], "pos": case["pos"]}), _ => json!({}) }}),
        );
        // the binary on real files: always for the small families, sampled for the soups
        let with_bin = matches!(fam, "typepos" | "scale" | "taken") || (fam == "soup" && (key >> 8) % 16 == 0) || (family_name == "generated" && (key >> 8) % 8 == 0);
        if with_bin {
            // an accepted program goes all the way: without --dry-run the generator request is built and encoded even when
            // no generator is named; for a rejected one the flag changes nothing, so it is given every other time
            let extra: Vec<String> = if r.accepted || (key >> 12) % 2 == 0 { vec![] } else { vec!["--dry-run".to_owned()] };
            // every other run in the human-readable format: the snippets under the diagnostics are computed from the
            // source text (columns, tabs, multi-byte characters) and are part of reporting a verdict
            let mut ev = bin_run(&dir, &texts, &extra, (key >> 16) % 2 == 0);
            ev["ev"] = json!("run");
            ev["mode"] = json!("bin");
            ev["fam"] = json!(family_name);
            ev["bytes"] = json!(bytes);
            ev["usage"] = json!(false);
            ev["expect"] = expect.clone();
            ev["lib_accepted"] = json!(r.accepted);
            ev["detail"] = match fam { "scale" => json!({"f": case["f"], "n": case["n"]}), "typepos" => json!({"form": case["form"], "opt": case["opt"], "pos": case["pos"]}), _ => json!({}) };
            emit_event("totality", &ev);
        }
        // seeded mutations of generated programs (the model supplies the base programs)
        if mutations > 0 && family_name == "generated" {
            let mut rng = Rng::new(crate::util::seed_from_env() ^ key);
            for m in 0..mutations {
                let mut mt = texts.clone();
                let rounds = 1 + (m % 3);
                for _ in 0..rounds {
                    let fi = rng.below(mt.len() as u64) as usize;
                    mt[fi] = mutate(&mut rng, &mt[fi]);
                }
                // the mutated text is written where a crash of the worker leaves it behind
                let _ = std::fs::create_dir_all(&dir);
                let _ = std::fs::write(dir.join("last-mutant.json"), json!({"files": mt}).to_string());
                let r = lib_run(&mt);
                let b: usize = mt.iter().map(|t| t.len()).sum();
                emit_event(
                    "totality",
                    &json!({"ev": "run", "mode": "lib", "fam": "mutant", "bytes": b, "accepted": r.accepted, "errors": r.errors, "warnings": r.warnings,
                            "elapsed_ms": r.ms, "cpu_ms": r.cpu_ms, "expect": "unknown", "detail": {}}),
                );
            }
            let _ = std::fs::remove_dir_all(&dir);
        }
        Outcome { fail: None, nontrivial: true, key, rendered }
    }
}
