// C14: diagnostic emission.
// (G) "emitter": diagnostic lists printed by MC_Emitter are built through the public API, updated (into_updated) and
//     emitted into memory; the parsed records, the totals and the absence of escape sequences are compared with the
//     model's expectation.
//     case: {"diags": [{"kind","code","msg","span","notes":[{"msg","span"}]}], "allow": [..], "format", "colour", "expect": {...}}
// (T) "emitbin": the slicec binary on template programs; one event per run for Trace_Emitter.

use crate::util::{emit_event, hash_str, mismatch, strs};
use crate::{Family, Outcome};
use serde_json::{json, Value};
use slicec::ast::Ast;
use slicec::diagnostic_emitter::DiagnosticEmitter;
use slicec::diagnostics::{get_totals, Diagnostic, Diagnostics, Error, Lint};
use slicec::slice_file::{Location, SliceFile, Span};
use slicec::slice_options::{DiagnosticFormat, SliceOptions};

#[derive(Default)]
pub struct Emitter;

pub const FILE_A: &str = "dir with space/f\u{e9}1.slice";
pub const FILE_B: &str = "other.slice";
const TEXT: &str = "module M\n\tstruct S {\n  a: int32, // caf\u{e9} \u{4e2d}\n  b: bool\n}\n";

pub fn message_text(id: u64) -> String {
    match id {
        1 => "plain message".into(),
        2 => "with \"double\" and 'single' quotes and a back\\slash".into(),
        3 => "control \t tab, bell \u{7} and a line\nbreak".into(),
        4 => "non-ascii \u{e9} \u{4e2d} \u{1f600}".into(),
        _ => "looks like json {\"a\": [1, 2]} and ends with a backslash \\".into(),
    }
}

fn span_of(kind: &str, file: &str) -> Option<Span> {
    match kind {
        "single" => Some(Span::new(Location { row: 2, col: 2 }, Location { row: 2, col: 8 }, file)),
        "multi" => Some(Span::new(Location { row: 2, col: 5 }, Location { row: 4, col: 3 }, file)),
        _ => None,
    }
}

fn build(d: &Value) -> Diagnostic {
    let text = message_text(d["msg"].as_u64().unwrap_or(1));
    let mut diag = match (d["kind"].as_str().unwrap_or("error"), d["code"].as_str().unwrap_or("E002")) {
        ("error", "E001") => Diagnostic::new(Error::IO { action: "read", path: text, error: std::io::Error::other("some cause") }),
        ("error", _) => Diagnostic::new(Error::Syntax { message: text }),
        (_, "Deprecated") => Diagnostic::new(Lint::Deprecated { identifier: "Old".into(), reason: Some(text) }),
        (_, "BrokenDocLink") => Diagnostic::new(Lint::BrokenDocLink { message: text }),
        (_, "IncorrectDocComment") => Diagnostic::new(Lint::IncorrectDocComment { message: text }),
        (_, "DuplicateFile") => Diagnostic::new(Lint::DuplicateFile { path: text }),
        _ => Diagnostic::new(Lint::MalformedDocComment { message: text }),
    };
    if let Some(s) = span_of(d["span"].as_str().unwrap_or("none"), FILE_A) {
        diag = diag.set_span(&s);
    }
    for n in d["notes"].as_array().cloned().unwrap_or_default() {
        let s = span_of(n["span"].as_str().unwrap_or("none"), FILE_B);
        diag = diag.add_note(message_text(n["msg"].as_u64().unwrap_or(1)), s.as_ref());
    }
    diag
}

pub fn strip_ansi(s: &str) -> (String, usize) {
    let mut out = String::new();
    let mut n = 0;
    let mut it = s.chars().peekable();
    while let Some(c) = it.next() {
        if c == '\u{1b}' {
            n += 1;
            if it.peek() == Some(&'[') {
                it.next();
                for x in it.by_ref() {
                    if x.is_ascii_alphabetic() {
                        break;
                    }
                }
            }
        } else {
            out.push(c);
        }
    }
    (out, n)
}

/// Parses human-format output into records {severity, code, message, at: [file,row,col]|null, notes: [{message, at}]}.
pub fn parse_human(text: &str) -> Vec<Value> {
    let mut recs: Vec<Value> = Vec::new();
    // 0 = nothing yet, 1 = in a record's message, 2 = in a note's message
    let mut mode = 0;
    for line in text.lines() {
        let header = ["error", "warning"].iter().find_map(|sev| {
            let rest = line.strip_prefix(sev)?.strip_prefix(" [")?;
            let (code, msg) = rest.split_once("]: ")?;
            Some((sev.to_string(), code.to_owned(), msg.to_owned()))
        });
        if let Some((sev, code, msg)) = header {
            recs.push(json!({"severity": sev, "code": code, "message": msg, "at": [], "notes": []}));
            mode = 1;
        } else if let Some(msg) = line.strip_prefix("note: ") {
            if let Some(r) = recs.last_mut() {
                r["notes"].as_array_mut().unwrap().push(json!({"message": msg, "at": []}));
                mode = 2;
            }
        } else if let Some(loc) = line.strip_prefix(" --> ") {
            let mut parts = loc.rsplitn(3, ':');
            let col = parts.next().and_then(|x| x.parse::<u64>().ok());
            let row = parts.next().and_then(|x| x.parse::<u64>().ok());
            let file = parts.next().unwrap_or("");
            if let Some(r) = recs.last_mut() {
                let at = json!([file, row, col]);
                if mode == 2 {
                    let notes = r["notes"].as_array_mut().unwrap();
                    if let Some(n) = notes.last_mut() {
                        n["at"] = at;
                    }
                } else {
                    r["at"] = at;
                }
            }
            mode = 3;
        } else if mode == 3 {
            // snippet lines ("   |", "12 | text", "   | ----")
        } else if let Some(r) = recs.last_mut() {
            // continuation of a multi-line message
            if mode == 1 {
                let m = format!("{}\n{}", r["message"].as_str().unwrap_or(""), line);
                r["message"] = json!(m);
            } else if mode == 2 {
                let notes = r["notes"].as_array_mut().unwrap();
                if let Some(n) = notes.last_mut() {
                    let m = format!("{}\n{}", n["message"].as_str().unwrap_or(""), line);
                    n["message"] = json!(m);
                }
            }
        } else {
            recs.push(json!({"severity": "?", "code": "?", "message": line, "at": [], "notes": []}));
        }
    }
    recs
}

/// Parses JSON-format output; every line must be one object with exactly the five keys.
pub fn parse_json(text: &str) -> Result<Vec<Value>, String> {
    let mut recs = Vec::new();
    for line in text.lines() {
        let v: Value = serde_json::from_str(line).map_err(|e| format!("line is not JSON: {e}: {line}"))?;
        let obj = v.as_object().ok_or("line is not an object")?;
        let mut keys: Vec<&str> = obj.keys().map(|k| k.as_str()).collect();
        keys.sort();
        if keys != ["error_code", "message", "notes", "severity", "span"] {
            return Err(format!("keys {keys:?}"));
        }
        let at = |s: &Value| -> Value {
            if s.is_null() {
                json!([])
            } else {
                json!([s["file"], s["start"]["row"], s["start"]["col"]])
            }
        };
        let notes: Vec<Value> = v["notes"].as_array().cloned().unwrap_or_default().iter().map(|n| json!({"message": n["message"], "at": at(&n["span"])})).collect();
        recs.push(json!({"severity": v["severity"], "code": v["error_code"], "message": v["message"], "at": at(&v["span"]), "notes": notes}));
    }
    Ok(recs)
}

/// a writer that accepts at most seven bytes per call
struct Stingy(Vec<u8>);
impl std::io::Write for Stingy {
    fn write(&mut self, buf: &[u8]) -> std::io::Result<usize> {
        let n = buf.len().min(7);
        self.0.extend_from_slice(&buf[..n]);
        Ok(n)
    }
    fn flush(&mut self) -> std::io::Result<()> {
        Ok(())
    }
}

fn expected_record(r: &Value) -> Value {
    // the message is what Diagnostic::message() gives for the same diagnostic
    let d = build(&json!({"kind": if r["severity"] == "error" { "error" } else { "lint" }, "code": r["code"], "msg": r["msg"], "span": r["span"], "notes": r["notes"]}));
    let at = |s: Option<&Span>| match s {
        Some(s) => json!([s.file, s.start.row, s.start.col]),
        None => json!([]),
    };
    // the notes are those of the case - every one that was attached, in order (not what the built diagnostic still holds)
    let notes: Vec<Value> = r["notes"]
        .as_array()
        .cloned()
        .unwrap_or_default()
        .iter()
        .map(|n| json!({"message": message_text(n["msg"].as_u64().unwrap_or(1)), "at": at(span_of(n["span"].as_str().unwrap_or("none"), FILE_B).as_ref())}))
        .collect();
    json!({"severity": r["severity"], "code": r["code"], "message": d.message(), "at": at(d.span()), "notes": notes})
}

impl Family for Emitter {
    fn run(&mut self, case: &Value) -> Outcome {
        let format = case["format"].as_str().unwrap_or("human");
        let colour = case["colour"].as_bool().unwrap_or(false);
        let allow = strs(&case["allow"]);
        let mut diagnostics = Diagnostics::new();
        for d in case["diags"].as_array().cloned().unwrap_or_default() {
            build(&d).push_into(&mut diagnostics);
        }
        let files = vec![SliceFile::new(FILE_A.into(), TEXT.into(), true), SliceFile::new(FILE_B.into(), TEXT.into(), false)];
        let options = SliceOptions {
            allowed_lints: allow.clone(),
            diagnostic_format: if format == "json" { DiagnosticFormat::Json } else { DiagnosticFormat::Human },
            disable_color: !colour,
            ..Default::default()
        };
        let ast = Ast::create();
        let updated = diagnostics.into_updated(&ast, &files, &options);
        let (warnings, errors) = get_totals(&updated);
        if colour {
            console::set_colors_enabled(true);
            console::set_colors_enabled_stderr(true);
        }
        let mut out: Vec<u8> = Vec::new();
        let res = {
            let mut emitter = DiagnosticEmitter::new(&mut out, &options, &files);
            emitter.emit_diagnostics(updated)
        };
        let text = String::from_utf8_lossy(&out).to_string();
        // the same list once more into a writer that takes at most seven bytes per call (as a pipe under pressure may): what
        // arrives is the same text
        let mut stingy = Stingy(Vec::new());
        {
            let mut again = slicec::diagnostics::Diagnostics::new();
            for d in case["diags"].as_array().cloned().unwrap_or_default() {
                build(&d).push_into(&mut again);
            }
            let updated = again.into_updated(&ast, &files, &options);
            let mut emitter = DiagnosticEmitter::new(&mut stingy, &options, &files);
            let _ = emitter.emit_diagnostics(updated);
        }
        let short_writes_same = stingy.0 == out;
        let rendered = json!({"format": format, "colour": colour, "allow": allow, "n": case["diags"].as_array().map(|a| a.len())});
        let key = hash_str(&case.to_string());
        let expect = &case["expect"];
        let fail = (|| {
            if res.is_err() {
                return Some(json!({"kind": "mismatch", "what": "emit_diagnostics returned an error"}));
            }
            if !short_writes_same {
                return Some(json!({"kind": "mismatch", "what": "a writer that takes a few bytes per call receives another text than one that takes everything",
                                   "whole": text, "short_writes": String::from_utf8_lossy(&stingy.0)}));
            }
            let (plain, escapes) = strip_ansi(&text);
            if !colour && escapes > 0 {
                return Some(mismatch("escape sequences with colours disabled", json!(0), json!(escapes)));
            }
            if format == "json" && escapes > 0 {
                return Some(mismatch("escape sequences in JSON output", json!(0), json!(escapes)));
            }
            let recs = if format == "json" {
                match parse_json(&plain) {
                    Ok(r) => r,
                    Err(e) => return Some(json!({"kind": "mismatch", "what": "JSON output is not one five-key object per line", "detail": e, "output": plain})),
                }
            } else {
                parse_human(&plain)
            };
            let want: Vec<Value> = expect["records"].as_array().cloned().unwrap_or_default().iter().map(expected_record).collect();
            if recs != want {
                return Some(mismatch("emitted records (order, multiplicity, code, message, location, notes)", json!(want), json!({"records": recs, "raw": plain})));
            }
            if (warnings as u64, errors as u64) != (expect["warnings"].as_u64().unwrap_or(0), expect["errors"].as_u64().unwrap_or(0)) {
                return Some(mismatch("totals", json!([expect["warnings"], expect["errors"]]), json!([warnings, errors])));
            }
            None
        })();
        let nontrivial = case["diags"].as_array().map(|a| a.len() >= 2).unwrap_or(false);
        Outcome { fail, nontrivial, key, rendered }
    }
}

// ---------------------------------------------------------------------------------------------------------------------
// (T) the binary: program x format x --disable-color x -A list; one event per run for Trace_Emitter

/// `vh emitstate <arguments of slicec>`: compile and finish the way the library offers to (what front ends built on the
/// library call): CompilationState::emit_diagnostics writes to the real stderr / stdout and says whether there were errors.
pub fn emitstate(args: &[String]) -> i32 {
    use clap::Parser;
    let mut argv = vec!["slicec".to_owned()];
    argv.extend(args.iter().cloned());
    let options = match SliceOptions::try_parse_from(&argv) {
        Ok(o) => o,
        Err(_) => return 2,
    };
    let state = slicec::compile_from_options(&options);
    if state.emit_diagnostics(&options) { 1 } else { 0 }
}

#[derive(Default)]
pub struct EmitBin {
    counter: u64,
}

pub fn bin_program(id: u64) -> (String, String) {
    let name = if id == 6 { "my dir/f \u{e9} \u{4e2d}.slice" } else { "a.slice" };
    let text = match id {
        1 => "module M\nstruct S { a: int32 }\n".to_owned(),
        2 | 6 => "module M\n[deprecated(\"use \\\"New\\\" caf\u{e9} \\\\ instead\")] struct Old {}\nstruct S {\n\ta: Old,\n  b: Sequence<Old>\n}\n".to_owned(),
        3 => "module M\n[deprecated] struct Old {}\nstruct S { a: Old, x: tag(1) int32, y: tag(2) int32?, z: tag(2) bool? }\n".to_owned(),
        4 => "module M\nstruct {\n".to_owned(),
        // non-ASCII text in front of two spans on one line (columns count characters, not bytes)
        8 => "module M\n/// \u{30c7}\u{30fc}\u{30bf}\u{306e}\u{5b9b}\u{5148} {@link Sink} \u{438} \u{421}\u{43c}\u{43e}\u{442}\u{440}\u{438}\u{442}\u{435} \u{442}\u{430}\u{43a}\u{436}\u{435} {@link Other}\nstruct S {}\n".to_owned(),
        // no module declaration (the second file of this program has the same defect)
        9 => "struct S {}\n".to_owned(),
        // a compact struct with two fields of the same illegal key type: one error with two notes of the same text
        7 => "module M\ncompact struct K {\n  x: float32\n  y: float32\n}\nstruct U { d: Dictionary<K, bool> }\n".to_owned(),
        _ => "module M\n/// See {@link Missing} and {@link AlsoMissing}.\n/// @param nope: no such parameter\nstruct A { b: B }\nstruct B { a: Sequence<A?> }\n[deprecated] struct Old {}\nstruct U { o: Old }\n".to_owned(),
    };
    (name.to_owned(), text)
}

fn lib_at(s: Option<&Span>) -> Value {
    match s {
        Some(s) => json!([s.file, s.start.row, s.start.col]),
        None => json!([]),
    }
}

impl Family for EmitBin {
    fn run(&mut self, case: &Value) -> Outcome {
        use std::process::Command;
        self.counter += 1;
        let work = std::env::var("VERIF_WORK").unwrap_or_else(|_| "/verif/work".into());
        let dir = std::path::PathBuf::from(format!("{work}/emit-{}/{}", std::process::id(), self.counter));
        let _ = std::fs::remove_dir_all(&dir);
        std::fs::create_dir_all(dir.join("my dir")).unwrap();
        let prog = case["prog"].as_u64().unwrap_or(1);
        let format = case["format"].as_str().unwrap_or("human");
        let disable = case["disable_color"].as_bool().unwrap_or(true);
        let allow = strs(&case["allow"]);
        let (name, text) = bin_program(prog);
        std::fs::write(dir.join(&name), &text).unwrap();
        // program 9 has a second file with the same defect (no module declaration: an error without a location, in each file)
        let second = if prog == 9 { Some("b.slice".to_owned()) } else { None };
        if let Some(b) = &second {
            std::fs::write(dir.join(b), "struct T {}\n").unwrap();
        }
        // a reference directory that also holds files that are no Slice files (they are skipped silently: nothing about
        // them belongs on the diagnostic stream) and an unused Slice file
        std::fs::create_dir_all(dir.join("refs/nested")).unwrap();
        std::fs::write(dir.join("refs/README.md"), "# not Slice\n").unwrap();
        std::fs::write(dir.join("refs/nested/old.slice.bak"), "module Old\n").unwrap();
        std::fs::write(dir.join("refs/nested/unused.slice"), "module Unused\nstruct NotUsed {}\n").unwrap();
        let mut argv: Vec<String> = vec![name.clone()];
        argv.extend(second.iter().cloned());
        argv.extend(["-R".to_owned(), "refs".to_owned(), "--diagnostic-format".to_owned(), format.to_owned()]);
        if disable {
            argv.push("--disable-color".into());
        }
        for a in &allow {
            argv.extend(["-A".into(), a.clone()]);
        }
        let gen = case["gen"].as_str().unwrap_or("none");
        if gen == "missing" {
            argv.extend(["-G".into(), "./no-such-generator".into()]);
        }
        if gen == "okwarn" {
            // a working generator whose reply carries one file and one diagnostic of its own
            let g = dir.join("gen1");
            if std::fs::hard_link(crate::fam_driver::fakegen_bin(), &g).is_err() {
                let _ = std::fs::copy(crate::fam_driver::fakegen_bin(), &g);
            }
            let _ = std::fs::write(dir.join("gen1.json"), json!({"beh": "okwarn", "index": 1}).to_string());
            argv.extend(["-G".into(), "./gen1".into()]);
        }
        let rendered = json!({"argv": argv, "file": text, "driver": case["driver"]});
        let key = hash_str(&rendered.to_string());
        // the library on the same input with the same options
        let options = SliceOptions {
            sources: vec![dir.join(&name).display().to_string()],
            allowed_lints: allow.clone(),
            ..Default::default()
        };
        let prev = std::env::current_dir().ok();
        let _ = std::env::set_current_dir(&dir);
        let lib_options = SliceOptions { sources: std::iter::once(name.clone()).chain(second.iter().cloned()).collect(), references: vec!["refs".to_owned()], allowed_lints: allow.clone(), ..Default::default() };
        let state = slicec::compile_from_options(&lib_options);
        let lib: Vec<Value> = state
            .into_diagnostics(&lib_options)
            .iter()
            .map(|d| {
                let sev = match d.level() {
                    slicec::diagnostics::DiagnosticLevel::Error => "error",
                    slicec::diagnostics::DiagnosticLevel::Warning => "warning",
                    slicec::diagnostics::DiagnosticLevel::Allowed => "allowed",
                };
                let notes: Vec<Value> = d.notes().iter().map(|n| json!({"message": n.message, "at": lib_at(n.span.as_ref())})).collect();
                json!({"severity": sev, "code": d.code(), "message": d.message(), "at": lib_at(d.span()), "notes": notes})
            })
            .collect();
        if let Some(p) = prev {
            let _ = std::env::set_current_dir(p);
        }
        let _ = options;
        let driver = case["driver"].as_str().unwrap_or("binary");
        let mut cmd = if driver == "library" {
            // CompilationState::emit_diagnostics in a child process (`vh emitstate <arguments of slicec>`)
            let mut c = Command::new(std::env::current_exe().unwrap());
            c.arg("emitstate");
            c
        } else {
            Command::new(crate::fam_driver::slicec_bin())
        };
        let res = crate::fam_driver::run_limited(cmd.args(&argv).current_dir(&dir).env("CLICOLOR_FORCE", "1").env_remove("NO_COLOR"), std::time::Duration::from_secs(20));
        let stderr = String::from_utf8_lossy(&res.stderr).to_string();
        let stdout = String::from_utf8_lossy(&res.stdout).to_string();
        let (plain_err, esc_err) = strip_ansi(&stderr);
        let (plain_out, esc_out) = strip_ansi(&stdout);
        let (records, json_ok) = if format == "json" {
            match parse_json(&plain_err) {
                Ok(r) => (r, true),
                Err(_) => (vec![], false),
            }
        } else {
            (parse_human(&plain_err), true)
        };
        // human format: nothing precedes the first diagnostic on the diagnostic stream (JSON: every line is an object)
        let stderr_other = if format == "json" {
            0
        } else {
            plain_err.lines().take_while(|l| !(l.starts_with("error [") || l.starts_with("warning ["))).filter(|l| !l.trim().is_empty()).count()
        };
        // summary lines on stdout: "Warnings: Compilation generated N warning(s)" / "Failed: Compilation failed with N error(s)"
        let mut sum_w: i64 = -1;
        let mut sum_e: i64 = -1;
        let mut other = 0;
        for line in plain_out.lines() {
            let num = |l: &str| l.split_whitespace().filter_map(|w| w.parse::<i64>().ok()).next().unwrap_or(-1);
            if line.starts_with("Warnings:") {
                sum_w = num(line);
            } else if line.starts_with("Failed:") {
                sum_e = num(line);
            } else if !line.trim().is_empty() {
                other += 1;
            }
        }
        let exit = res.status.and_then(|s| s.code()).map(|c| c as i64).unwrap_or(-1);
        emit_event("emitbin", &json!({
            "ev": "emit", "driver": driver, "min_errors": case["min_errors"], "prog": prog, "format": format, "disable_color": disable, "allow": allow, "gen": gen,
            "lib": lib, "records": records, "json_ok": json_ok, "escapes": esc_err + esc_out,
            "sum_w": sum_w, "sum_e": sum_e, "stdout_other": other, "stderr_other": stderr_other, "exit": exit, "timed_out": res.timed_out,
        }));
        let _ = std::fs::remove_dir_all(&dir);
        Outcome { fail: None, nontrivial: prog != 1, key, rendered }
    }
}
