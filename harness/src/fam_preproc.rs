// C06: conditional compilation. Case (printed by MC_Preproc):
//   {"lines": [{"k": "src"|"srcw"|"blank"|"comment"|"define"|"undef"|"if"|"elif"|"else"|"endif"|"bad", "s", "e": [tok..], "v"}],
//    "cli": [sym..], "err": bool, "sel": [line numbers], "warn": [line numbers], "second": [sym..]}
// Rendering: row 1 = module line, row 2 = the deprecated helper, line n of the case = row n + 2.  A second file tests
// that nothing leaks between files.  Five layout styles (plain; indented '#', "# if", trailing comments; tabs + CRLF; ...),
// four spellings of the symbols (underscores, digits, mixed case) and files with / without a final line break.

use crate::util::{hash_str, mismatch, strs};
use crate::{Family, Outcome};
use serde_json::{json, Value};
use slicec::diagnostics::DiagnosticLevel;
use slicec::slice_options::SliceOptions;

#[derive(Default)]
pub struct Preproc;

fn join_tokens(toks: &[String], tight: bool) -> String {
    let mut out = String::new();
    for (i, t) in toks.iter().enumerate() {
        if i > 0 {
            let prev = &toks[i - 1];
            let word = |x: &str| x.chars().all(|c| c.is_ascii_alphanumeric() || c == '_');
            let both_words = word(prev) && word(t);
            if both_words || !tight {
                out.push(' ');
            }
        }
        out.push_str(t);
    }
    out
}

pub const BAD: &[&str] = &[
    "#bogus", "#", "#if", "#else X", "#endif X", "#define", "#define A B", "#if A & B", "#if A | B", "#if A + B", "#undef", "#if A /",
    "#elif", "#if ()", "#if A &&",
];

pub struct Style {
    /// indentation of source lines
    indent: &'static str,
    /// indentation of directive lines (deliberately different from the source lines in some styles: a block that
    /// follows a directive must start at its own column, not at the directive's)
    dir_indent: &'static str,
    hash_gap: &'static str,
    trailing: &'static str,
    eol: &'static str,
    tight: bool,
    blank: &'static str,
}

const STYLES: [Style; 5] = [
    Style { indent: "", dir_indent: "", hash_gap: "", trailing: "", eol: "\n", tight: false, blank: "" },
    Style { indent: "  ", dir_indent: "  ", hash_gap: " ", trailing: " // note", eol: "\n", tight: true, blank: "   " },
    Style { indent: "\t", dir_indent: "\t", hash_gap: "", trailing: "", eol: "\r\n", tight: false, blank: "\t" },
    Style { indent: "    ", dir_indent: "", hash_gap: "", trailing: "", eol: "\n", tight: false, blank: " " },
    Style { indent: "", dir_indent: "      ", hash_gap: "", trailing: " //", eol: "\n", tight: true, blank: "" },
];

/// How the model's symbols A, B, C are spelled: any identifier [a-zA-Z][_a-zA-Z0-9]* is a symbol.
pub const SPELLINGS: [[&str; 3]; 4] = [["A", "B", "C"], ["A_1", "b2_", "C_c_C"], ["HAS_FEATURE", "x", "V2"], ["a", "aA", "a_"]];
pub fn spell(sym: &str, which: usize) -> String {
    match sym {
        "A" => SPELLINGS[which % SPELLINGS.len()][0].to_owned(),
        "B" => SPELLINGS[which % SPELLINGS.len()][1].to_owned(),
        "C" => SPELLINGS[which % SPELLINGS.len()][2].to_owned(),
        other => other.to_owned(),
    }
}

pub fn render(lines: &[Value], style: &Style) -> String {
    render_with(lines, style, 0, true)
}

/// `spelling`: which spelling of the symbols; `final_eol`: whether the last line is terminated
pub fn render_with(lines: &[Value], style: &Style, spelling: usize, final_eol: bool) -> String {
    let mut out = String::new();
    out.push_str("module M");
    out.push_str(style.eol);
    out.push_str("[deprecated] struct Old {}");
    out.push_str(style.eol);
    for (i, l) in lines.iter().enumerate() {
        let n = i + 1;
        let k = l["k"].as_str().unwrap_or("");
        let dir = |word: &str, rest: &str| -> String {
            let mut s = format!("{}#{}{}", style.dir_indent, style.hash_gap, word);
            if !rest.is_empty() {
                s.push(' ');
                s.push_str(rest);
            }
            s.push_str(style.trailing);
            s
        };
        let text = match k {
            "src" => format!("{}struct P{} {{}}", style.indent, n),
            "srcw" => format!("{}struct P{} {{ x: Old }}", style.indent, n),
            "blank" => style.blank.to_string(),
            "comment" => format!("{}// just a comment", style.indent),
            "define" => dir("define", &spell(l["s"].as_str().unwrap_or("A"), spelling)),
            "undef" => dir("undef", &spell(l["s"].as_str().unwrap_or("A"), spelling)),
            "if" => dir("if", &join_tokens(&strs(&l["e"]).iter().map(|t| spell(t, spelling)).collect::<Vec<_>>(), style.tight)),
            "elif" => dir("elif", &join_tokens(&strs(&l["e"]).iter().map(|t| spell(t, spelling)).collect::<Vec<_>>(), style.tight)),
            "else" => dir("else", ""),
            "endif" => dir("endif", ""),
            "bad" => {
                let v = l["v"].as_u64().unwrap_or(1) as usize;
                format!("{}{}{}", style.dir_indent, BAD[(v - 1) % BAD.len()], style.trailing)
            }
            _ => String::new(),
        };
        out.push_str(&text);
        if final_eol || i + 1 < lines.len() {
            out.push_str(style.eol);
        }
    }
    out
}

fn second_file(eol: &str, spelling: usize, final_eol: bool) -> String {
    let mut s = format!("module N{eol}");
    for sym in ["A", "B", "C"] {
        s.push_str(&format!("#if {}{eol}struct Q{sym} {{}}{eol}#endif{eol}", spell(sym, spelling)));
    }
    if !final_eol {
        s.truncate(s.len() - eol.len());
    }
    s
}

/// MC_DocSplit: a doc comment whose lines are separated by directives / blocks that are not selected
fn run_doc_split(case: &Value) -> Outcome {
    let gap_text = |g: &str| -> &'static str {
        match g {
            "define" => "#define Q\n",
            "undef" => "#undef Q\n",
            "unselected" => "#if NOPE\nstruct Hidden {}\n#endif\n",
            "emptyselected" => "#if !NOPE\n#endif\n",
            "elseunselected" => "#if !NOPE\n#else\nstruct Hidden {}\n#endif\n",
            _ => "",
        }
    };
    let gaps = strs(&case["gaps"]);
    let mut text = String::from("module M\n");
    for i in 0..=gaps.len() {
        text.push_str(&format!("/// See {{@link Nope{}}}.\n", i + 1));
        if i < gaps.len() {
            text.push_str(gap_text(&gaps[i]));
        }
    }
    text.push_str(gap_text(case["last"].as_str().unwrap_or("none")));
    text.push_str("struct Documented {}\n");
    let rendered = json!({"file": text});
    let key = hash_str(&text);
    let state = slicec::compile_from_strings(&[&text], None);
    let struct_row = state.ast.find_element::<slicec::grammar::Struct>("M::Documented").ok().map(|s| {
        use slicec::grammar::Symbol;
        s.span().start.row
    });
    let diags = state.into_diagnostics(&Default::default());
    let errors: Vec<String> = diags.iter().filter(|d| d.level() == DiagnosticLevel::Error).map(|d| d.code().to_owned()).collect();
    let mut links: Vec<(usize, usize)> = diags.iter().filter(|d| d.code() == "BrokenDocLink").filter_map(|d| d.span().map(|s| (s.start.row, s.start.col))).collect();
    links.sort();
    let want: Vec<(usize, usize)> = case["rows"].as_array().cloned().unwrap_or_default().iter().map(|r| (r.as_u64().unwrap_or(0) as usize, 16)).collect();
    let fail = if !errors.is_empty() {
        Some(mismatch("a doc comment interrupted by directives is a doc comment", json!([]), json!(errors)))
    } else if links != want {
        Some(mismatch("positions of the broken-link warnings of the comment lines (each at the identifier of its link, rows and columns of the text as written)", json!(want), json!(links)))
    } else if struct_row.map(|r| r as u64) != case["structRow"].as_u64() {
        Some(mismatch("row of the documented struct", case["structRow"].clone(), json!(struct_row)))
    } else {
        None
    };
    Outcome { fail, nontrivial: gaps.iter().any(|g| g != "none"), key, rendered }
}

impl Family for Preproc {
    fn run(&mut self, case: &Value) -> Outcome {
        if case["docsplit"] == true {
            return run_doc_split(case);
        }
        let lines = case["lines"].as_array().cloned().unwrap_or_default();
        let h = hash_str(&case["lines"].to_string());
        let which = (h % STYLES.len() as u64) as usize;
        let style = &STYLES[which];
        // the spelling of the symbols and whether the files end in a line break are layout too
        let spelling = ((h / 7) % SPELLINGS.len() as u64) as usize;
        let final_eol = (h / 31) % 3 != 0;
        let cli: Vec<String> = strs(&case["cli"]).iter().map(|s| spell(s, spelling)).collect();
        let text = render_with(&lines, style, spelling, final_eol);
        let second = second_file(style.eol, spelling, final_eol);
        let key = hash_str(&format!("{text}|{cli:?}"));
        let mut tags: Vec<String> = lines.iter().filter_map(|l| l["k"].as_str().map(|k| k.to_owned())).collect();
        tags.sort();
        tags.dedup();
        tags.push(if case["err"] == true { "ill-formed".into() } else { "well-formed".into() });
        let rendered = json!({"file": text, "defines": cli, "style": which, "spelling": spelling, "final_eol": final_eol, "_tags": tags});
        let nontrivial = lines.iter().any(|l| matches!(l["k"].as_str(), Some("if") | Some("elif") | Some("else") | Some("bad") | Some("endif")));

        let options = SliceOptions { defined_symbols: cli.clone(), ..Default::default() };
        let state = slicec::compile_from_strings(&[&text, &second], Some(&options));

        // ---- observe
        let mut defs: Vec<(String, usize, usize)> = Vec::new();
        for d in &state.files[0].contents {
            let e = d.borrow();
            defs.push((e.identifier().to_owned(), e.span().start.row, e.span().start.col));
        }
        let mut second_defs: Vec<String> = state.files[1].contents.iter().map(|d| d.borrow().identifier().to_owned()).collect();
        second_defs.sort();
        let diags = state.into_diagnostics(&options);
        let errors: Vec<&slicec::diagnostics::Diagnostic> = diags.iter().filter(|d| d.level() == DiagnosticLevel::Error).collect();
        let e002_in_first = errors.iter().any(|d| d.code() == "E002" && d.span().map(|s| s.file == "string-0").unwrap_or(true));
        let mut warns: Vec<(usize, usize)> = diags
            .iter()
            .filter(|d| d.level() == DiagnosticLevel::Warning && d.code() == "Deprecated")
            .filter_map(|d| d.span().map(|s| (s.start.row, s.start.col)))
            .collect();
        warns.sort();

        // ---- compare with the specification's expectation
        let fail = (|| {
            // the second file sees exactly the command-line symbols, whatever the first file defined
            let mut want_second: Vec<String> = strs(&case["second"]).iter().map(|s| format!("Q{s}")).collect();
            want_second.sort();
            if second_defs != want_second {
                return Some(mismatch("definitions of the second file (symbols leaked between files?)", json!(want_second), json!(second_defs)));
            }
            if case["err"] == true {
                if !e002_in_first {
                    let codes: Vec<&str> = diags.iter().map(|d| d.code()).collect();
                    return Some(mismatch("malformed / unbalanced directives must be a syntax error", json!("E002"), json!(codes)));
                }
                return None;
            }
            if !errors.is_empty() {
                let codes: Vec<String> = errors.iter().map(|d| format!("{} {:?}", d.code(), d.span().map(|s| (s.start.row, s.start.col)))).collect();
                return Some(mismatch("well-formed file reported errors", json!([]), json!(codes)));
            }
            let indent = style.indent.chars().count();
            let mut want: Vec<(String, usize, usize)> = vec![("Old".to_owned(), 2, 14)];
            for n in case["sel"].as_array().cloned().unwrap_or_default() {
                let n = n.as_u64().unwrap_or(0) as usize;
                want.push((format!("P{n}"), n + 2, indent + 1));
            }
            want.sort_by_key(|x| x.1);
            if defs != want {
                return Some(mismatch("surviving definitions with their (row, col)", json!(want), json!(defs)));
            }
            let mut want_w: Vec<(usize, usize)> = Vec::new();
            for n in case["warn"].as_array().cloned().unwrap_or_default() {
                let n = n.as_u64().unwrap_or(0) as usize;
                want_w.push((n + 2, indent + format!("struct P{n} {{ x: ").chars().count() + 1));
            }
            want_w.sort();
            if warns != want_w {
                return Some(mismatch("positions of the Deprecated warnings", json!(want_w), json!(warns)));
            }
            None
        })();
        Outcome { fail, nontrivial, key, rendered }
    }
}
