// C13: lint suppression. case: {"site", "kind", "place", "args": ["SAME"|"All"|"OTHER"..], "silenced": bool}
// Every case is compiled twice - without and with the suppression - through compile_from_options on real files with
// options obtained from the real command-line parser.  Expected: the level of the target lint (Allowed iff silenced),
// and nothing else changes (other diagnostics, the AST apart from the allow attribute itself, errors).

use crate::ast_project;
use crate::util::{hash_str, mismatch, strs};
use crate::{Family, Outcome};
use clap::Parser;
use serde_json::{json, Value};
use slicec::diagnostics::DiagnosticLevel;
use slicec::slice_options::SliceOptions;

#[derive(Default)]
pub struct Lints {
    counter: u64,
}

fn other_of(kind: &str) -> &'static str {
    if kind == "BrokenDocLink" {
        "IncorrectDocComment"
    } else {
        "BrokenDocLink"
    }
}

fn names(kind: &str, args: &[String], lower: bool) -> Vec<String> {
    args.iter()
        .map(|a| {
            let n = match a.as_str() {
                "SAME" => kind.to_owned(),
                "OTHER" => other_of(kind).to_owned(),
                x => x.to_owned(),
            };
            if lower { n.to_lowercase() } else { n }
        })
        .collect()
}

/// (text of a.slice) with attribute slots filled: file, own, parent, grandparent, sibling
fn template(site: &str, slot: &dyn Fn(&str) -> String) -> String {
    let (fa, own, par, gp, sib) = (slot("file_own"), slot("own"), slot("parent"), slot("grandparent"), slot("sibling"));
    let dep = "[deprecated] struct Old {}\n[deprecated(\"use New\")] interface OldI {}\n";
    match site {
        "field_type" => format!("{fa}module M\n{dep}{par}struct S {{\n  {own}x: Old\n  {sib}y: int32\n}}\n"),
        "nested_type" => format!("{fa}module M\n{dep}{par}struct S {{\n  {own}x: Dictionary<string, Sequence<Old?>>\n  {sib}y: int32\n}}\n"),
        "param_type" => format!("{fa}module M\n{dep}{gp}interface I {{\n  {par}op({own}p: Old, {sib}q: int32)\n}}\n"),
        "ret_type" => format!("{fa}module M\n{dep}{gp}interface I {{\n  {par}op() -> ({own}r: Old, {sib}s: int32)\n}}\n"),
        "alias_target" => format!("{fa}module M\n{dep}{own}typealias L = Sequence<Old>\n{sib}struct Z {{}}\n"),
        "base" => format!("{fa}module M\n{dep}{own}interface D : OldI {{}}\n{sib}struct Z {{}}\n"),
        "link_def" => format!("{fa}module M\n/// See {{@link Nope}}.\n{own}struct S {{ x: int32 }}\n{sib}struct Z {{}}\n"),
        "link_member" => format!("{fa}module M\n{par}struct S {{\n  /// See {{@link Nope}}.\n  {own}x: int32\n  {sib}y: int32\n}}\n"),
        "link_op" => format!("{fa}module M\n{par}interface I {{\n  /// @see Nope\n  {own}op()\n  {sib}op2()\n}}\n"),
        "link_enumerator" => format!("{fa}module M\n{par}enum E {{\n  /// {{@link Nope}}\n  {own}A\n  {sib}B\n}}\n"),
        "incorrect_def" => format!("{fa}module M\n/// @param p: not a parameter\n{own}struct S {{ x: int32 }}\n{sib}struct Z {{}}\n"),
        "incorrect_op" => format!("{fa}module M\n{par}interface I {{\n  /// @param nope: no such parameter\n  {own}op(p: int32)\n  {sib}op2()\n}}\n"),
        "malformed_def" => format!("{fa}module M\n/// @bogus tag\n{own}struct S {{ x: int32 }}\n{sib}struct Z {{}}\n"),
        "malformed_member" => format!("{fa}module M\n{par}struct S {{\n  /// {{@link}} nothing\n  {own}x: int32\n  {sib}y: int32\n}}\n"),
        _ => format!("{fa}module M\nstruct S {{ x: int32 }}\n"),
    }
}

fn strip_allow(v: &Value) -> Value {
    match v {
        Value::Array(a) => Value::Array(a.iter().filter(|x| !(x.is_object() && x["d"] == "allow")).map(strip_allow).collect()),
        Value::Object(o) => Value::Object(o.iter().map(|(k, x)| (k.clone(), strip_allow(x))).collect()),
        other => other.clone(),
    }
}

struct RunOut {
    diags: Vec<(String, String, String, String)>, // code, message, span, level
    ast: Value,
    errors: usize,
}

fn compile(dir: &std::path::Path, argv: &[String]) -> Result<RunOut, String> {
    let options = SliceOptions::try_parse_from(argv).map_err(|e| format!("command line rejected: {}", e.kind()))?;
    let prev = std::env::current_dir().ok();
    let _ = std::env::set_current_dir(dir);
    let state = slicec::compile_from_options(&options);
    let ast = if state.diagnostics.has_errors() { Value::Null } else { strip_allow(&Value::Array(state.files.iter().map(ast_project::file).collect())) };
    let list = state.into_diagnostics(&options);
    if let Some(p) = prev {
        let _ = std::env::set_current_dir(p);
    }
    let diags = list
        .iter()
        .map(|d| {
            (
                d.code().to_owned(),
                d.message(),
                format!("{:?}", d.span().map(|s| (s.file.clone(), s.start.row, s.end.row))),
                format!("{:?}", d.level()),
            )
        })
        .collect();
    let errors = list.iter().filter(|d| d.level() == DiagnosticLevel::Error).count();
    Ok(RunOut { diags, ast, errors })
}

impl Family for Lints {
    fn run(&mut self, case: &Value) -> Outcome {
        self.counter += 1;
        let site = case["site"].as_str().unwrap_or("");
        let kind = case["kind"].as_str().unwrap_or("");
        let place = case["place"].as_str().unwrap_or("none");
        let args = strs(&case["args"]);
        let attr = format!("[allow({})] ", names(kind, &args, false).join(", "));
        // on the same line as what follows, so that no row number changes
        let fattr = format!("[[allow({})]] ", names(kind, &args, false).join(", "));
        // the unrelated second suppression is present in both runs, in front of the suppression under test
        let extra = case["extra"].as_str().unwrap_or("none");
        let eattr = format!("[allow({})] ", other_of(kind));
        let efattr = format!("[[allow({})]] ", other_of(kind));
        let extra_at = |slot: &str| -> String {
            match (extra, slot) {
                ("own_other", "own") | ("parent_other", "parent") => eattr.clone(),
                ("file_other_attr", "file_own") => efattr.clone(),
                _ => String::new(),
            }
        };
        let none = |slot: &str| extra_at(slot);
        let with = |slot: &str| -> String {
            let mut a = extra_at(slot);
            if slot == place {
                a.push_str(if slot == "file_own" { &fattr } else { &attr });
            }
            a
        };
        let base_text = template(site, &none);
        let supp_text = template(site, &with);
        let other_base = "module N\nstruct Other { o: int32 }\n".to_owned();
        let other_supp = if place == "file_other" { format!("{fattr}{other_base}") } else { other_base.clone() };
        let work = std::env::var("VERIF_WORK").unwrap_or_else(|_| "/verif/work".into());
        let dir = std::path::PathBuf::from(format!("{work}/lints-{}/{}", std::process::id(), self.counter));
        let _ = std::fs::remove_dir_all(&dir);
        std::fs::create_dir_all(dir.join("b")).unwrap();
        std::fs::create_dir_all(dir.join("s")).unwrap();
        std::fs::write(dir.join("b/a.slice"), &base_text).unwrap();
        std::fs::write(dir.join("b/other.slice"), &other_base).unwrap();
        std::fs::write(dir.join("s/a.slice"), &supp_text).unwrap();
        std::fs::write(dir.join("s/other.slice"), &other_supp).unwrap();
        let mut argv: Vec<String> = vec!["slicec".into(), "a.slice".into(), "other.slice".into()];
        if site == "dupfile" {
            argv.push("./a.slice".into());
        }
        let mut argv_supp = argv.clone();
        if place == "cli" || place == "cli_lower" {
            for n in names(kind, &args, place == "cli_lower") {
                argv_supp.push("-A".into());
                argv_supp.push(n);
            }
        }
        let rendered = json!({"a.slice": supp_text, "other.slice": other_supp, "argv": argv_supp});
        let key = hash_str(&rendered.to_string());
        let fail = (|| {
            let base = match compile(&dir.join("b"), &argv) {
                Ok(r) => r,
                Err(e) => return Some(json!({"kind": "harness", "what": e})),
            };
            let supp = match compile(&dir.join("s"), &argv_supp) {
                Ok(r) => r,
                Err(e) => return Some(mismatch("a lint name in a spelling the command line should accept", json!("accepted"), json!(e))),
            };
            // the target lint exists in the baseline, as a warning
            let targets: Vec<usize> = base.diags.iter().enumerate().filter(|(_, d)| d.0 == kind).map(|(i, _)| i).collect();
            if targets.is_empty() || targets.iter().any(|i| base.diags[*i].3 != "Warning") {
                return Some(json!({"kind": "harness", "what": "template does not produce the lint as a warning", "diags": format!("{:?}", base.diags)}));
            }
            if base.errors != 0 || supp.errors != base.errors {
                return Some(mismatch("error diagnostics (suppression can neither silence nor cause an error)", json!(base.errors), json!(format!("{:?}", supp.diags))));
            }
            // same diagnostics (code, message, location), in the same order
            let strip = |v: &Vec<(String, String, String, String)>| -> Vec<(String, String, String)> { v.iter().map(|d| (d.0.clone(), d.1.clone(), d.2.clone())).collect() };
            if strip(&base.diags) != strip(&supp.diags) {
                return Some(mismatch("the suppression changed other diagnostics", json!(format!("{:?}", base.diags)), json!(format!("{:?}", supp.diags))));
            }
            let want_level = if case["silenced"] == true { "Allowed" } else { "Warning" };
            for (i, d) in supp.diags.iter().enumerate() {
                let want = if d.0 == kind { want_level } else { base.diags[i].3.as_str() };
                // a suppression that names another lint (OTHER / All) may silence lints of that other kind in scope; the
                // templates produce only the target kind, so every other level must be unchanged
                if d.3 != want {
                    return Some(mismatch(&format!("level of the {} lint", d.0), json!(want), json!(d.3)));
                }
            }
            if base.ast != supp.ast {
                return Some(json!({"kind": "mismatch", "what": "the suppression changed the AST beyond the allow attribute itself"}));
            }
            None
        })();
        let _ = std::fs::remove_dir_all(&dir);
        Outcome { fail, nontrivial: place != "none", key, rendered }
    }
}
