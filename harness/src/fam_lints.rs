// C13: lint suppression. case: {"site", "kind", "place", "args": ["SAME"|"All"|"OTHER"..], "silenced": bool}
// Every case is compiled twice - without and with the suppression - through compile_from_options on real files with
// options obtained from the real command-line parser.  Expected: the level of the target lint (Allowed iff silenced),
// and nothing else changes (other diagnostics, the AST apart from the allow attribute itself, errors).

use crate::ast_project;
use crate::util::{hash_str, mismatch, strs};
use crate::{Family, Outcome};
use clap::Parser;
use serde_json::{json, Value};
use slicec::diagnostics::DiagnosticLevel;
use slicec::slice_options::SliceOptions;

#[derive(Default)]
pub struct Lints {
    counter: u64,
}

fn other_of(kind: &str) -> &'static str {
    if kind == "BrokenDocLink" {
        "IncorrectDocComment"
    } else {
        "BrokenDocLink"
    }
}

fn names(kind: &str, args: &[String], lower: bool) -> Vec<String> {
    args.iter()
        .map(|a| {
            let n = match a.as_str() {
                "SAME" => kind.to_owned(),
                "OTHER" => other_of(kind).to_owned(),
                x => x.to_owned(),
            };
            if lower { n.to_lowercase() } else { n }
        })
        .collect()
}

/// (text of a.slice) with attribute slots filled: file, own, parent, grandparent, sibling
fn template(site: &str, slot: &dyn Fn(&str) -> String) -> String {
    let (fa, own, par, gp, sib) = (slot("file_own"), slot("own"), slot("parent"), slot("grandparent"), slot("sibling"));
    let dep = "[deprecated] struct Old {}\n[deprecated(\"use New\")] interface OldI {}\n";
    match site {
        "field_type" => format!("{fa}module M\n{dep}{par}struct S {{\n  {own}x: Old\n  {sib}y: int32\n}}\n"),
        "nested_type" => format!("{fa}module M\n{dep}{par}struct S {{\n  {own}x: Dictionary<string, Sequence<Old?>>\n  {sib}y: int32\n}}\n"),
        "param_type" => format!("{fa}module M\n{dep}{gp}interface I {{\n  {par}op({own}p: Old, {sib}q: int32)\n}}\n"),
        "ret_type" => format!("{fa}module M\n{dep}{gp}interface I {{\n  {par}op() -> ({own}r: Old, {sib}s: int32)\n}}\n"),
        "alias_target" => format!("{fa}module M\n{dep}{own}typealias L = Sequence<Old>\n{sib}struct Z {{}}\n"),
        "base" => format!("{fa}module M\n{dep}{own}interface D : OldI {{}}\n{sib}struct Z {{}}\n"),
        "link_def" => format!("{fa}module M\n/// See {{@link Nope}}.\n{own}struct S {{ x: int32 }}\n{sib}struct Z {{}}\n"),
        "link_member" => format!("{fa}module M\n{par}struct S {{\n  /// See {{@link Nope}}.\n  {own}x: int32\n  {sib}y: int32\n}}\n"),
        "link_op" => format!("{fa}module M\n{par}interface I {{\n  /// @see Nope\n  {own}op()\n  {sib}op2()\n}}\n"),
        "link_enumerator" => format!("{fa}module M\n{par}enum E {{\n  /// {{@link Nope}}\n  {own}A\n  {sib}B\n}}\n"),
        "incorrect_def" => format!("{fa}module M\n/// @param p: not a parameter\n{own}struct S {{ x: int32 }}\n{sib}struct Z {{}}\n"),
        "incorrect_op" => format!("{fa}module M\n{par}interface I {{\n  /// @param nope: no such parameter\n  {own}op(p: int32)\n  {sib}op2()\n}}\n"),
        // the other places where a tag does not fit an operation: @returns where nothing is returned, a named @returns for a
        // single return value, a @returns naming no member of the returned tuple
        "incorrect_ret_void" => format!("{fa}module M\n{par}interface I {{\n  /// @returns: nothing is returned\n  {own}op(p: int32)\n  {sib}op2()\n}}\n"),
        "incorrect_ret_single" => format!("{fa}module M\n{par}interface I {{\n  /// @returns named: a single value has no name\n  {own}op(p: int32) -> bool\n  {sib}op2()\n}}\n"),
        "incorrect_ret_tuple" => format!("{fa}module M\n{par}interface I {{\n  /// @returns nope: no such member\n  {own}op() -> (a: int32, b: bool)\n  {sib}op2()\n}}\n"),
        "malformed_def" => format!("{fa}module M\n/// @bogus tag\n{own}struct S {{ x: int32 }}\n{sib}struct Z {{}}\n"),
        "malformed_member" => format!("{fa}module M\n{par}struct S {{\n  /// {{@link}} nothing\n  {own}x: int32\n  {sib}y: int32\n}}\n"),
        _ => format!("{fa}module M\nstruct S {{ x: int32 }}\n"),
    }
}

fn strip_allow(v: &Value) -> Value {
    match v {
        Value::Array(a) => Value::Array(a.iter().filter(|x| !(x.is_object() && x["d"] == "allow")).map(strip_allow).collect()),
        Value::Object(o) => Value::Object(o.iter().map(|(k, x)| (k.clone(), strip_allow(x))).collect()),
        other => other.clone(),
    }
}

struct RunOut {
    at: Vec<(String, usize)>,                     // file and start row of each diagnostic ("" / 0 without a span)
    diags: Vec<(String, String, String, String)>, // code, message, span, level
    ast: Value,
    errors: usize,
}

fn compile(dir: &std::path::Path, argv: &[String]) -> Result<RunOut, String> {
    let options = SliceOptions::try_parse_from(argv).map_err(|e| format!("command line rejected: {}", e.kind()))?;
    let prev = std::env::current_dir().ok();
    let _ = std::env::set_current_dir(dir);
    let state = slicec::compile_from_options(&options);
    let ast = if state.diagnostics.has_errors() { Value::Null } else { strip_allow(&Value::Array(state.files.iter().map(ast_project::file).collect())) };
    let list = state.into_diagnostics(&options);
    if let Some(p) = prev {
        let _ = std::env::set_current_dir(p);
    }
    let diags = list
        .iter()
        .map(|d| {
            (
                d.code().to_owned(),
                d.message(),
                format!("{:?}", d.span().map(|s| (s.file.clone(), s.start.row, s.end.row))),
                format!("{:?}", d.level()),
            )
        })
        .collect();
    let errors = list.iter().filter(|d| d.level() == DiagnosticLevel::Error).count();
    let at = list.iter().map(|d| d.span().map(|s| (s.file.clone(), s.start.row)).unwrap_or_default()).collect();
    Ok(RunOut { at, diags, ast, errors })
}

/// MC_ManyLints: ten lint sites (row, code) on six elements; attribute slots on the same lines as what they precede.
/// The same text is used for both files (module M / module N), so every site has a twin at the same row and column.
const MANY_SITES: &[(usize, &str)] = &[
    (3, "BrokenDocLink"),
    (4, "IncorrectDocComment"),
    (6, "BrokenDocLink"),
    (7, "Deprecated"),
    (12, "IncorrectDocComment"),
    (13, "BrokenDocLink"),
    (14, "Deprecated"),
    (8, "IncorrectDocComment"),
    (17, "IncorrectDocComment"),
    (18, "Deprecated"),
];
const MANY_FILES: [&str; 2] = ["a.slice", "twin.slice"];

/// file 0: module M, slots as named; file 1: module N, slots named t<name>
fn many_template(file: usize, slot: &dyn Fn(&str) -> String, present: &[bool]) -> String {
    let has = |site: usize| present.get(site - 1).copied().unwrap_or(false);
    // an absent lint site keeps its row: the comment line becomes an ordinary comment, the deprecated type an int32
    let doc = |site: usize, text: &str| if has(site) { format!("/// {text}") } else { "// nothing".to_owned() };
    let ty = |site: usize| if has(site) { "Old" } else { "int32" };
    let sl = |name: &str| -> String {
        if file == 0 {
            slot(name)
        } else {
            slot(&format!("t{name}"))
        }
    };
    let mut t = String::new();
    t.push_str(&format!("{}module {}\n", sl("file"), ["M", "N"][file]));
    t.push_str("[deprecated] struct Old {}\n");
    t.push_str(&format!("{}\n{}\n", doc(1, "See {@link Nope1}."), doc(2, "@param zz: not a parameter")));
    t.push_str(&format!("{}struct S {{\n", sl("S")));
    t.push_str(&format!("  {}\n  {}x: {}\n", doc(3, "{@link Nope2}"), sl("X"), ty(4)));
    t.push_str(&format!("  {}\n  {}y: int32\n}}\n", doc(8, "@param zz: fields have no parameters"), sl("Y")));
    t.push_str(&format!("{}interface I {{\n", sl("I")));
    t.push_str(&format!("  {}\n  {}\n", doc(5, "@param nope: no such parameter"), doc(6, "@see Nope3")));
    t.push_str(&format!("  {}op({}p: {})\n}}\n", sl("OP"), sl("P"), ty(7)));
    t.push_str(&format!("{}enum E {{\n", sl("E")));
    t.push_str(&format!("  {}\n  {}A({}f: {})\n  B\n}}\n", doc(9, "@returns: enumerators return nothing"), sl("EA"), sl("EF"), ty(10)));
    t
}

/// C14 on the many-lints program: what the emitter writes, in both formats, is exactly the lints the MODEL says are not
/// suppressed - each once, in the order they were recorded - and no trace of the suppressed ones.
fn emitted_many(dir: &std::path::Path, argv: &[String], sites: &[(usize, usize, usize, &str)], case: &Value) -> Option<Value> {
    use slicec::diagnostic_emitter::DiagnosticEmitter;
    let mut shown: Vec<Vec<(String, String, usize)>> = Vec::new();
    let mut order: Vec<(String, String, usize)> = Vec::new();
    let compile_in = |options: &SliceOptions| {
        let prev = std::env::current_dir().ok();
        let _ = std::env::set_current_dir(dir);
        let state = slicec::compile_from_options(options);
        if let Some(p) = prev {
            let _ = std::env::set_current_dir(p);
        }
        state
    };
    for format in ["json", "human"] {
        let mut a = argv.to_vec();
        a.extend(["--diagnostic-format".to_owned(), format.to_owned(), "--disable-color".to_owned()]);
        let options = match SliceOptions::try_parse_from(&a) {
            Ok(o) => o,
            Err(e) => return Some(json!({"kind": "harness", "what": format!("command line rejected: {}", e.kind())})),
        };
        let state = compile_in(&options);
        let files = state.files;
        let ast = state.ast;
        // the recorded order, before levels are assigned
        order = state.diagnostics.into_inner().iter().map(|d| (d.code().to_owned(), d.span().map(|s| s.file.clone()).unwrap_or_default(), d.span().map(|s| s.start.row).unwrap_or(0))).collect();
        let diags = compile_in(&options).diagnostics.into_updated(&ast, &files, &options);
        let mut out: Vec<u8> = Vec::new();
        {
            let mut emitter = DiagnosticEmitter::new(&mut out, &options, &files);
            let _ = emitter.emit_diagnostics(diags);
        }
        let text = String::from_utf8_lossy(&out).to_string();
        let mut recs: Vec<(String, String, usize)> = Vec::new();
        if format == "json" {
            for line in text.lines() {
                let Ok(v) = serde_json::from_str::<Value>(line) else {
                    return Some(json!({"kind": "mismatch", "what": "a line of the JSON diagnostic stream is not a JSON object", "line": line}));
                };
                recs.push((v["error_code"].as_str().unwrap_or("").to_owned(), v["span"]["file"].as_str().unwrap_or("").to_owned(), v["span"]["start"]["row"].as_u64().unwrap_or(0) as usize));
            }
        } else {
            let lines: Vec<&str> = text.lines().collect();
            for (i, l) in lines.iter().enumerate() {
                if let Some(rest) = l.strip_prefix("warning [").or_else(|| l.strip_prefix("error [")) {
                    let code = rest.split(']').next().unwrap_or("").to_owned();
                    // the location line follows the header: ' --> file:row:col'
                    let loc: Vec<&str> = lines.get(i + 1).and_then(|x| x.strip_prefix(" --> ")).map(|x| x.split(':').collect()).unwrap_or_default();
                    recs.push((code, loc.first().copied().unwrap_or("").to_owned(), loc.get(1).and_then(|x| x.parse().ok()).unwrap_or(0)));
                }
            }
        }
        shown.push(recs);
    }
    let silenced = |code: &str, file: &str, row: usize| -> bool { sites.iter().any(|(f, i, r, c)| *c == code && *r == row && MANY_FILES[*f] == file && case["silenced"][*f][*i] == true) };
    let want: Vec<(String, String, usize)> = order.iter().filter(|(c, f, r)| !silenced(c, f, *r)).cloned().collect();
    for (k, format) in ["json", "human"].iter().enumerate() {
        if shown[k] != want {
            return Some(mismatch(
                &format!("diagnostics written in {format} format (every lint that is not suppressed once, in recorded order; no trace of the suppressed ones)"),
                json!(want),
                json!(shown[k]),
            ));
        }
    }
    None
}

/// a request with every `allow` attribute cut out: (bytes, offsets in the result where one was removed).  An attribute
/// is the struct {directive: string, args: Sequence<string>} closed by the tag end marker; the baseline program holds
/// no allow attribute (and no other string "allow"), so every occurrence of the directive is a suppression.
fn strip_allow_attributes(req: &[u8]) -> (Vec<u8>, Vec<usize>) {
    let attr_len = |at: usize| -> Option<usize> {
        if !req[at..].starts_with(b"\x14allow") {
            return None;
        }
        let mut j = at + 6;
        let n = *req.get(j)?;
        if n % 4 != 0 {
            return None;
        }
        j += 1;
        for _ in 0..(n >> 2) {
            let l = *req.get(j)?;
            if l % 4 != 0 {
                return None;
            }
            j += 1 + (l >> 2) as usize;
        }
        (*req.get(j)? == 0xFC).then_some(j + 1 - at)
    };
    let (mut out, mut cuts, mut i) = (Vec::with_capacity(req.len()), Vec::new(), 0);
    while i < req.len() {
        if let Some(l) = attr_len(i) {
            cuts.push(out.len());
            i += l;
        } else {
            out.push(req[i]);
            i += 1;
        }
    }
    (out, cuts)
}

/// C13 at the process boundary: the real binary run on the many-lints program without and with the suppressions, with a
/// capturing generator.  The exit status is the same (0: lints are warnings), the generator runs both times and the
/// request differs by the allow attributes themselves and nothing else; with one more file that holds an error both
/// runs exit non-zero with the same error records and the generator is not started, whatever is allowed.
fn request_many(dir: &std::path::Path, argv: &[String], argv_supp: &[String], attrs: usize) -> Option<Value> {
    use crate::fam_driver::{fakegen_bin, run_limited, slicec_bin};
    let gen = dir.join("gen");
    if std::fs::hard_link(fakegen_bin(), &gen).is_err() {
        let _ = std::fs::copy(fakegen_bin(), &gen);
    }
    let _ = std::fs::write(dir.join("gen.json"), json!({"beh": "ok0", "index": 1}).to_string());
    let run = |sub: &str, av: &[String], extra: &[&str]| {
        let _ = std::fs::remove_file(dir.join("gen.stdin"));
        let _ = std::fs::remove_file(dir.join("gen.started"));
        let mut a: Vec<String> = av[1..].to_vec();
        a.extend(extra.iter().map(|x| x.to_string()));
        a.extend(["--diagnostic-format".to_owned(), "json".to_owned(), "-G".to_owned(), gen.display().to_string()]);
        let res = run_limited(std::process::Command::new(slicec_bin()).args(&a).current_dir(dir.join(sub)), std::time::Duration::from_secs(20));
        let errors: Vec<String> = String::from_utf8_lossy(&res.stderr).lines().filter(|l| serde_json::from_str::<Value>(l).map(|v| v["severity"] == "error").unwrap_or(true)).map(|l| l.to_owned()).collect();
        (res.status.and_then(|s| s.code()), std::fs::read(dir.join("gen.stdin")).ok(), dir.join("gen.started").exists(), errors, res.timed_out)
    };
    let base = run("b", argv, &[]);
    let supp = run("s", argv_supp, &[]);
    if base.4 || supp.4 {
        return Some(json!({"kind": "hang", "what": "the binary did not finish within 20 s of CPU time"}));
    }
    if base.0 != Some(0) || base.1.is_none() || !base.3.is_empty() {
        return Some(json!({"kind": "harness", "what": "the binary does not accept the template and run its generator", "exit": base.0, "errors": base.3}));
    }
    if supp.0 != base.0 || !supp.3.is_empty() {
        return Some(mismatch("exit status and error records of the run with the suppressions (those of the run without)", json!([base.0, base.3]), json!([supp.0, supp.3])));
    }
    let (Some(b), Some(s)) = (base.1, supp.1) else {
        return Some(json!({"kind": "mismatch", "what": "with the suppressions the generator was not run (or got nothing)"}));
    };
    let (stripped, cuts) = strip_allow_attributes(&s);
    let same_but_counts = stripped.len() == b.len() && {
        let d: Vec<usize> = (0..b.len()).filter(|&i| stripped[i] != b[i]).collect();
        d.iter().all(|&i| stripped[i] > b[i] && (stripped[i] - b[i]) % 4 == 0 && cuts.iter().any(|&c| c > i)) && d.iter().map(|&i| ((stripped[i] - b[i]) / 4) as usize).sum::<usize>() == cuts.len()
    };
    if cuts.len() != attrs || !same_but_counts {
        let at = (0..b.len().min(stripped.len())).find(|&i| stripped[i] != b[i]);
        return Some(json!({"kind": "mismatch", "what": "the generator request changed beyond the allow attributes themselves", "allow_attributes_written": attrs, "found_in_request": cuts.len(),
                           "lengths": [b.len(), s.len(), stripped.len()], "first_difference_at": at}));
    }
    // an error is an error whatever is allowed
    let _ = std::fs::write(dir.join("b").join("err.slice"), "module Err\nstruct Z { a: Missing }\n");
    let _ = std::fs::write(dir.join("s").join("err.slice"), "module Err\nstruct Z { a: Missing }\n");
    let (be, se) = (run("b", argv, &["err.slice"]), run("s", argv_supp, &["err.slice"]));
    if be.0 == Some(0) || be.0.is_none() || be.2 || be.3.len() != 1 {
        return Some(json!({"kind": "harness", "what": "the binary does not reject the template with the erroneous file", "exit": be.0, "errors": be.3}));
    }
    if se.0 != be.0 || se.3 != be.3 || se.2 {
        return Some(mismatch("exit status, error records and generator start of the erroneous run with the suppressions (those of the run without)", json!([be.0, be.3, be.2]), json!([se.0, se.3, se.2])));
    }
    None
}

/// The two files of a many-lints case with its attribute suppressions written in (command-line suppressions are not part
/// of the text) - also used by C15, which compiles them in every order.
pub fn many_texts(case: &Value) -> Vec<String> {
    let supp = case["supp"].as_object().cloned().unwrap_or_default();
    let with = |slot: &str| -> String {
        let a: Vec<String> = supp.get(slot).map(strs).unwrap_or_default();
        if a.is_empty() {
            String::new()
        } else if slot == "file" || slot == "tfile" {
            format!("[[allow({})]] ", a.join(", "))
        } else {
            format!("[allow({})] ", a.join(", "))
        }
    };
    let present: Vec<bool> = case["present"].as_array().cloned().unwrap_or_default().iter().map(|x| x == true).collect();
    let none = vec![false; present.len()];
    (0..2).map(|f| many_template(f, &with, if f == 1 && case["twin"] == false { &none } else { &present })).collect()
}

impl Lints {
    fn run_many(&mut self, case: &Value) -> Outcome {
        self.counter += 1;
        let supp = case["supp"].as_object().cloned().unwrap_or_default();
        let args_of = |slot: &str| -> Vec<String> { supp.get(slot).map(strs).unwrap_or_default() };
        let with = |slot: &str| -> String {
            let a = args_of(slot);
            if a.is_empty() {
                String::new()
            } else if slot == "file" || slot == "tfile" {
                format!("[[allow({})]] ", a.join(", "))
            } else {
                format!("[allow({})] ", a.join(", "))
            }
        };
        let none = |_: &str| String::new();
        let present: Vec<bool> = case["present"].as_array().cloned().unwrap_or_default().iter().map(|x| x == true).collect();
        // (file, site index, row, code) of every lint the two files contain
        let mut sites: Vec<(usize, usize, usize, &str)> = Vec::new();
        // (the twin file may be without lints: case "twin" = false)
        let absent = vec![false; present.len()];
        let present_in = |f: usize| -> &Vec<bool> { if f == 1 && case["twin"] == false { &absent } else { &present } };
        for f in 0..2 {
            for (i, (row, code)) in MANY_SITES.iter().enumerate() {
                if present_in(f).get(i).copied().unwrap_or(false) {
                    sites.push((f, i, *row, code));
                }
            }
        }
        let work = std::env::var("VERIF_WORK").unwrap_or_else(|_| "/verif/work".into());
        let dir = std::path::PathBuf::from(format!("{work}/lints-{}/{}", std::process::id(), self.counter));
        let _ = std::fs::remove_dir_all(&dir);
        std::fs::create_dir_all(dir.join("b")).unwrap();
        std::fs::create_dir_all(dir.join("s")).unwrap();
        let mut shown_texts = Vec::new();
        for f in 0..2 {
            std::fs::write(dir.join("b").join(MANY_FILES[f]), many_template(f, &none, present_in(f))).unwrap();
            let t = many_template(f, &with, present_in(f));
            std::fs::write(dir.join("s").join(MANY_FILES[f]), &t).unwrap();
            shown_texts.push(t);
        }
        let argv: Vec<String> = vec!["slicec".into(), MANY_FILES[0].into(), MANY_FILES[1].into()];
        let mut argv_supp = argv.clone();
        for n in args_of("cli") {
            argv_supp.push("--allow".into());
            argv_supp.push(n);
        }
        let rendered = json!({"a.slice": shown_texts[0], "twin.slice": shown_texts[1], "argv": argv_supp});
        let key = hash_str(&rendered.to_string());
        let mode = std::env::var("VERIF_LINTS_MODE").unwrap_or_default();
        let fail = (|| {
            if mode == "emit" {
                return emitted_many(&dir.join("s"), &argv_supp, &sites, case);
            }
            if mode == "request" {
                return request_many(&dir, &argv, &argv_supp, supp.keys().filter(|k| k.as_str() != "cli" && !args_of(k).is_empty()).count());
            }
            let base = match compile(&dir.join("b"), &argv) {
                Ok(r) => r,
                Err(e) => return Some(json!({"kind": "harness", "what": e})),
            };
            let supp = match compile(&dir.join("s"), &argv_supp) {
                Ok(r) => r,
                Err(e) => return Some(mismatch("a lint name the command line should accept ", json!("accepted"), json!(e))),
            };
            // the baseline shows every site once, as a warning, and nothing else
            for (f, _, row, code) in &sites {
                let n = base.diags.iter().zip(base.at.iter()).filter(|(d, at)| d.0 == *code && at.0 == MANY_FILES[*f] && at.1 == *row && d.3 == "Warning").count();
                if n != 1 {
                    return Some(json!({"kind": "harness", "what": "the template does not produce each lint once as a warning", "site": [MANY_FILES[*f], row, code], "diags": format!("{:?}", base.diags)}));
                }
            }
            if base.diags.len() != sites.len() || base.errors != 0 || supp.errors != 0 {
                return Some(mismatch("diagnostics of the template (one warning per lint site, no error)", json!(sites.len()), json!(format!("{:?} / {:?}", base.diags, supp.diags))));
            }
            let strip = |v: &Vec<(String, String, String, String)>| -> Vec<(String, String, String)> { v.iter().map(|d| (d.0.clone(), d.1.clone(), d.2.clone())).collect() };
            if strip(&base.diags) != strip(&supp.diags) {
                return Some(mismatch("the suppressions changed which diagnostics exist", json!(format!("{:?}", base.diags)), json!(format!("{:?}", supp.diags))));
            }
            for (f, i, row, code) in &sites {
                let want = if case["silenced"][*f][*i] == true { "Allowed" } else { "Warning" };
                let got: Vec<&str> = supp.diags.iter().zip(supp.at.iter()).filter(|(d, at)| d.0 == *code && at.0 == MANY_FILES[*f] && at.1 == *row).map(|(d, _)| d.3.as_str()).collect();
                if got != vec![want] {
                    return Some(mismatch(&format!("level of the {code} lint of {} row {row} (site {})", MANY_FILES[*f], i + 1), json!(want), json!(got)));
                }
            }
            if base.ast != supp.ast {
                return Some(json!({"kind": "mismatch", "what": "the suppressions changed the AST beyond the allow attributes themselves"}));
            }
            None
        })();
        let _ = std::fs::remove_dir_all(&dir);
        Outcome { fail, nontrivial: !supp.is_empty(), key, rendered }
    }
}

impl Family for Lints {
    fn run(&mut self, case: &Value) -> Outcome {
        if case["many"] == true {
            return self.run_many(case);
        }
        self.counter += 1;
        let site = case["site"].as_str().unwrap_or("");
        let kind = case["kind"].as_str().unwrap_or("");
        let place = case["place"].as_str().unwrap_or("none");
        let args = strs(&case["args"]);
        let attr = format!("[allow({})] ", names(kind, &args, false).join(", "));
        // on the same line as what follows, so that no row number changes
        let fattr = format!("[[allow({})]] ", names(kind, &args, false).join(", "));
        // the unrelated second suppression is present in both runs, in front of the suppression under test
        let extra = case["extra"].as_str().unwrap_or("none");
        let eattr = format!("[allow({})] ", other_of(kind));
        let efattr = format!("[[allow({})]] ", other_of(kind));
        let extra_at = |slot: &str| -> String {
            match (extra, slot) {
                ("own_other", "own") | ("parent_other", "parent") => eattr.clone(),
                ("file_other_attr", "file_own") => efattr.clone(),
                _ => String::new(),
            }
        };
        let none = |slot: &str| extra_at(slot);
        let with = |slot: &str| -> String {
            let mut a = extra_at(slot);
            if slot == place {
                a.push_str(if slot == "file_own" { &fattr } else { &attr });
            }
            a
        };
        let base_text = template(site, &none);
        let supp_text = template(site, &with);
        let other_base = "module N\nstruct Other { o: int32 }\n".to_owned();
        let other_supp = if place == "file_other" { format!("{fattr}{other_base}") } else { other_base.clone() };
        let work = std::env::var("VERIF_WORK").unwrap_or_else(|_| "/verif/work".into());
        let dir = std::path::PathBuf::from(format!("{work}/lints-{}/{}", std::process::id(), self.counter));
        let _ = std::fs::remove_dir_all(&dir);
        std::fs::create_dir_all(dir.join("b")).unwrap();
        std::fs::create_dir_all(dir.join("s")).unwrap();
        std::fs::write(dir.join("b/a.slice"), &base_text).unwrap();
        std::fs::write(dir.join("b/other.slice"), &other_base).unwrap();
        std::fs::write(dir.join("s/a.slice"), &supp_text).unwrap();
        std::fs::write(dir.join("s/other.slice"), &other_supp).unwrap();
        let mut argv: Vec<String> = vec!["slicec".into(), "a.slice".into(), "other.slice".into()];
        if site == "dupfile" {
            argv.push("./a.slice".into());
        }
        let mut argv_supp = argv.clone();
        if place == "cli" || place == "cli_lower" {
            for n in names(kind, &args, place == "cli_lower") {
                argv_supp.push("-A".into());
                argv_supp.push(n);
            }
        }
        let rendered = json!({"a.slice": supp_text, "other.slice": other_supp, "argv": argv_supp});
        let key = hash_str(&rendered.to_string());
        let fail = (|| {
            let base = match compile(&dir.join("b"), &argv) {
                Ok(r) => r,
                Err(e) => return Some(json!({"kind": "harness", "what": e})),
            };
            let supp = match compile(&dir.join("s"), &argv_supp) {
                Ok(r) => r,
                Err(e) => return Some(mismatch("a lint name in a spelling the command line should accept", json!("accepted"), json!(e))),
            };
            // the target lint exists in the baseline, as a warning
            let targets: Vec<usize> = base.diags.iter().enumerate().filter(|(_, d)| d.0 == kind).map(|(i, _)| i).collect();
            if targets.is_empty() || targets.iter().any(|i| base.diags[*i].3 != "Warning") {
                return Some(json!({"kind": "harness", "what": "template does not produce the lint as a warning", "diags": format!("{:?}", base.diags)}));
            }
            if base.errors != 0 || supp.errors != base.errors {
                return Some(mismatch("error diagnostics (suppression can neither silence nor cause an error)", json!(base.errors), json!(format!("{:?}", supp.diags))));
            }
            // same diagnostics (code, message, location), in the same order
            let strip = |v: &Vec<(String, String, String, String)>| -> Vec<(String, String, String)> { v.iter().map(|d| (d.0.clone(), d.1.clone(), d.2.clone())).collect() };
            if strip(&base.diags) != strip(&supp.diags) {
                return Some(mismatch("the suppression changed other diagnostics", json!(format!("{:?}", base.diags)), json!(format!("{:?}", supp.diags))));
            }
            let want_level = if case["silenced"] == true { "Allowed" } else { "Warning" };
            for (i, d) in supp.diags.iter().enumerate() {
                let want = if d.0 == kind { want_level } else { base.diags[i].3.as_str() };
                // a suppression that names another lint (OTHER / All) may silence lints of that other kind in scope; the
                // templates produce only the target kind, so every other level must be unchanged
                if d.3 != want {
                    return Some(mismatch(&format!("level of the {} lint", d.0), json!(want), json!(d.3)));
                }
            }
            if base.ast != supp.ast {
                return Some(json!({"kind": "mismatch", "what": "the suppression changed the AST beyond the allow attribute itself"}));
            }
            None
        })();
        let _ = std::fs::remove_dir_all(&dir);
        Outcome { fail, nontrivial: place != "none", key, rendered }
    }
}
