// C17: argument vectors printed by MC_Files are executed through compile_from_options inside a materialised copy of the
// model's file-system skeleton ($VERIF_FILES_TREE: the tree as printed by TLC).
// case: {"sources": [[comp..]..], "refs": [[comp..]..], "expect": {"srcGroups": [[canon..]..], "refGroups": [..], "dups": n, "err": bool}}

use crate::util::{hash_str, mismatch, strs};
use crate::{Family, Outcome};
use serde_json::{json, Value};
use slicec::diagnostics::DiagnosticLevel;
use slicec::slice_options::SliceOptions;
use std::path::{Path, PathBuf};

#[derive(Default)]
pub struct Files {
    root: Option<PathBuf>,
}

fn sanitize(p: &str) -> String {
    p.chars().map(|c| if c.is_ascii_alphanumeric() { c } else { '_' }).collect()
}

pub fn materialise(tree: &Value, root: &Path) {
    let _ = std::fs::remove_dir_all(root);
    std::fs::create_dir_all(root).expect("root");
    let mut entries: Vec<&Value> = tree.as_array().map(|a| a.iter().collect()).unwrap_or_default();
    entries.sort_by_key(|e| e["p"].as_array().map(|a| a.len()).unwrap_or(0));
    // directories and files first, links last (their targets may not exist - that is the point of a dangling link)
    for pass in 0..2 {
        for e in &entries {
            let rel = strs(&e["p"]).join("/");
            let path = root.join(&rel);
            match (e["k"].as_str().unwrap_or(""), pass) {
                ("dir", 0) => std::fs::create_dir_all(&path).unwrap(),
                ("file", 0) => {
                    if let Some(parent) = path.parent() {
                        std::fs::create_dir_all(parent).unwrap();
                    }
                    match e["c"].as_str().unwrap_or("text") {
                        "slice" => std::fs::write(&path, format!("module M_{}\nstruct S {{}}\n", sanitize(&rel))).unwrap(),
                        "bad" => std::fs::write(&path, [b'm', b'o', 0xFF, 0xFE, b'\n']).unwrap(),
                        _ => std::fs::write(&path, "just some text\n").unwrap(),
                    }
                }
                ("link", 1) => {
                    let target = strs(&e["t"]).join("/");
                    std::os::unix::fs::symlink(target, &path).unwrap();
                }
                _ => {}
            }
        }
    }
}

fn spell(components: &Value, root: &Path) -> String {
    let cs = strs(components);
    if cs.first().map(|c| c == "ROOT").unwrap_or(false) {
        let mut p = root.display().to_string();
        for c in &cs[1..] {
            p.push('/');
            p.push_str(c);
        }
        p
    } else {
        cs.join("/")
    }
}

impl Family for Files {
    fn run(&mut self, case: &Value) -> Outcome {
        if self.root.is_none() {
            let tree_file = std::env::var("VERIF_FILES_TREE").expect("VERIF_FILES_TREE");
            let tree: Value = serde_json::from_str(&std::fs::read_to_string(tree_file).expect("tree file")).expect("tree json");
            let work = std::env::var("VERIF_WORK").unwrap_or_else(|_| "/verif/work".into());
            let root = PathBuf::from(format!("{work}/fs-{}", std::process::id()));
            materialise(&tree, &root);
            let root = root.canonicalize().unwrap();
            std::env::set_current_dir(&root).expect("chdir");
            self.root = Some(root);
        }
        let root = self.root.clone().unwrap();
        let sources: Vec<String> = case["sources"].as_array().map(|a| a.iter().map(|s| spell(s, &root)).collect()).unwrap_or_default();
        let refs: Vec<String> = case["refs"].as_array().map(|a| a.iter().map(|s| spell(s, &root)).collect()).unwrap_or_default();
        let rendered = json!({"sources": sources.iter().map(|s| s.replace(&root.display().to_string(), "$ROOT")).collect::<Vec<_>>(),
                              "references": refs.iter().map(|s| s.replace(&root.display().to_string(), "$ROOT")).collect::<Vec<_>>()});
        let key = hash_str(&rendered.to_string());
        // the options come from the real command-line parser (paths may hold characters an option syntax could care about,
        // a comma for instance); a command line without a source is not one the parser accepts: built by hand then
        let mut argv: Vec<String> = vec!["slicec".to_owned()];
        argv.extend(sources.iter().cloned());
        for r in &refs {
            argv.extend(["-R".to_owned(), r.clone()]);
        }
        let options = match <SliceOptions as clap::Parser>::try_parse_from(&argv) {
            Ok(o) => o,
            Err(_) => SliceOptions { sources: sources.clone(), references: refs.clone(), ..Default::default() },
        };
        if !sources.is_empty() && (options.sources != sources || options.references != refs) {
            let fail = Some(mismatch("sources and references as the command-line parser hands them on", json!({"sources": sources, "references": refs}),
                                     json!({"sources": options.sources, "references": options.references})));
            return Outcome { fail, nontrivial: true, key, rendered };
        }
        let state = slicec::compile_from_options(&options);

        // ---- observe: canonical identity (relative to the root), role, whether it was parsed
        let mut seen: Vec<(Vec<String>, bool, bool)> = Vec::new();
        for f in &state.files {
            let canon = Path::new(&f.relative_path).canonicalize().ok();
            let rel: Vec<String> = canon
                .as_ref()
                .and_then(|c| c.strip_prefix(&root).ok())
                .map(|r| r.components().map(|c| c.as_os_str().to_string_lossy().to_string()).collect())
                .unwrap_or_else(|| vec![format!("?{}", f.relative_path)]);
            seen.push((rel, f.is_source, f.module.is_some() || !f.contents.is_empty()));
        }
        let diags = state.into_diagnostics(&options);
        let e001 = diags.iter().filter(|d| d.level() == DiagnosticLevel::Error && d.code() == "E001").count();
        let other_errors = diags.iter().filter(|d| d.level() == DiagnosticLevel::Error && d.code() != "E001").count();
        let dups = diags.iter().filter(|d| d.code() == "DuplicateFile").count();

        let expect = &case["expect"];
        let fail = (|| {
            let want_err = expect["err"].as_bool().unwrap_or(false);
            if want_err != (e001 > 0) {
                return Some(mismatch("I/O error reported", json!(want_err), json!(e001)));
            }
            if other_errors > 0 {
                return Some(mismatch("errors other than I/O errors", json!(0), json!(other_errors)));
            }
            if dups as u64 != expect["dups"].as_u64().unwrap_or(0) {
                return Some(mismatch("number of DuplicateFile warnings", expect["dups"].clone(), json!(dups)));
            }
            // sources first, in argument order; then references grouped by argument (order inside a group unspecified)
            let mut pos = 0usize;
            for (role, groups) in [(true, &expect["srcGroups"]), (false, &expect["refGroups"])] {
                for g in groups.as_array().cloned().unwrap_or_default() {
                    let mut want: Vec<Vec<String>> = g.as_array().map(|a| a.iter().map(strs).collect()).unwrap_or_default();
                    want.sort();
                    let n = want.len();
                    if pos + n > seen.len() {
                        return Some(mismatch("compiled file list is shorter than required", json!({"sources": expect["srcGroups"], "references": expect["refGroups"]}), json!(seen)));
                    }
                    let mut got: Vec<Vec<String>> = seen[pos..pos + n].iter().map(|s| s.0.clone()).collect();
                    got.sort();
                    if got != want || seen[pos..pos + n].iter().any(|s| s.1 != role) {
                        return Some(mismatch("compiled files (canonical identity, role, order)", json!({"sources": expect["srcGroups"], "references": expect["refGroups"]}), json!(seen)));
                    }
                    pos += n;
                }
            }
            if pos != seen.len() {
                return Some(mismatch("compiled file list is longer than required", json!({"sources": expect["srcGroups"], "references": expect["refGroups"]}), json!(seen)));
            }
            // nothing is parsed when an I/O error was reported; everything is parsed otherwise
            if seen.iter().any(|s| s.2 == want_err) {
                return Some(mismatch("files parsed", json!(!want_err), json!(seen)));
            }
            None
        })();
        let nontrivial = sources.len() + refs.len() >= 2;
        Outcome { fail, nontrivial, key, rendered }
    }
}
