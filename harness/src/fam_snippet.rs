// C09 (c): snippet geometry. Cases printed by MC_Location:
// {"lines": [[cls..]..], "base": first row number, "s": [row, col], "e": [row, col], "crlf": bool,
//  "expect": {"gutter": L, "rows": [{"n", "pad", "len"}]}}      (len 0 = a caret between two characters)

use crate::util::{hash_str, mismatch, strs};
use crate::{Family, Outcome};
use serde_json::{json, Value};
use slicec::diagnostic_emitter::DiagnosticEmitter;
use slicec::diagnostics::{Diagnostic, Error};
use slicec::slice_file::{Location, SliceFile, Span};
use slicec::slice_options::SliceOptions;

#[derive(Default)]
pub struct Snippet;

fn class_char(c: &str) -> char {
    match c {
        "a" => 'a',
        "sp" => ' ',
        "tab" => '\t',
        "mb2" => '\u{e9}',
        "mb3" => '\u{4e2d}',
        _ => '?',
    }
}

impl Family for Snippet {
    fn run(&mut self, case: &Value) -> Outcome {
        let base = case["base"].as_u64().unwrap_or(1) as usize;
        let eol = if case["crlf"] == true { "\r\n" } else { "\n" };
        let lines: Vec<String> = case["lines"].as_array().cloned().unwrap_or_default().iter().map(|l| strs(l).iter().map(|c| class_char(c)).collect()).collect();
        let mut text = String::new();
        for _ in 1..base {
            text.push_str("filler");
            text.push_str(eol);
        }
        for l in &lines {
            text.push_str(l);
            text.push_str(eol);
        }
        let loc = |v: &Value| Location { row: v[0].as_u64().unwrap_or(1) as usize, col: v[1].as_u64().unwrap_or(1) as usize };
        let span = Span::new(loc(&case["s"]), loc(&case["e"]), "f.slice");
        let files = vec![SliceFile::new("f.slice".into(), text.clone(), true)];
        let options = SliceOptions { disable_color: true, ..Default::default() };
        let mut out: Vec<u8> = Vec::new();
        {
            let mut emitter = DiagnosticEmitter::new(&mut out, &options, &files);
            let d = Diagnostic::new(Error::Syntax { message: "m".into() }).set_span(&span);
            let _ = emitter.emit_diagnostics(vec![d]);
        }
        let shown = String::from_utf8_lossy(&out).to_string();
        let rendered = json!({"text": text, "span": [case["s"], case["e"]]});
        let key = hash_str(&rendered.to_string());
        // ---- project the snippet: gutter width, and per source line (number, shown text, padding, underline)
        let body: Vec<&str> = shown.lines().skip(2).collect();
        let mut gutter: Option<usize> = None;
        let mut rows: Vec<Value> = Vec::new();
        let mut shown_lines: Vec<String> = Vec::new();
        let mut i = 1; // body[0] is the empty gutter line
        while i + 1 < body.len() {
            let (numbered, under) = (body[i], body[i + 1]);
            let bar = numbered.find('|').unwrap_or(0);
            gutter = Some(bar);
            let n: u64 = numbered[..bar].trim().parse().unwrap_or(0);
            shown_lines.push(numbered.get(bar + 2..).unwrap_or("").to_owned());
            let ubar = under.find('|').unwrap_or(0);
            let marks = &under[ubar + 1..];
            let pad = marks.chars().take_while(|c| *c == ' ').count();
            let rest: String = marks.chars().skip(pad).collect();
            let len = if rest.starts_with("/\\") { 0 } else { rest.chars().take_while(|c| *c == '-').count() };
            let clean_marks = rest == "/\\" || rest.chars().all(|c| c == '-');
            rows.push(json!({"n": n, "pad": pad, "len": len, "clean": clean_marks, "ubar": ubar == bar}));
            i += 2;
        }
        let expect = &case["expect"];
        let fail = (|| {
            if !shown.contains(&format!(" --> f.slice:{}:{}", case["s"][0], case["s"][1])) {
                return Some(mismatch("location line", json!([case["s"]]), json!(shown)));
            }
            if gutter.map(|g| g as u64) != expect["gutter"].as_u64() {
                return Some(mismatch("gutter width (digits of the last row + 1)", expect["gutter"].clone(), json!({"gutter": gutter, "output": shown})));
            }
            let want: Vec<Value> = expect["rows"].as_array().cloned().unwrap_or_default().iter().map(|r| json!({"n": r["n"], "pad": r["pad"], "len": r["len"], "clean": true, "ubar": true})).collect();
            if rows != want {
                return Some(mismatch("line numbers, padding and underline of the snippet", json!(want), json!({"rows": rows, "output": shown})));
            }
            // the shown text is the source line with tabs expanded to four blanks and no line terminator
            let want_lines: Vec<String> = lines.iter().skip(case["s"][0].as_u64().unwrap_or(1) as usize - base).take(rows.len()).map(|l| l.replace('\t', "    ")).collect();
            if shown_lines != want_lines {
                return Some(mismatch("text of the shown lines", json!(want_lines), json!(shown_lines)));
            }
            if shown.contains('\u{1b}') || shown.contains('\r') {
                return Some(json!({"kind": "mismatch", "what": "escape or carriage return in the snippet"}));
            }
            None
        })();
        let nontrivial = lines.iter().any(|l| l.chars().any(|c| c == '\t' || !c.is_ascii()));
        Outcome { fail, nontrivial, key, rendered }
    }
}

// C09 (c'): a diagnostic and its notes, with spans in two files (cases of MC_Notes):
// {"files": [[[cls..]..], [[cls..]..]], "diag": {f, r, a, b}, "notes": [{f, r, a, b} | f = 0: no span],
//  "expect": [{"file", "row", "col", "snippet": {"gutter", "rows": [{"n", "pad", "len"}]}}]}
#[derive(Default)]
pub struct SnippetNotes;

struct Block {
    header: String,
    gutter: usize,
    rows: Vec<Value>,
    shown: Vec<String>,
}

/// splits human-readable output into the snippets it contains (a snippet starts at a ' --> ' line)
fn blocks(shown: &str) -> Vec<Block> {
    let lines: Vec<&str> = shown.lines().collect();
    let mut out = Vec::new();
    let mut i = 0;
    while i < lines.len() {
        let Some(h) = lines[i].strip_prefix(" --> ") else {
            i += 1;
            continue;
        };
        let mut b = Block { header: h.to_owned(), gutter: 0, rows: vec![], shown: vec![] };
        i += 1;
        // gutter line, then (numbered line, underline) pairs, then a closing gutter line
        let body: Vec<&str> = lines[i..].iter().take_while(|l| l.contains('|') && !l.starts_with(" --> ")).copied().collect();
        i += body.len();
        let mut j = 1;
        while j + 1 < body.len() {
            let (numbered, under) = (body[j], body[j + 1]);
            let bar = numbered.find('|').unwrap_or(0);
            b.gutter = bar;
            let n: u64 = numbered[..bar].trim().parse().unwrap_or(0);
            b.shown.push(numbered.get(bar + 2..).unwrap_or("").to_owned());
            let ubar = under.find('|').unwrap_or(0);
            let marks = &under[ubar + 1..];
            let pad = marks.chars().take_while(|c| *c == ' ').count();
            let rest: String = marks.chars().skip(pad).collect();
            let len = if rest.starts_with("/\\") { 0 } else { rest.chars().take_while(|c| *c == '-').count() };
            let clean = rest == "/\\" || rest.chars().all(|c| c == '-');
            b.rows.push(json!({"n": n, "pad": pad, "len": len, "clean": clean, "ubar": ubar == bar}));
            j += 2;
        }
        out.push(b);
    }
    out
}

impl Family for SnippetNotes {
    fn run(&mut self, case: &Value) -> Outcome {
        // class "a" is another letter in each file, so a line of the wrong file can never pass for the right one
        let ch = |c: &str, f: usize| if c == "a" { ['a', 'b'][f] } else { class_char(c) };
        let texts: Vec<Vec<String>> = case["files"]
            .as_array()
            .cloned()
            .unwrap_or_default()
            .iter()
            .enumerate()
            .map(|(f, ls)| ls.as_array().cloned().unwrap_or_default().iter().map(|l| strs(l).iter().map(|c| ch(c, f)).collect()).collect())
            .collect();
        let names = ["one.slice", "dir/two.slice"];
        let files: Vec<SliceFile> = texts.iter().enumerate().map(|(f, ls)| SliceFile::new(names[f].into(), ls.join("\n") + "\n", true)).collect();
        let span_of = |p: &Value| -> Option<Span> {
            let f = p["f"].as_u64().unwrap_or(0) as usize;
            if f == 0 {
                return None;
            }
            let r = p["r"].as_u64().unwrap_or(1) as usize;
            Some(Span::new(
                Location { row: r, col: p["a"].as_u64().unwrap_or(1) as usize },
                Location { row: r, col: p["b"].as_u64().unwrap_or(1) as usize },
                names[f - 1],
            ))
        };
        let options = SliceOptions { disable_color: true, ..Default::default() };
        let mut out: Vec<u8> = Vec::new();
        {
            let mut emitter = DiagnosticEmitter::new(&mut out, &options, &files);
            let mut d = Diagnostic::new(Error::Syntax { message: "m".into() }).set_span(&span_of(&case["diag"]).unwrap());
            for (i, n) in case["notes"].as_array().cloned().unwrap_or_default().iter().enumerate() {
                d = d.add_note(format!("note {i}"), span_of(n).as_ref());
            }
            let _ = emitter.emit_diagnostics(vec![d]);
        }
        let shown = String::from_utf8_lossy(&out).to_string();
        let rendered = json!({"files": texts, "diag": case["diag"], "notes": case["notes"]});
        let key = hash_str(&rendered.to_string());
        let got = blocks(&shown);
        let want = case["expect"].as_array().cloned().unwrap_or_default();
        let fail = (|| {
            if got.len() != want.len() {
                return Some(mismatch("number of snippets (the diagnostic's, then one per note that has a span)", json!(want.len()), json!({"snippets": got.len(), "output": shown})));
            }
            for (k, (g, w)) in got.iter().zip(want.iter()).enumerate() {
                let f = w["file"].as_u64().unwrap_or(1) as usize - 1;
                let header = format!("{}:{}:{}", names[f], w["row"], w["col"]);
                if g.header != header {
                    return Some(mismatch(&format!("location line of snippet {k}"), json!(header), json!({"header": g.header, "output": shown})));
                }
                if Some(g.gutter as u64) != w["snippet"]["gutter"].as_u64() {
                    return Some(mismatch("gutter width (digits of the last row + 1)", w["snippet"]["gutter"].clone(), json!({"gutter": g.gutter, "output": shown})));
                }
                let rows: Vec<Value> = w["snippet"]["rows"].as_array().cloned().unwrap_or_default().iter().map(|r| json!({"n": r["n"], "pad": r["pad"], "len": r["len"], "clean": true, "ubar": true})).collect();
                if g.rows != rows {
                    return Some(mismatch(&format!("line numbers, padding and underline of snippet {k}"), json!(rows), json!({"rows": g.rows, "output": shown})));
                }
                // the text shown is the line of the file the span names
                let line = texts[f][w["row"].as_u64().unwrap_or(1) as usize - 1].replace('\t', "    ");
                if g.shown != vec![line.clone()] {
                    return Some(mismatch(&format!("text shown by snippet {k} (the line of the file its span names)"), json!([line]), json!({"shown": g.shown, "output": shown})));
                }
            }
            None
        })();
        let nontrivial = case["notes"].as_array().map(|n| n.iter().any(|p| p["f"] != 0 && p["f"] != case["diag"]["f"])).unwrap_or(false);
        Outcome { fail, nontrivial, key, rendered }
    }
}
