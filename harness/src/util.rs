// Small helpers shared by the families: hashing, a seeded PRNG, JSON conveniences.

use serde_json::Value;
use std::hash::{Hash, Hasher};

pub fn hash_str(s: &str) -> u64 {
    let mut h = std::collections::hash_map::DefaultHasher::new();
    s.hash(&mut h);
    h.finish() | 1
}

pub fn hash_bytes(b: &[u8]) -> u64 {
    let mut h = std::collections::hash_map::DefaultHasher::new();
    b.hash(&mut h);
    h.finish() | 1
}

/// splitmix64: deterministic per seed, no external crate.
pub struct Rng(pub u64);

impl Rng {
    pub fn new(seed: u64) -> Self {
        Rng(seed.wrapping_mul(0x9E3779B97F4A7C15).wrapping_add(0x1234567))
    }
    pub fn next(&mut self) -> u64 {
        self.0 = self.0.wrapping_add(0x9E3779B97F4A7C15);
        let mut z = self.0;
        z = (z ^ (z >> 30)).wrapping_mul(0xBF58476D1CE4E5B9);
        z = (z ^ (z >> 27)).wrapping_mul(0x94D049BB133111EB);
        z ^ (z >> 31)
    }
    pub fn below(&mut self, n: u64) -> u64 {
        if n == 0 {
            0
        } else {
            self.next() % n
        }
    }
    pub fn pick<'a, T>(&mut self, xs: &'a [T]) -> &'a T {
        &xs[self.below(xs.len() as u64) as usize]
    }
    pub fn chance(&mut self, num: u64, den: u64) -> bool {
        self.below(den) < num
    }
}

pub fn strs(v: &Value) -> Vec<String> {
    v.as_array()
        .map(|a| a.iter().map(|x| x.as_str().unwrap_or("").to_owned()).collect())
        .unwrap_or_default()
}

pub fn mismatch(what: &str, expected: Value, observed: Value) -> Value {
    serde_json::json!({"kind": "mismatch", "what": what, "expected": expected, "observed": observed})
}

pub fn seed_from_env() -> u64 {
    std::env::var("VERIF_SEED").ok().and_then(|s| s.parse().ok()).unwrap_or(1)
}

/// Appends one event to this process's trace file `$VERIF_WORK/events-<family>-<pid>.ndjson`; the runner concatenates
/// the files of all workers and hands them to the TLC trace specification.
pub fn emit_event(family: &str, ev: &Value) {
    use std::io::Write;
    use std::sync::Mutex;
    static FILE: Mutex<Option<std::fs::File>> = Mutex::new(None);
    let mut guard = FILE.lock().unwrap();
    if guard.is_none() {
        let dir = std::env::var("VERIF_WORK").unwrap_or_else(|_| ".".into());
        let path = format!("{dir}/events-{family}-{}.ndjson", std::process::id());
        *guard = std::fs::OpenOptions::new().create(true).append(true).open(path).ok();
    }
    if let Some(f) = guard.as_mut() {
        let _ = writeln!(f, "{ev}");
    }
}
