// Small helpers shared by the families: hashing, a seeded PRNG, JSON conveniences.

use serde_json::Value;
use std::hash::{Hash, Hasher};

pub fn hash_str(s: &str) -> u64 {
    let mut h = std::collections::hash_map::DefaultHasher::new();
    s.hash(&mut h);
    h.finish() | 1
}

pub fn hash_bytes(b: &[u8]) -> u64 {
    let mut h = std::collections::hash_map::DefaultHasher::new();
    b.hash(&mut h);
    h.finish() | 1
}

/// splitmix64: deterministic per seed, no external crate.
pub struct Rng(pub u64);

impl Rng {
    pub fn new(seed: u64) -> Self {
        Rng(seed.wrapping_mul(0x9E3779B97F4A7C15).wrapping_add(0x1234567))
    }
    pub fn next(&mut self) -> u64 {
        self.0 = self.0.wrapping_add(0x9E3779B97F4A7C15);
        let mut z = self.0;
        z = (z ^ (z >> 30)).wrapping_mul(0xBF58476D1CE4E5B9);
        z = (z ^ (z >> 27)).wrapping_mul(0x94D049BB133111EB);
        z ^ (z >> 31)
    }
    pub fn below(&mut self, n: u64) -> u64 {
        if n == 0 {
            0
        } else {
            self.next() % n
        }
    }
    pub fn pick<'a, T>(&mut self, xs: &'a [T]) -> &'a T {
        &xs[self.below(xs.len() as u64) as usize]
    }
    pub fn chance(&mut self, num: u64, den: u64) -> bool {
        self.below(den) < num
    }
}

pub fn strs(v: &Value) -> Vec<String> {
    v.as_array()
        .map(|a| a.iter().map(|x| x.as_str().unwrap_or("").to_owned()).collect())
        .unwrap_or_default()
}

pub fn mismatch(what: &str, expected: Value, observed: Value) -> Value {
    serde_json::json!({"kind": "mismatch", "what": what, "expected": expected, "observed": observed})
}

/// CPU time consumed so far by the calling thread, in milliseconds.  Time bounds are judged on CPU time: it never
/// exceeds the wall-clock time of a single-threaded computation, and it does not grow when the machine is busy.
pub fn thread_cpu_ms() -> u64 {
    let mut ts = libc::timespec { tv_sec: 0, tv_nsec: 0 };
    unsafe { libc::clock_gettime(libc::CLOCK_THREAD_CPUTIME_ID, &mut ts) };
    ts.tv_sec as u64 * 1000 + ts.tv_nsec as u64 / 1_000_000
}

/// CPU time (user + system, including waited-for children) of a live process, in milliseconds.
pub fn proc_cpu_ms(pid: u32) -> Option<u64> {
    let s = std::fs::read_to_string(format!("/proc/{pid}/stat")).ok()?;
    let rest = s.get(s.rfind(')')? + 2..)?;
    let f: Vec<&str> = rest.split_whitespace().collect();
    // `rest` starts at field 3 (state): utime, stime, cutime, cstime are fields 14..17
    let mut t = 0u64;
    for i in 11..=14 {
        t += f.get(i)?.parse::<u64>().ok()?;
    }
    let hz = unsafe { libc::sysconf(libc::_SC_CLK_TCK) }.max(1) as u64;
    Some(t * 1000 / hz)
}

/// CPU time of a live process and of its live descendants (three levels), in milliseconds.
pub fn proc_tree_cpu_ms(pid: u32) -> Option<u64> {
    fn rec(pid: u32, depth: u32) -> Option<u64> {
        let mut t = proc_cpu_ms(pid)?;
        if depth > 0 {
            if let Ok(tasks) = std::fs::read_dir(format!("/proc/{pid}/task")) {
                for task in tasks.flatten() {
                    if let Ok(kids) = std::fs::read_to_string(task.path().join("children")) {
                        for k in kids.split_whitespace().filter_map(|k| k.parse::<u32>().ok()) {
                            t += rec(k, depth - 1).unwrap_or(0);
                        }
                    }
                }
            }
        }
        Some(t)
    }
    rec(pid, 3)
}

/// CPU time of all children this process has waited for, in milliseconds.
/// the scheduler state of a process ('R' running or waiting for a CPU, 'S' / 'D' sleeping, 'Z' dead ..), '?' when unknown
pub fn proc_state(pid: u32) -> char {
    std::fs::read_to_string(format!("/proc/{pid}/stat"))
        .ok()
        .and_then(|s| s.rsplit(')').next().and_then(|rest| rest.trim_start().chars().next()))
        .unwrap_or('?')
}

/// how many processes want a CPU per CPU there is (1-minute load average / number of CPUs), at least 1
pub fn overload() -> u64 {
    let load = std::fs::read_to_string("/proc/loadavg").ok().and_then(|s| s.split_whitespace().next().and_then(|x| x.parse::<f64>().ok())).unwrap_or(1.0);
    let cpus = std::thread::available_parallelism().map(|n| n.get()).unwrap_or(1) as f64;
    (load / cpus).ceil().max(1.0) as u64
}

pub fn children_cpu_ms() -> u64 {
    let mut ru: libc::rusage = unsafe { std::mem::zeroed() };
    unsafe { libc::getrusage(libc::RUSAGE_CHILDREN, &mut ru) };
    let ms = |tv: libc::timeval| tv.tv_sec as u64 * 1000 + tv.tv_usec as u64 / 1000;
    ms(ru.ru_utime) + ms(ru.ru_stime)
}

pub fn seed_from_env() -> u64 {
    std::env::var("VERIF_SEED").ok().and_then(|s| s.parse().ok()).unwrap_or(1)
}

/// Appends one event to this process's trace file `$VERIF_WORK/events-<family>-<pid>.ndjson`; the runner concatenates
/// the files of all workers and hands them to the TLC trace specification.
pub fn emit_event(family: &str, ev: &Value) {
    use std::io::Write;
    use std::sync::Mutex;
    static FILE: Mutex<Option<std::fs::File>> = Mutex::new(None);
    let mut guard = FILE.lock().unwrap();
    if guard.is_none() {
        let dir = std::env::var("VERIF_WORK").unwrap_or_else(|_| ".".into());
        let path = format!("{dir}/events-{family}-{}.ndjson", std::process::id());
        *guard = std::fs::OpenOptions::new().create(true).append(true).open(path).ok();
    }
    if let Some(f) = guard.as_mut() {
        let _ = writeln!(f, "{ev}");
    }
}
