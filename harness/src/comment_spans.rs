// C09, doc comments: "the parts of a doc comment lie within that comment's lines", "an identifier's span covers exactly
// its spelling", "a diagnostic about a defect points into the text of the offending element" - checked on the compiled
// AST against the rendered text alone (rows and columns count characters from 1), for every comment of every family.

use serde_json::{json, Value};
use slicec::ast::node::Node;
use slicec::ast::Ast;
use slicec::grammar::*;
use slicec::slice_file::Span;

pub struct Text {
    /// per file: the lines (without line break / carriage return) as characters
    files: Vec<Vec<Vec<char>>>,
}

impl Text {
    pub fn new(texts: &[String]) -> Text {
        Text { files: texts.iter().map(|t| t.split('\n').map(|l| l.trim_end_matches('\r').chars().collect()).collect()).collect() }
    }
    fn file_index(span: &Span) -> Option<usize> {
        span.file.strip_prefix("string-").and_then(|x| x.parse().ok())
    }
    fn line(&self, f: usize, row: usize) -> Option<&Vec<char>> {
        self.files.get(f).and_then(|ls| ls.get(row.wrapping_sub(1)))
    }
    fn is_doc_line(l: &[char]) -> bool {
        let t: String = l.iter().collect();
        let t = t.trim_start();
        t.starts_with("///") && !t.starts_with("////")
    }
    /// the maximal run of doc comment lines around `row`
    fn block(&self, f: usize, row: usize) -> Option<(usize, usize)> {
        if !self.line(f, row).map(|l| Self::is_doc_line(l)).unwrap_or(false) {
            return None;
        }
        let (mut a, mut b) = (row, row);
        while a > 1 && self.line(f, a - 1).map(|l| Self::is_doc_line(l)).unwrap_or(false) {
            a -= 1;
        }
        while self.line(f, b + 1).map(|l| Self::is_doc_line(l)).unwrap_or(false) {
            b += 1;
        }
        Some((a, b))
    }
    /// start <= end, both positions on lines of the block, columns between 1 and one past the end of their line
    fn inside(&self, span: &Span, f: usize, block: (usize, usize)) -> bool {
        let (s, e) = (span.start, span.end);
        let ok = |p: slicec::slice_file::Location| {
            p.row >= block.0 && p.row <= block.1 && p.col >= 1 && self.line(f, p.row).map(|l| p.col <= l.len() + 1).unwrap_or(false)
        };
        Self::file_index(span) == Some(f) && (s.row, s.col) <= (e.row, e.col) && ok(s) && ok(e)
    }
    /// the text a single-line span covers
    fn under(&self, span: &Span) -> Option<String> {
        let f = Self::file_index(span)?;
        if span.start.row != span.end.row || span.start.col > span.end.col {
            return None;
        }
        let l = self.line(f, span.start.row)?;
        if span.end.col > l.len() + 1 || span.start.col < 1 {
            return None;
        }
        Some(l[span.start.col - 1..span.end.col - 1].iter().collect())
    }
    fn starts_with_at(&self, span: &Span, what: &str) -> bool {
        let Some(f) = Self::file_index(span) else { return false };
        let Some(l) = self.line(f, span.start.row) else { return false };
        if span.start.col < 1 || span.start.col > l.len() + 1 {
            return false;
        }
        let rest: String = l[span.start.col - 1..].iter().collect();
        rest.starts_with(what)
    }
}

fn sp(s: &Span) -> Value {
    json!([s.file, s.start.row, s.start.col, s.end.row, s.end.col])
}

fn bad(what: &str, owner: &str, span: &Span, extra: Value) -> Option<Value> {
    Some(json!({"kind": "mismatch", "what": what, "element": owner, "span": sp(span), "detail": extra}))
}

fn check_identifier(t: &Text, owner: &str, id: &Identifier) -> Option<Value> {
    match t.under(&id.span) {
        Some(s) if s == id.value => None,
        got => bad("span of an identifier written in a doc comment (exactly its spelling)", owner, &id.span, json!({"identifier": id.value, "covers": got})),
    }
}

fn check_message(t: &Text, owner: &str, m: &Message, f: usize, block: (usize, usize)) -> Option<Value> {
    if !t.inside(&m.span, f, block) {
        return bad("span of a doc comment message (within the comment's lines)", owner, &m.span, json!({"comment_rows": [block.0, block.1]}));
    }
    for c in &m.value {
        if let MessageComponent::Link(l) = c {
            if !t.inside(&l.span, f, block) {
                return bad("span of an inline link (within the comment's lines)", owner, &l.span, json!({"comment_rows": [block.0, block.1]}));
            }
            // the tag, with or without its braces
            let covers = t.under(&l.span).unwrap_or_default();
            let core = covers.strip_prefix('{').unwrap_or(&covers);
            let core = core.strip_suffix('}').unwrap_or(core);
            if !(core.starts_with("@link") && !core.contains('}') && !core.contains('{') && core["@link".len()..].trim() != "") {
                return bad("span of an inline link (exactly the tag)", owner, &l.span, json!({"covers": covers}));
            }
            if let Err(id) = l.linked_entity() {
                if let Some(x) = check_identifier(t, owner, id) {
                    return Some(x);
                }
            }
        }
    }
    None
}

fn check_comment(t: &Text, owner: &str, c: &DocComment) -> Option<Value> {
    let Some(f) = Text::file_index(&c.span) else {
        return bad("file of a doc comment", owner, &c.span, json!(null));
    };
    let Some(block) = t.block(f, c.span.start.row) else {
        return bad("a doc comment starts on a '///' line", owner, &c.span, json!(null));
    };
    if !t.inside(&c.span, f, block) {
        return bad("span of a doc comment (within the comment's lines)", owner, &c.span, json!({"comment_rows": [block.0, block.1]}));
    }
    // (where inside its first line the comment's own span starts is not fixed by the statement: the pinned tree starts it
    // three columns before the first token after '///', which is the first slash only when that token follows at once) -
    // but it starts in the comment, not in what stands on the line before the slashes
    let first_slash = t.line(f, c.span.start.row).and_then(|l| l.iter().position(|ch| *ch == '/')).map(|i| i + 1).unwrap_or(1);
    if c.span.start.col < first_slash {
        return bad("span of a doc comment (starts at or after its slashes)", owner, &c.span, json!({"slashes_at_col": first_slash}));
    }
    if let Some(m) = &c.overview {
        if let Some(x) = check_message(t, owner, m, f, block) {
            return Some(x);
        }
    }
    for p in &c.params {
        if !t.inside(&p.span, f, block) || !t.starts_with_at(&p.span, "@param") {
            return bad("span of a @param tag (starts at the tag, within the comment's lines)", owner, &p.span, json!(null));
        }
        if let Some(x) = check_identifier(t, owner, &p.identifier).or_else(|| check_message(t, owner, &p.message, f, block)) {
            return Some(x);
        }
    }
    for r in &c.returns {
        if !t.inside(&r.span, f, block) || !t.starts_with_at(&r.span, "@returns") {
            return bad("span of a @returns tag (starts at the tag, within the comment's lines)", owner, &r.span, json!(null));
        }
        if let Some(id) = &r.identifier {
            if let Some(x) = check_identifier(t, owner, id) {
                return Some(x);
            }
        }
        if let Some(x) = check_message(t, owner, &r.message, f, block) {
            return Some(x);
        }
    }
    for s in &c.see {
        if !t.inside(&s.span, f, block) || !t.starts_with_at(&s.span, "@see") {
            return bad("span of a @see tag (starts at the tag, within the comment's lines)", owner, &s.span, json!(null));
        }
        if let Err(id) = s.linked_entity() {
            if let Some(x) = check_identifier(t, owner, id) {
                return Some(x);
            }
        }
    }
    None
}

/// every doc comment of the AST, and every comment lint (code, span)
pub fn check(texts: &[String], ast: &Ast, lints: &[(String, Option<Span>)]) -> Option<Value> {
    let t = Text::new(texts);
    for node in ast.as_slice() {
        let c: Option<&dyn Commentable> = match node {
            Node::Struct(p) => Some(p.borrow()),
            Node::Field(p) => Some(p.borrow()),
            Node::Interface(p) => Some(p.borrow()),
            Node::Operation(p) => Some(p.borrow()),
            Node::Enum(p) => Some(p.borrow()),
            Node::Enumerator(p) => Some(p.borrow()),
            Node::CustomType(p) => Some(p.borrow()),
            Node::TypeAlias(p) => Some(p.borrow()),
            _ => None,
        };
        let Some(c) = c else { continue };
        if let Some(comment) = c.comment() {
            let owner = c.parser_scoped_identifier();
            if let Some(x) = check_comment(&t, &owner, comment) {
                return Some(x);
            }
            // the comment stands before the element it documents
            if Text::file_index(&comment.span) == Text::file_index(c.span()) && (comment.span.end.row, comment.span.end.col) > (c.span().start.row, c.span().start.col) {
                return bad("a doc comment ends before the declaration it documents", &owner, &comment.span, json!({"element": sp(c.span())}));
            }
        }
    }
    // a diagnostic about a comment points into a comment
    for (code, span) in lints {
        if !matches!(code.as_str(), "BrokenDocLink" | "IncorrectDocComment" | "MalformedDocComment") {
            continue;
        }
        let Some(span) = span else { continue };
        let Some(f) = Text::file_index(span) else { continue };
        let ok = t.block(f, span.start.row).map(|b| t.inside(span, f, b)).unwrap_or(false);
        if !ok {
            return bad("a comment lint points into the comment's lines", code, span, json!(null));
        }
    }
    None
}
