// C12: output targets and input sources, executed lock-step with the paths TLC enumerates from Buffers.tla / Sources.tla.
// Case: {"kind": "slice"|"vec", "cap": c, "ops": [{"op": "wb"|"w"|"r"|"wr", "k", "r", "ok", "len", "rem", "log": [..]}]}
//   or  {"kind": "source", "len": L, "ops": [{"op": "peek"|"read", "k", "ok", "bytes": [..], "rem"}]}

use crate::util::{hash_str, mismatch};
use crate::{Family, Outcome};
use serde_json::{json, Value};
use slice_codec::buffer::slice::{SliceInputSource, SliceOutputTarget};
use slice_codec::buffer::vec::VecOutputTarget;
use slice_codec::buffer::{InputSource, OutputTarget, Reservation};

#[derive(Default)]
pub struct Buffers;

const GUARD: usize = 16;
const GUARD_BYTE: u8 = 0xA5;

pub fn byte(step: usize, j: usize) -> u8 {
    ((31 * step + 7 * j) % 251) as u8
}
pub fn fill(i: usize) -> u8 {
    (255 - (i % 4)) as u8
}

/// A reservation made on another, longer fixed target: 3 bytes that start `beyond` bytes in - past the end of the target
/// it is then used on.
fn foreign_reservation(beyond: usize) -> Reservation {
    let mut donor = vec![0u8; beyond + 8];
    let mut t = SliceOutputTarget::from(donor.as_mut_slice());
    let _ = t.write_bytes_exact(&vec![0u8; beyond + 2]);
    t.reserve_space(3).expect("donor reservation")
}

/// Executes the operations of a path on any output target; returns the first disagreement with the expected outcomes.
fn drive<T: OutputTarget>(target: &mut T, ops: &[Value], fixed_cap: Option<usize>) -> Option<Value> {
    let mut resv: Vec<Reservation> = Vec::new();
    for (idx, op) in ops.iter().enumerate() {
        let step = idx + 1;
        let k = op["k"].as_u64().unwrap_or(0) as usize;
        let payload: Vec<u8> = (1..=k).map(|j| byte(step, j)).collect();
        let ok = match op["op"].as_str().unwrap_or("") {
            "wb" => target.write_byte(byte(step, 1)).is_ok(),
            "w" => target.write_bytes_exact(&payload).is_ok(),
            "r" => match target.reserve_space(k) {
                Ok(r) => {
                    resv.push(r);
                    true
                }
                Err(_) => false,
            },
            // a reservation no address space can hold: the largest size there is, or the smallest one for which
            // position + size no longer fits a machine word
            "rh" => {
                let written = op["len"].as_u64().unwrap_or(0) as usize;
                let count = if k == 0 || written == 0 { usize::MAX } else { usize::MAX - written + 1 };
                target.reserve_space(count).is_ok()
            }
            // through a reservation of another, longer target that lies beyond everything this one holds (or can hold)
            "wf" => {
                let beyond = fixed_cap.unwrap_or(op["len"].as_u64().unwrap_or(0) as usize + 64);
                target.write_bytes_into_reserved_exact(&mut foreign_reservation(beyond), &payload).is_ok()
            }
            "wr" => {
                let r = op["r"].as_u64().unwrap_or(0) as usize;
                match resv.get_mut(r - 1) {
                    Some(res) => target.write_bytes_into_reserved_exact(res, &payload).is_ok(),
                    None => return Some(json!({"kind": "harness", "what": "reservation index unknown", "step": step})),
                }
            }
            other => return Some(json!({"kind": "harness", "what": format!("unknown op {other}")})),
        };
        if Some(ok) != op["ok"].as_bool() {
            return Some(mismatch(&format!("result class of step {step}"), op["ok"].clone(), json!(ok)));
        }
        if let Some(cap) = fixed_cap {
            let want_rem = op["rem"].as_u64().unwrap_or(0) as usize;
            if target.remaining() != want_rem {
                return Some(mismatch(&format!("remaining() after step {step}"), json!(want_rem), json!(target.remaining())));
            }
            let _ = cap;
        }
    }
    None
}

fn expected_log(ops: &[Value]) -> Vec<u8> {
    ops.last()
        .and_then(|o| o["log"].as_array())
        .map(|a| a.iter().map(|b| b.as_u64().unwrap_or(0) as u8).collect())
        .unwrap_or_default()
}

fn run_slice(cap: usize, ops: &[Value]) -> Option<Value> {
    let mut arena = vec![GUARD_BYTE; cap + 2 * GUARD];
    for i in 0..cap {
        arena[GUARD + i] = fill(i + 1);
    }
    {
        let window: &mut [u8] = &mut arena[GUARD..GUARD + cap];
        let mut target = SliceOutputTarget::from(window);
        if let Some(f) = drive(&mut target, ops, Some(cap)) {
            return Some(f);
        }
    }
    let want = expected_log(ops);
    let got = &arena[GUARD..GUARD + want.len().min(cap)];
    if got != want.as_slice() {
        return Some(mismatch("contents of the slice up to the position", json!(want), json!(got)));
    }
    for i in want.len()..cap {
        if arena[GUARD + i] != fill(i + 1) {
            return Some(mismatch("byte beyond the position was modified", json!({"index": i, "byte": fill(i + 1)}), json!(arena[GUARD + i])));
        }
    }
    if arena[..GUARD].iter().chain(arena[GUARD + cap..].iter()).any(|b| *b != GUARD_BYTE) {
        return Some(json!({"kind": "mismatch", "what": "guard bytes around the slice were modified"}));
    }
    None
}

fn run_vec(ops: &[Value], dirty_spare: bool) -> Option<Value> {
    run_vec_with(ops, if dirty_spare { 64 } else { 0 })
}

/// spare: the vector starts empty with this much spare capacity, holding non-zero garbage (so that "reserved bytes are
/// zeroed" is observable); small values make writes and reservations straddle the end of the allocation
fn run_vec_with(ops: &[Value], spare: usize) -> Option<Value> {
    let mut v: Vec<u8> = Vec::new();
    if spare > 0 {
        v = Vec::with_capacity(spare);
        v.resize(spare, 0xEE);
        v.clear();
    }
    {
        let mut target = VecOutputTarget::from(&mut v);
        if let Some(f) = drive(&mut target, ops, None) {
            return Some(f);
        }
    }
    let want = expected_log(ops);
    if v != want {
        return Some(mismatch("contents of the Vec", json!(want), json!(v)));
    }
    None
}

fn read_n<const N: usize>(src: &mut SliceInputSource, consume: bool) -> Result<Vec<u8>, ()> {
    let r = if consume { src.read_bytes_exact::<N>() } else { src.peek_bytes_exact::<N>() };
    r.map(|a| a.to_vec()).map_err(|_| ())
}

fn source_op(src: &mut SliceInputSource, variant: usize, consume: bool, k: usize) -> Result<Vec<u8>, ()> {
    match variant {
        // slice-returning API
        0 => {
            let r = if consume { src.read_byte_slice_exact(k) } else { src.peek_byte_slice_exact(k) };
            r.map(|s| s.to_vec()).map_err(|_| ())
        }
        // const-generic API
        1 => match k {
            0 => read_n::<0>(src, consume),
            1 => read_n::<1>(src, consume),
            2 => read_n::<2>(src, consume),
            3 => read_n::<3>(src, consume),
            4 => read_n::<4>(src, consume),
            _ => Err(()),
        },
        // single-byte and copy-into API (variant 3: the copy-into API for every length, a destination of one byte or
        // of none included - seeded change C12-s13 sat in a fast path for `[single]`)
        _ => {
            if k == 1 && variant == 2 {
                let r = if consume { src.read_byte() } else { src.peek_byte() };
                r.map(|b| vec![b]).map_err(|_| ())
            } else if consume {
                let mut dst = vec![0x77u8; k + 2 * GUARD];
                let r = src.read_bytes_into_exact(&mut dst[GUARD..GUARD + k]);
                if dst[..GUARD].iter().chain(dst[GUARD + k..].iter()).any(|b| *b != 0x77) {
                    return Ok(vec![0xFF; k + 1]); // wrote outside the destination: reported as a wrong result
                }
                r.map(|_| dst[GUARD..GUARD + k].to_vec()).map_err(|_| ())
            } else {
                src.peek_byte_slice_exact(k).map(|s| s.to_vec()).map_err(|_| ())
            }
        }
    }
}

fn run_source(len: usize, ops: &[Value]) -> Option<Value> {
    // the logical buffer sits inside a larger allocation whose other bytes are poison
    let mut arena = vec![0x5Au8; len + 2 * GUARD];
    for i in 0..len {
        arena[GUARD + i] = (100 + i + 1) as u8;
    }
    for variant in 0..4 {
        let window: &[u8] = &arena[GUARD..GUARD + len];
        let mut src = SliceInputSource::from(window);
        for (idx, op) in ops.iter().enumerate() {
            let k = op["k"].as_u64().unwrap_or(0) as usize;
            let consume = op["op"] == "read";
            let got = source_op(&mut src, variant, consume, k);
            let want_ok = op["ok"].as_bool().unwrap_or(false);
            let what = format!("variant {variant} step {}", idx + 1);
            match got {
                Ok(bytes) => {
                    let want: Vec<u8> = op["bytes"].as_array().map(|a| a.iter().map(|b| b.as_u64().unwrap_or(0) as u8).collect()).unwrap_or_default();
                    if !want_ok || bytes != want {
                        return Some(mismatch(&format!("{what}: bytes"), op.clone(), json!(bytes)));
                    }
                }
                Err(()) => {
                    if want_ok {
                        return Some(mismatch(&format!("{what}: result class"), op.clone(), json!("error")));
                    }
                }
            }
            let want_rem = op["rem"].as_u64().unwrap_or(0) as usize;
            if src.remaining() != want_rem {
                return Some(mismatch(&format!("{what}: remaining()"), json!(want_rem), json!(src.remaining())));
            }
        }
    }
    None
}

impl Family for Buffers {
    fn run(&mut self, case: &Value) -> Outcome {
        let ops = case["ops"].as_array().cloned().unwrap_or_default();
        let kind = case["kind"].as_str().unwrap_or("");
        let shape: String = ops.iter().map(|o| format!("{}{}{}/", o["op"].as_str().unwrap_or("?"), o["k"], o["r"])).collect();
        let key = hash_str(&format!("{kind}{}{}{shape}", case["cap"], case["len"]));
        let rendered = json!({"kind": kind, "cap": case["cap"], "len": case["len"], "ops": shape});
        let fail = match kind {
            "slice" => run_slice(case["cap"].as_u64().unwrap_or(0) as usize, &ops),
            "vec" => run_vec(&ops, false).or_else(|| run_vec(&ops, true)).or_else(|| [1usize, 2, 3, 5].iter().find_map(|c| run_vec_with(&ops, *c))),
            "source" => run_source(case["len"].as_u64().unwrap_or(0) as usize, &ops),
            _ => Some(json!({"kind": "harness", "what": "unknown kind"})),
        };
        // non-trivial: a failing operation, a write into a reservation, or a peek followed by anything
        let nontrivial = ops.iter().any(|o| o["ok"] == false || o["op"] == "wr" || o["op"] == "peek") && ops.len() >= 2;
        Outcome { fail, nontrivial, key, rendered }
    }
}

// ---------------------------------------------------------------------------------------------------------------------
// (T) recorded random histories for Trace_Buffers.

pub fn record(histories: u64, max_len: u64) {
    use std::io::Write;
    let mut rng = crate::util::Rng::new(crate::util::seed_from_env() ^ 0xC12);
    let out = std::io::stdout();
    let mut out = std::io::BufWriter::new(out.lock());
    for h in 0..histories {
        let slice_kind = h % 2 == 0;
        let cap = if slice_kind { *rng.pick(&[0usize, 1, 7, 64, 300, 5000, 8192]) } else { 0 };
        let _ = writeln!(out, "{}", json!({"ev": "reset", "kind": if slice_kind { "slice" } else { "vec" }, "cap": cap}));
        let len = 1 + rng.below(max_len) as usize;
        // choose the operations up front (they do not depend on outcomes, except reservation indices)
        let mut arena = vec![GUARD_BYTE; cap + 2 * GUARD];
        for i in 0..cap {
            arena[GUARD + i] = fill(i + 1);
        }
        let mut v: Vec<u8> = vec![0xEE; 128];
        v.clear();
        let mut nres = 0usize;
        let mut resv: Vec<Reservation> = Vec::new();
        let pick_k = |rng: &mut crate::util::Rng| -> usize {
            match rng.below(20) {
                0 => 4096,
                1 => 1000 + rng.below(3000) as usize,
                2..=5 => rng.below(300) as usize,
                _ => rng.below(9) as usize,
            }
        };
        let mut events: Vec<Value> = Vec::new();
        {
            let window: &mut [u8] = &mut arena[GUARD..GUARD + cap];
            let mut st = SliceOutputTarget::from(window);
            for step in 1..=len {
                let choice = rng.below(10);
                let (op, k, r) = if rng.chance(1, 25) {
                    ("rh", rng.below(2) as usize, 0usize)
                } else if rng.chance(1, 25) {
                    ("wf", rng.below(2) as usize, 0usize)
                } else if choice < 2 {
                    ("wb", 1usize, 0usize)
                } else if choice < 5 {
                    ("w", pick_k(&mut rng), 0)
                } else if choice < 7 || nres == 0 {
                    ("r", pick_k(&mut rng), 0)
                } else {
                    ("wr", if rng.chance(1, 4) { pick_k(&mut rng) } else { rng.below(6) as usize }, 1 + rng.below(nres as u64) as usize)
                };
                let payload: Vec<u8> = if op == "rh" { vec![] } else { (1..=k).map(|j| byte(step, j)).collect() };
                let huge = |written: usize| if k == 0 || written == 0 { usize::MAX } else { usize::MAX - written + 1 };
                let ev;
                if slice_kind {
                    let ok = match op {
                        "rh" => st.reserve_space(huge(cap - st.remaining())).is_ok(),
                        "wf" => st.write_bytes_into_reserved_exact(&mut foreign_reservation(cap), &payload).is_ok(),
                        "wb" => st.write_byte(byte(step, 1)).is_ok(),
                        "w" => st.write_bytes_exact(&payload).is_ok(),
                        "r" => st.reserve_space(k).map(|x| resv.push(x)).is_ok(),
                        _ => st.write_bytes_into_reserved_exact(&mut resv[r - 1], &payload).is_ok(),
                    };
                    ev = json!({"ev": "op", "op": op, "k": k, "r": r, "ok": ok, "len": -1, "rem": st.remaining(), "probes": []});
                } else {
                    let ok = {
                        let vlen = v.len();
                        let mut vt = VecOutputTarget::from(&mut v);
                        match op {
                            "rh" => vt.reserve_space(huge(vlen)).is_ok(),
                            "wf" => vt.write_bytes_into_reserved_exact(&mut foreign_reservation(vlen + 64), &payload).is_ok(),
                            "wb" => vt.write_byte(byte(step, 1)).is_ok(),
                            "w" => vt.write_bytes_exact(&payload).is_ok(),
                            "r" => vt.reserve_space(k).map(|x| resv.push(x)).is_ok(),
                            _ => vt.write_bytes_into_reserved_exact(&mut resv[r - 1], &payload).is_ok(),
                        }
                    };
                    let mut probes = Vec::new();
                    if !v.is_empty() {
                        for _ in 0..6 {
                            let i = rng.below(v.len() as u64) as usize;
                            probes.push(json!([i + 1, v[i]]));
                        }
                        probes.push(json!([v.len(), v[v.len() - 1]]));
                    }
                    ev = json!({"ev": "op", "op": op, "k": k, "r": r, "ok": ok, "len": v.len(), "rem": -1, "probes": probes});
                }
                if op == "r" && ev["ok"] == true {
                    nres += 1;
                }
                events.push(ev);
            }
            if slice_kind {
                let rem = st.remaining();
                drop(st);
                for e in &events {
                    let _ = writeln!(out, "{e}");
                }
                let pos = cap - rem;
                let _ = writeln!(out, "{}", json!({"ev": "end", "contents": &arena[GUARD..GUARD + pos]}));
                continue;
            }
        }
        for e in &events {
            let _ = writeln!(out, "{e}");
        }
        let _ = writeln!(out, "{}", json!({"ev": "end", "contents": v}));
    }
}
