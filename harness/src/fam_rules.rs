// C04: items printed by MC_Rules are rendered from one template per family and compiled; the oracle is the property's
// containment: accepted <=> no rule violated; if rejected, the reported error codes are a non-empty subset of the codes
// that belong to the violated rules.  case: {"fam", "item", "violations": [codes]}

use crate::util::{hash_str, mismatch, strs};
use crate::{Family, Outcome};
use serde_json::{json, Value};
use slicec::diagnostics::DiagnosticLevel;

#[derive(Default)]
pub struct Rules;

fn tag_text(t: &str) -> &'static str {
    match t {
        "zero" => "tag(0) ",
        "one" => "tag(1) ",
        "i32max" => "tag(2147483647) ",
        "i32max1" => "tag(2147483648) ",
        "m1" => "tag(-1) ",
        "huge" => "tag(340282366920938463463374607431768211456) ",
        _ => "",
    }
}

fn bounds(u: &str) -> (i128, i128) {
    match u {
        "int8" => (i8::MIN as i128, i8::MAX as i128),
        "uint8" | "optuint8" | "aliasuint8" => (0, u8::MAX as i128),
        "int16" => (i16::MIN as i128, i16::MAX as i128),
        "uint16" => (0, u16::MAX as i128),
        "int32" | "varint32" => (i32::MIN as i128, i32::MAX as i128),
        "uint32" | "varuint32" => (0, u32::MAX as i128),
        "int64" => (i64::MIN as i128, i64::MAX as i128),
        "uint64" => (0, u64::MAX as i128),
        "varint62" => (-(1i128 << 61), (1i128 << 61) - 1),
        "varuint62" => (0, (1i128 << 62) - 1),
        "none" => (0, i32::MAX as i128),
        _ => (0, 1000), // no range: bool / float / string
    }
}

fn render_members(it: &Value) -> Vec<String> {
    let ms = it["ms"].as_array().cloned().unwrap_or_default();
    let body: Vec<String> = ms
        .iter()
        .enumerate()
        .map(|(i, m)| {
            let name = if m["dup"] == true && i > 0 { "m1".to_owned() } else { format!("m{}", i + 1) };
            format!("{}{}: int32{}", tag_text(m["tag"].as_str().unwrap_or("none")), name, if m["opt"] == true { "?" } else { "" })
        })
        .collect();
    let b = body.join(", ");
    let def = match it["c"].as_str().unwrap_or("struct") {
        "struct" => format!("struct S {{ {b} }}"),
        "cstruct" => format!("compact struct S {{ {b} }}"),
        "enf" => format!("enum E {{ A({b}) }}"),
        "cenf" => format!("compact enum E {{ A({b}) }}"),
        "params" => format!("interface I {{ op({b}) }}"),
        _ => format!("interface I {{ op() -> ({b}) }}"),
    };
    vec![format!("module M\n{def}\n")]
}

fn render_enum(it: &Value) -> Vec<String> {
    let u = it["u"].as_str().unwrap_or("none");
    let (min, max) = bounds(u);
    let under = match u {
        "none" => String::new(),
        "optuint8" => " : uint8?".into(),
        "aliasuint8" => " : MyByte".into(),
        p => format!(" : {p}"),
    };
    let kw = match it["mod"].as_str().unwrap_or("checked") {
        "unchecked" => "unchecked enum",
        "compact" => "compact enum",
        "compactunchecked" => "compact unchecked enum",
        _ => "enum",
    };
    let mut values: Vec<i128> = Vec::new();
    let mut ens: Vec<String> = Vec::new();
    for (i, v) in strs(&it["vals"]).iter().enumerate() {
        let prev = values.last().copied();
        if v == "huge" {
            // a literal beyond 128 bits: it has no value; what follows implicitly is counted from the previous value
            let fields = if i == 0 && it["fields"] == true { "(a: int32)" } else { "" };
            ens.push(format!("N{}{} = 340282366920938463463374607431768211456", i + 1, fields));
            continue;
        }
        let (val, explicit) = match v.as_str() {
            "implicit" => (prev.map(|p| p + 1).unwrap_or(0), false),
            "min1" => (min - 1, true),
            "min" => (min, true),
            "max" => (max, true),
            "max1" => (max + 1, true),
            "zero" => (0, true),
            "one" => (1, true),
            "two" => (2, true),
            _ => (values.first().copied().unwrap_or(0), true),
        };
        values.push(val);
        let fields = if i == 0 && it["fields"] == true { "(a: int32)" } else { "" };
        ens.push(if explicit { format!("N{}{} = {}", i + 1, fields, val) } else { format!("N{}{}", i + 1, fields) });
    }
    // enumerator values are per enum: a well-formed enum that ends at the largest value of the same range comes first
    let before = match u {
        "none" | "optuint8" | "aliasuint8" | "bool" | "float32" | "float64" | "string" => format!("unchecked enum Before {{ W = {} }}", bounds("none").1),
        p => format!("unchecked enum Before : {p} {{ W = {max} }}"),
    };
    vec![format!("module M\ntypealias MyByte = uint8\n{before}\n{kw} E{under} {{ {} }}\n", ens.join(", "))]
}

const KEY_PRELUDE: &str = "module M\ncompact struct CsOk { a: int32, b: string }\ncompact struct CsBad { a: float64 }\ncompact struct CsNestedBad { a: CsBad }\n\
compact struct CsNestedOk { a: CsOk }\nstruct S { a: int32 }\nenum EU : uint8 { A }\nenum EN { A }\ncustom Cu\ntypealias AliasInt = int32\n\
typealias AliasSeq = Sequence<int32>\ntypealias AliasS = S\ntypealias AliasCs = CsOk\ncompact struct CsOptField { a: int32, b: string? }\n\
compact struct CsSeqField { a: Sequence<int32> }\ncompact struct CsEnumField { a: EU, b: Cu }\n";

fn render_key(it: &Value) -> Vec<String> {
    let k = &it["key"];
    let base = match (k["f"].as_str().unwrap_or(""), k["n"].as_str().unwrap_or("")) {
        ("prim", n) => n.to_owned(),
        ("named", n) => match n {
            "cs_ok" => "CsOk",
            "cs_bad" => "CsBad",
            "cs_nested_bad" => "CsNestedBad",
            "cs_nested_ok" => "CsNestedOk",
            "cs_optfield" => "CsOptField",
            "cs_seqfield" => "CsSeqField",
            "cs_enumfield" => "CsEnumField",
            "s" => "S",
            "e_u" => "EU",
            "e_n" => "EN",
            "custom" => "Cu",
            "alias_int" => "AliasInt",
            "alias_seq" => "AliasSeq",
            "alias_s" => "AliasS",
            _ => "AliasCs",
        }
        .to_owned(),
        ("seq", _) => "Sequence<int32>".into(),
        ("dict", _) => "Dictionary<int32, int32>".into(),
        _ => "Result<int32, int32>".into(),
    };
    let key = format!("{base}{}", if k["opt"] == true { "?" } else { "" });
    let d = format!("Dictionary<{key}, bool>");
    let user = match it["at"].as_str().unwrap_or("field") {
        "field" => format!("struct U {{ f: {d} }}"),
        "nested" => format!("struct U {{ f: Dictionary<string, {d}> }}"),
        "elem" => format!("struct U {{ f: Sequence<{d}> }}"),
        "param" => format!("interface I {{ op(p: {d}) }}"),
        "enfield" => format!("enum U {{ A, B(tag(1) f: Sequence<{d}>?), C }}"),
        "retmember" => format!("interface I {{ op() -> (a: bool, b: {d}) }}"),
        _ => format!("typealias U = {d}"),
    };
    vec![format!("{KEY_PRELUDE}{user}\n")]
}

fn render_stream(it: &Value) -> Vec<String> {
    let flags = |v: &Value, prefix: &str| -> String {
        v.as_array()
            .cloned()
            .unwrap_or_default()
            .iter()
            .enumerate()
            .map(|(i, s)| format!("{prefix}{}: {}int32", i + 1, if *s == true { "stream " } else { "" }))
            .collect::<Vec<_>>()
            .join(", ")
    };
    let ret = match it["ret"].as_str().unwrap_or("none") {
        "single" => " -> int32".to_owned(),
        "singlestream" => " -> stream int32".to_owned(),
        "tuple" => format!(" -> ({})", flags(&it["flags"], "r")),
        _ => String::new(),
    };
    vec![format!("module M\ninterface I {{ op({}){ret} }}\n", flags(&it["params"], "p"))]
}

fn render_names(it: &Value) -> Vec<String> {
    let dup = it["dup"] == true;
    let x = |a: &str, b: &str| if dup { a.to_owned() } else { b.to_owned() };
    match it["scope"].as_str().unwrap_or("clean") {
        "fields" => vec![format!("module M\nstruct S {{ a: int32, {}: bool }}\n", x("a", "b"))],
        "params" => vec![format!("module M\ninterface I {{ op(a: int32, {}: bool) }}\n", x("a", "b"))],
        "rets" => vec![format!("module M\ninterface I {{ op() -> (a: int32, {}: bool) }}\n", x("a", "b"))],
        "enumerators" => vec![format!("module M\nenum E {{ A, {} }}\n", x("A", "B"))],
        "enfields" => vec![format!("module M\nenum E {{ A(x: int32, {}: bool), B }}\n", x("x", "y"))],
        "ops" => vec![format!("module M\ninterface I {{ op()\n {}() }}\n", x("op", "op2"))],
        "defs" => vec![format!("module M\nstruct S {{}}\nenum {} {{ A }}\n", x("S", "T"))],
        "defs2files" => vec!["module M\nstruct S {}\n".to_owned(), format!("module M\ncustom {}\n", x("S", "T"))],
        "defs_diffmod" => vec!["module M\nstruct S {}\n".to_owned(), format!("module N\nstruct {} {{}}\n", x("S", "T"))],
        "inherited" => vec![format!("module M\ninterface B {{ op() }}\ninterface D : B {{ {}() }}\n", x("op", "op2"))],
        "inherited_chain" => vec![format!("module M\ninterface B {{ op() }}\ninterface Mid : B {{ other() }}\ninterface D : Mid {{ {}() }}\n", x("op", "op2"))],
        "inherited_diamond" => vec![format!(
            "module M\ninterface B {{ op() }}\ninterface L : B {{ l() }}\ninterface R : B {{ r() }}\ninterface D : L, R {{ {}() }}\n",
            x("op", "op2")
        )],
        "param_vs_ret" => vec![format!("module M\ninterface I {{ op(a: int32) -> ({}: int32, b: bool) }}\n", x("a", "c"))],
        "aliasopt" => vec![format!("module M\ntypealias X = Sequence<int32>{}\n", x("?", ""))],
        "nomodule" => vec![if dup { "struct S {}\n".to_owned() } else { "module M\nstruct S {}\n".to_owned() }],
        "defbeforemodule" => vec![if dup { "struct S {}\nmodule M\n".to_owned() } else { "module M\nstruct S {}\n".to_owned() }],
        _ => vec!["module M\nstruct S { a: int32 }\n".to_owned()],
    }
}

fn attr_text(a: &str, args: &str) -> String {
    let name = match a {
        "unknown" => "foo",
        "foreign" => "cs::foo",
        n => n,
    };
    let list: Option<Vec<&str>> = match (a, args) {
        (_, "none") => None,
        (_, "empty_parens") => Some(vec![]),
        ("allow", "valid1") => Some(vec!["Deprecated"]),
        ("allow", "valid2") => Some(vec!["Deprecated", "BrokenDocLink"]),
        ("allow", "invalid") => Some(vec!["Bogus"]),
        ("allow", "casewrong") => Some(vec!["deprecated"]),
        ("deprecated", "valid2") => Some(vec!["\"r\"", "\"s\""]),
        ("deprecated", _) => Some(vec!["\"some reason\""]),
        ("compress", "valid1") | ("slicedFormat", "valid1") => Some(vec!["Args"]),
        ("compress", "valid2") | ("slicedFormat", "valid2") => Some(vec!["Args", "Return"]),
        ("compress", "casewrong") | ("slicedFormat", "casewrong") => Some(vec!["args"]),
        (_, "dupfile") => Some(vec!["DuplicateFile"]),
        (_, "valid2") => Some(vec!["x", "y"]),
        (_, "invalid") => Some(vec!["Bogus"]),
        (_, "casewrong") => Some(vec!["bogus"]),
        _ => Some(vec!["x"]),
    };
    match list {
        None => name.to_owned(),
        Some(l) => format!("{name}({})", l.join(", ")),
    }
}

fn render_attr(it: &Value) -> Vec<String> {
    let one = attr_text(it["a"].as_str().unwrap_or("allow"), it["args"].as_str().unwrap_or("none"));
    place_attr(&one, it["twice"] == true, it["on"].as_str().unwrap_or("struct"))
}

/// MC_AttrArgs: an explicit argument list, bare words where possible (or string literals throughout)
fn render_attrargs(it: &Value) -> Vec<String> {
    let quoted = it["quoted"] == true;
    let args: Vec<String> = strs(&it["args"]).iter().map(|a| if quoted || !a.chars().all(|c| c.is_ascii_alphanumeric()) { format!("\"{a}\"") } else { a.clone() }).collect();
    let dir = it["dir"].as_str().unwrap_or("allow");
    let one = if it["parens"] == true { format!("{dir}({})", args.join(", ")) } else { dir.to_owned() };
    place_attr(&one, false, it["on"].as_str().unwrap_or("struct"))
}

/// the attributes the compiled AST shows on the element the attribute was written on
fn attrs_on(state: &slicec::compilation_state::CompilationState, on: &str) -> Option<Value> {
    use slicec::grammar::*;
    let ast = &state.ast;
    Some(match on {
        "struct" => crate::ast_project::attrs(ast.find_element::<Struct>("M::S").ok()?.attributes()),
        "field" => crate::ast_project::attrs(ast.find_element::<Field>("M::S::f").ok()?.attributes()),
        "enumerator" => crate::ast_project::attrs(ast.find_element::<Enumerator>("M::E::A").ok()?.attributes()),
        _ => crate::ast_project::attrs(ast.find_element::<Operation>("M::I::op").ok()?.attributes()),
    })
}

fn place_attr(one: &str, twice: bool, on: &str) -> Vec<String> {
    let a = if on == "file" || on == "fileonly" {
        if twice { format!("[[{one}]] [[{one}]]") } else { format!("[[{one}]]") }
    } else if twice {
        format!("[{one}] [{one}]")
    } else {
        format!("[{one}]")
    };
    let text = match on {
        "file" => format!("{a}\nmodule M\nstruct S {{ f: int32 }}\n"),
        "fileonly" => format!("{a}\n"),
        "module" => format!("{a} module M\nstruct S {{ f: int32 }}\n"),
        "struct" => format!("module M\n{a} struct S {{ f: int32 }}\n"),
        "field" => format!("module M\nstruct S {{ {a} f: int32 }}\n"),
        "interface" => format!("module M\n{a} interface I {{ op() }}\n"),
        "operation" => format!("module M\ninterface I {{ {a} op(p: int32) }}\n"),
        "operation_ret" => format!("module M\ninterface I {{ {a} op(p: int32) -> bool }}\n"),
        "operation_streamparam" => format!("module M\ninterface I {{ {a} op(p: int32, q: stream uint8) }}\n"),
        "operation_retstream" => format!("module M\ninterface I {{ {a} op(p: int32) -> stream uint8 }}\n"),
        "operation_rettuple" => format!("module M\ninterface I {{ {a} op() -> (r1: int32, r2: bool) }}\n"),
        "operation_rettuplestream" => format!("module M\ninterface I {{ {a} op() -> (r1: int32, r2: stream bool) }}\n"),
        "cstruct" => format!("module M\n{a} compact struct S {{ f: int32 }}\n"),
        "cenum" => format!("module M\n{a} compact enum E {{ A(x: int32), B }}\n"),
        "parameter" => format!("module M\ninterface I {{ op({a} p: int32) }}\n"),
        "retmember" => format!("module M\ninterface I {{ op() -> ({a} r1: int32, r2: bool) }}\n"),
        "enum" => format!("module M\n{a} enum E {{ A }}\n"),
        "enumerator" => format!("module M\nenum E {{ {a} A, B }}\n"),
        "custom" => format!("module M\n{a} custom C\n"),
        "alias" => format!("module M\n{a} typealias L = int32\n"),
        "typeref" => format!("module M\nstruct S {{ f: {a} int32 }}\n"),
        "typeref_enfield" => format!("module M\nenum E {{ A(x: {a} int32), B }}\n"),
        "typeref_param" => format!("module M\ninterface I {{ op(p: {a} int32) }}\n"),
        "typeref_ret" => format!("module M\ninterface I {{ op() -> {a} int32 }}\n"),
        "typeref_elem" => format!("module M\nstruct S {{ f: Sequence<{a} int32> }}\n"),
        "base" => format!("module M\ninterface B {{}}\ninterface D : {a} B {{}}\n"),
        "underlying" => format!("module M\nenum E : {a} uint8 {{ A }}\n"),
        _ => format!("module M\nenum E {{ A({a} x: int32), B }}\n"),
    };
    vec![text]
}

/// MC_Inherit: interface k is `Ik`, one per line, in module M; layouts: declaration order, reverse order, odd / even
/// interfaces in two files.  Returns the files and, per file, the interface number declared on each row (0 = none).
fn render_inherit(it: &Value) -> (Vec<String>, Vec<Vec<usize>>) {
    let ifs = it["ifs"].as_array().cloned().unwrap_or_default();
    let line = |k: usize| -> String {
        let i = &ifs[k - 1];
        let bases: Vec<String> = i["bases"].as_array().cloned().unwrap_or_default().iter().map(|b| format!("I{}", b.as_u64().unwrap_or(0))).collect();
        let ops: Vec<String> = strs(&i["ops"]).iter().map(|o| format!("{o}()")).collect();
        format!("interface I{k}{}{} {{ {} }}", if bases.is_empty() { "" } else { " : " }, bases.join(", "), ops.join(" "))
    };
    let n = ifs.len();
    let groups: Vec<Vec<usize>> = match it["lay"].as_str().unwrap_or("fwd") {
        "rev" => vec![(1..=n).rev().collect()],
        "split" => vec![(1..=n).filter(|k| k % 2 == 1).collect(), (1..=n).filter(|k| k % 2 == 0).collect()],
        _ => vec![(1..=n).collect()],
    };
    let mut files = Vec::new();
    let mut rows = Vec::new();
    for g in groups {
        let mut text = String::from("module M\n");
        let mut r = vec![0, 0]; // row 0 does not exist, row 1 is the module line
        for k in g {
            text.push_str(&line(k));
            text.push('\n');
            r.push(k);
        }
        files.push(text);
        rows.push(r);
    }
    (files, rows)
}

/// what the library says about the hierarchy of an accepted MC_Inherit program, compared with the model's closure
fn check_inherit(case: &Value, state: &slicec::compilation_state::CompilationState) -> Option<Value> {
    use slicec::grammar::{Interface, NamedSymbol, ScopedSymbol};
    let n = case["item"]["ifs"].as_array().map(|a| a.len()).unwrap_or(0);
    let num = |id: &str| -> u64 { id.rsplit("::I").next().and_then(|x| x.parse().ok()).unwrap_or(0) };
    for k in 1..=n {
        let Ok(i) = state.ast.find_element::<Interface>(&format!("M::I{k}")) else {
            return Some(json!({"kind": "mismatch", "what": "an interface cannot be retrieved by its scoped name", "interface": k}));
        };
        let mut bases: Vec<u64> = i.all_base_interfaces().iter().map(|b| num(&b.parser_scoped_identifier())).collect();
        let nb = bases.len();
        bases.sort();
        bases.dedup();
        let mut want: Vec<u64> = case["anc"][k - 1].as_array().cloned().unwrap_or_default().iter().filter_map(|x| x.as_u64()).collect();
        want.sort();
        if bases != want || nb != want.len() {
            return Some(mismatch("base interfaces (transitive closure, each once)", json!({"interface": k, "bases": want}), json!({"bases": bases, "listed": nb})));
        }
        let mut inh: Vec<(u64, String)> = i
            .all_inherited_operations()
            .iter()
            .map(|o| (num(&o.parser_scope().to_owned()), o.identifier().to_owned()))
            .collect();
        let ni = inh.len();
        inh.sort();
        inh.dedup();
        let mut want_ops: Vec<(u64, String)> = case["inherited"][k - 1]
            .as_array()
            .cloned()
            .unwrap_or_default()
            .iter()
            .map(|p| (p[0].as_u64().unwrap_or(0), p[1].as_str().unwrap_or("").to_owned()))
            .collect();
        want_ops.sort();
        if inh != want_ops || ni != want_ops.len() {
            return Some(mismatch("inherited operations (every operation of every ancestor, each once)", json!({"interface": k, "ops": want_ops}), json!({"ops": inh, "listed": ni})));
        }
        let own = i.operations().len();
        if i.all_operations().len() != own + want_ops.len() {
            return Some(mismatch("all operations = own + inherited", json!(own + want_ops.len()), json!(i.all_operations().len())));
        }
    }
    None
}

/// the program of a case of MC_Rules
pub fn render(case: &Value) -> Option<Vec<String>> {
    let it = &case["item"];
    Some(match case["fam"].as_str().unwrap_or("") {
        "members" => render_members(it),
        "enums" | "enumorder" => render_enum(it),
        "keys" => render_key(it),
        "stream" => render_stream(it),
        "names" => render_names(it),
        "attrs" => render_attr(it),
        "attrargs" => render_attrargs(it),
        "inherit" => render_inherit(it).0,
        // MC_Syntax_inject: a generated program with one injected violation, printed token by token
        "inject" => case["files"].as_array().cloned().unwrap_or_default().iter().map(|f| crate::fam_syntax::render_file(&f["out"])).collect(),
        "attrlists" => {
            let list: Vec<String> = strs(&it["as"]).iter().map(|a| format!("[{}]", attr_text(a, "valid1"))).collect();
            vec![format!("module M\ninterface I {{ {} op(p: int32) -> bool }}\n", list.join(" "))]
        }
        _ => return None,
    })
}

/// MC_RetSpans: the span of a single return value / of a parameter in every form, from the text alone
fn run_ret_span(case: &Value) -> Outcome {
    use slicec::grammar::*;
    let gap = match case["gap"].as_str().unwrap_or("sp") {
        "sp2" => "  ",
        "nl" => "\n      ",
        "bc" => " /* c */ ",
        _ => " ",
    };
    let toks = strs(&case["tokens"]);
    let is_ret = case["what"] == "return";
    // "p" ":" are written together ('p:'), the other tokens are separated by the gap
    let mut element = String::new();
    for (i, t) in toks.iter().enumerate() {
        if i > 0 && t != ":" {
            element.push_str(gap);
        }
        element.push_str(t);
    }
    let head = if is_ret { format!("module M\nstruct S {{}}\ninterface I {{\n  op() ->{gap}") } else { format!("module M\nstruct S {{}}\ninterface I {{\n  op({gap}") };
    let text = format!("{head}{element}{}\n}}\n", if is_ret { "" } else { ")" });
    let pos_of = |offset: usize| -> (usize, usize) {
        let before: Vec<char> = text.chars().take(offset).collect();
        let row = before.iter().filter(|c| **c == '\n').count() + 1;
        let col = before.iter().rev().take_while(|c| **c != '\n').count() + 1;
        (row, col)
    };
    let start = head.chars().count();
    let want = (pos_of(start), pos_of(start + element.chars().count()));
    let rendered = json!({"files": [text]});
    let key = hash_str(&text);
    let state = slicec::compile_from_strings(&[&text], None);
    let got = state.ast.find_element::<Operation>("M::I::op").ok().and_then(|op| {
        let m = if is_ret { op.return_members().first().map(|r| r.span().clone()) } else { op.parameters().first().map(|p| p.span().clone()) };
        m.map(|s| ((s.start.row, s.start.col), (s.end.row, s.end.col)))
    });
    let fail = if state.diagnostics.has_errors() {
        Some(json!({"kind": "harness", "what": "the template is rejected"}))
    } else if got != Some(want) {
        Some(mismatch("span of the return value / parameter (first token of its declaration proper .. end of its type)", json!(want), json!(got)))
    } else {
        None
    };
    Outcome { fail, nontrivial: toks.len() > 1, key, rendered }
}

impl Family for Rules {
    fn run(&mut self, case: &Value) -> Outcome {
        if case["retspan"] == true {
            return run_ret_span(case);
        }
        let texts = render(case).unwrap_or_default();
        let refs: Vec<&str> = texts.iter().map(|s| s.as_str()).collect();
        let rendered = json!({"files": texts});
        let key = hash_str(&rendered.to_string());
        let state = slicec::compile_from_strings(&refs, None);
        let nrows: Vec<usize> = texts.iter().map(|t| t.lines().count() + 1).collect();
        let is_inherit = case["fam"] == "inherit";
        let mut structural = if is_inherit && !state.diagnostics.has_errors() { check_inherit(case, &state) } else { None };
        if case["fam"] == "attrargs" && !state.diagnostics.has_errors() {
            // C02: the element carries exactly the attribute that was written, in the form its argument list means
            let want = json!([{"d": case["item"]["dir"], "args": case["form"]}]);
            let got = attrs_on(&state, case["item"]["on"].as_str().unwrap_or(""));
            if got.as_ref() != Some(&want) {
                structural = Some(mismatch("the attribute the AST shows on the element (directive and the form its written argument list means)", want, json!(got)));
            }
        }
        let diags = state.into_diagnostics(&Default::default());
        let errors: Vec<&slicec::diagnostics::Diagnostic> = diags.iter().filter(|d| d.level() == DiagnosticLevel::Error).collect();
        let mut codes: Vec<String> = errors.iter().map(|d| d.code().to_owned()).collect();
        codes.sort();
        codes.dedup();
        let mut want = strs(&case["violations"]);
        want.sort();
        let fail = (|| {
            if structural.is_some() {
                return structural.clone();
            }
            if is_inherit {
                // an E011 points at an operation that the model says redeclares an inherited one
                let (_, rows) = render_inherit(&case["item"]);
                for d in errors.iter().filter(|d| d.code() == "E011") {
                    let Some(sp) = d.span() else { continue };
                    let fi: usize = sp.file.strip_prefix("string-").and_then(|x| x.parse().ok()).unwrap_or(usize::MAX);
                    let k = rows.get(fi).and_then(|r| r.get(sp.start.row)).copied().unwrap_or(0);
                    let name: String = texts.get(fi).and_then(|t| t.lines().nth(sp.start.row - 1)).map(|l| l.chars().skip(sp.start.col - 1).take_while(|c| c.is_alphanumeric()).collect()).unwrap_or_default();
                    let listed = k >= 1 && strs(&case["redeclared"][k - 1]).contains(&name);
                    if !listed {
                        return Some(json!({"kind": "mismatch", "what": "E011 points at an operation that redeclares nothing", "interface": k, "operation": name}));
                    }
                }
            }
            if want.is_empty() && !codes.is_empty() {
                return Some(mismatch("a program that satisfies every rule was rejected", json!([]), json!(codes)));
            }
            if !want.is_empty() && codes.is_empty() {
                return Some(mismatch("a program that violates a rule was accepted", json!(want), json!([])));
            }
            if let Some(c) = codes.iter().find(|c| !want.contains(c)) {
                return Some(mismatch("a diagnostic code that belongs to no violated rule", json!(want), json!({"reported": codes, "stray": c})));
            }
            // C09 (b): every diagnostic about a defect points into the file it is about
            for d in &errors {
                if let Some(s) = d.span() {
                    let fi: usize = s.file.strip_prefix("string-").and_then(|x| x.parse().ok()).unwrap_or(usize::MAX);
                    let inside = fi < nrows.len() && s.start.row >= 1 && s.start.col >= 1 && s.end.row <= nrows[fi] && (s.start.row, s.start.col) <= (s.end.row, s.end.col);
                    if !inside {
                        return Some(json!({"kind": "mismatch", "what": "diagnostic span outside its file", "code": d.code(), "span": [s.start.row, s.start.col, s.end.row, s.end.col]}));
                    }
                }
            }
            None
        })();
        Outcome { fail, nontrivial: !want.is_empty(), key, rendered }
    }
}
