// C15: reproducibility and order independence. A case is a multi-file program (an MC_Syntax case, or a collision
// arrangement of MC_Collide). The harness compiles every permutation of the files under every source / reference
// assignment through compile_from_options on real files, and runs the binary repeatedly; one event per program for
// Trace_Repro.

use crate::ast_project;
use crate::util::{emit_event, hash_str, strs};
use crate::{Family, Outcome};
use serde_json::{json, Value};
use slicec::diagnostics::DiagnosticLevel;
use slicec::slice_options::SliceOptions;

#[derive(Default)]
pub struct Repro {
    counter: u64,
}

fn permutations(n: usize) -> Vec<Vec<usize>> {
    fn go(cur: &mut Vec<usize>, used: &mut Vec<bool>, n: usize, out: &mut Vec<Vec<usize>>) {
        if cur.len() == n {
            out.push(cur.clone());
            return;
        }
        for i in 0..n {
            if !used[i] {
                used[i] = true;
                cur.push(i);
                go(cur, used, n, out);
                cur.pop();
                used[i] = false;
            }
        }
    }
    let mut out = Vec::new();
    go(&mut Vec::new(), &mut vec![false; n], n, &mut out);
    out
}

fn def_text(kind: &str, name: &str) -> String {
    match kind {
        "struct" => format!("struct {name} {{ v: int32 }}"),
        "enum" => format!("enum {name} {{ P, Q }}"),
        "custom" => format!("custom {name}"),
        "alias" => format!("typealias {name} = Sequence<string>"),
        _ => format!("interface {name} {{}}"),
    }
}

/// MC_LinkFiles: every file (re)opens module A and holds one container with a member `id`; a doc comment with a link
/// spelled `id` (or qualified) sits on the container or on one of its members.  What the link designates is decided by
/// the element the comment documents, whatever the order of the files.
fn link_files(case: &Value) -> Vec<String> {
    let files = case["linkfiles"].as_array().cloned().unwrap_or_default();
    files
        .iter()
        .enumerate()
        .map(|(k, f)| {
            let k = k + 1;
            let link = match f["spell"].as_str().unwrap_or("bare") {
                "bare" => "id".to_owned(),
                "own" => format!("C{k}::id"),
                "first" => "C1::id".to_owned(),
                _ => format!("A::C{k}::id"),
            };
            let text = if f["tag"] == "see" { format!("/// Text.\n/// @see {link}") } else { format!("/// See {{@link {link}}} for more.") };
            let on_container = f["on"] == "container";
            let (c1, c2) = if on_container { (format!("{text}\n"), String::new()) } else { (String::new(), format!("  {}\n", text.replace("\n", "\n  "))) };
            match f["kind"].as_str().unwrap_or("struct") {
                "struct" => format!("module A\n{c1}struct C{k} {{\n{c2}  a: int32\n  id: bool\n}}\n"),
                "interface" => format!("module A\n{c1}interface C{k} {{\n{c2}  a()\n  id(x: int32)\n}}\n"),
                _ => format!("module A\n{c1}enum C{k} {{\n{c2}  a\n  id\n}}\n"),
            }
        })
        .collect()
}

fn collide_texts(case: &Value) -> Vec<String> {
    let arr = case["arr"].as_str().unwrap_or("defmod");
    let k1 = case["k1"].as_str().unwrap_or("struct");
    let k2 = case["k2"].as_str().unwrap_or("-");
    let r = &case["ref"];
    let written = format!("{}{}", if r["global"] == true { "::" } else { "" }, strs(&r["segs"]).join("::"));
    // the user names the colliding definition where a definition of its kind can stand: an interface as a base interface,
    // everything else as the type of a field
    let last = strs(&r["segs"]).last().cloned().unwrap_or_default();
    let names_the_definition = (arr == "membermod" && last == "T") || (arr != "membermod" && last == "B");
    let user = if k1 == "interface" && names_the_definition {
        format!("module {}\ninterface UseIt : {written} {{ extra() }}\n", strs(&r["scope"]).join("::"))
    } else {
        format!("module {}\nstruct UseIt {{ f: {written} }}\n", strs(&r["scope"]).join("::"))
    };
    match arr {
        "membermod" => {
            let container = match k2 {
                "field" => "struct N { T: int32 }",
                "operation" => "interface N { T() }",
                "enumerator" => "enum N { T }",
                _ => "interface I { N(T: int32) }", // the parameter T of operation I::N ... see below
            };
            // a parameter's key is A::I::N::T, so for parameters the colliding module is A::I::N: keep the key shape
            // A::N::T by naming the interface N and the operation T, with a parameter whose module is one level deeper
            let (first, second_mod, third_mod) = if k2 == "parameter" {
                ("module A\ninterface N { T(Y: int32) }\n".to_owned(), "module A::N".to_owned(), "module A::N::T".to_owned())
            } else {
                (format!("module A\n{container}\n"), "module A::N".to_owned(), "module A::N::T".to_owned())
            };
            let mut v = vec![first, format!("{second_mod}\n{}\n", def_text(k1, "T"))];
            if case["withC"] == true {
                v.push(format!("{third_mod}\nstruct Y {{}}\nstruct UseY {{ g: Y }}\n"));
            }
            v.push(user);
            v
        }
        "defdef" => vec![
            format!("module A\n{}\n", def_text(k1, "B")),
            format!("module A\n{}\n", def_text(k2, "B")),
            "module A\nstruct UseIt { f: B }\n".to_owned(),
        ],
        "ppdefine" => {
            let second = if k2 == "redef" {
                "module A\nstruct Q { a: int32 }\n#if FLAG\nstruct P {}\n#endif\n"
            } else {
                "module A\nstruct Q {\n  a: int32\n#if FLAG\n  extra: int32\n#endif\n}\n"
            };
            vec!["#define FLAG\nmodule A\nstruct P {}\n".to_owned(), second.to_owned(), "module A\n#if !FLAG\nstruct R {}\n#endif\n".to_owned()]
        }
        _ => {
            let mut v = vec![format!("module A\n{}\n", def_text(k1, "B")), "module A::B\nstruct X {}\n".to_owned()];
            if case["withC"] == true {
                v.push("module A::B::C\nstruct Y {}\n".to_owned());
            }
            v.push(user);
            v
        }
    }
}

impl Family for Repro {
    fn run(&mut self, case: &Value) -> Outcome {
        self.counter += 1;
        let texts: Vec<String> = if case.get("k1").is_some() {
            collide_texts(case)
        } else if case.get("fam").is_some() {
            // an item of C04's rule families (mostly ill-formed): the diagnostics of a rejected program are reproducible too
            crate::fam_rules::render(case).unwrap_or_default()
        } else if case.get("linkfiles").is_some() {
            link_files(case)
        } else if case["many"] == true {
            // the many-lints program of MC_ManyLints: two files with lints at the same rows and columns, some suppressed
            crate::fam_lints::many_texts(case)
        } else if case.get("family").is_some() {
            // a graph of MC_CyclesGen (inheritance / aliases / containment, cyclic or not), one node per file
            crate::fam_cycles::render_split(case)
        } else if let Some(t) = case.get("texts") {
            strs(t)
        } else {
            case["files"].as_array().cloned().unwrap_or_default().iter().map(|f| crate::fam_syntax::render_file(&f["out"])).collect()
        };
        let n = texts.len();
        let work = std::env::var("VERIF_WORK").unwrap_or_else(|_| "/verif/work".into());
        let dir = std::path::PathBuf::from(format!("{work}/repro-{}/{}", std::process::id(), self.counter));
        let _ = std::fs::remove_dir_all(&dir);
        std::fs::create_dir_all(&dir).unwrap();
        // every file has the same base name, one directory level deeper than the one before (t.slice, x1/t.slice,
        // x1/x2/t.slice ..): each path is a suffix of the next
        let names: Vec<String> = (0..n).map(|i| format!("{}t.slice", (1..=i).map(|k| format!("x{k}/")).collect::<String>())).collect();
        for (i, t) in texts.iter().enumerate() {
            if let Some(parent) = dir.join(&names[i]).parent() {
                std::fs::create_dir_all(parent).unwrap();
            }
            std::fs::write(dir.join(&names[i]), t).unwrap();
        }
        let rendered = json!({"files": texts});
        let key = hash_str(&rendered.to_string());
        let prev = std::env::current_dir().ok();
        let _ = std::env::set_current_dir(&dir);
        let mut runs: Vec<Value> = Vec::new();
        let perms = permutations(n);
        let role_masks: Vec<u32> = (0..(1u32 << n)).collect();
        let mut count = 0;
        for (pi, p) in perms.iter().enumerate() {
            for mask in &role_masks {
                // beyond 3 files the product is sampled
                count += 1;
                if n > 3 && (count + pi) % 5 != 0 {
                    continue;
                }
                let mut sources = Vec::new();
                let mut references = Vec::new();
                for &i in p {
                    if mask & (1 << i) != 0 {
                        sources.push(names[i].clone());
                    } else {
                        references.push(names[i].clone());
                    }
                }
                let options = SliceOptions { sources, references, ..Default::default() };
                let state = slicec::compile_from_options(&options);
                let accepted = !state.diagnostics.has_errors();
                let mut per_file = serde_json::Map::new();
                if accepted {
                    for f in &state.files {
                        per_file.insert(f.relative_path.clone(), json!(hash_str(&format!("{}{}", ast_project::file(f), ast_project::comments(f))).to_string()));
                    }
                }
                let diags = state.into_diagnostics(&options);
                let mut warnings: Vec<String> = diags
                    .iter()
                    .filter(|d| d.level() == DiagnosticLevel::Warning)
                    .map(|d| format!("{}|{}|{:?}", d.code(), d.message(), d.span().map(|s| (s.file.clone(), s.start.row, s.start.col, s.end.row, s.end.col))))
                    .collect();
                warnings.sort();
                let mut errors: Vec<String> = diags.iter().filter(|d| d.level() == DiagnosticLevel::Error).map(|d| d.code().to_owned()).collect();
                errors.sort();
                errors.dedup();
                runs.push(json!({"order": p, "roles": mask, "accepted": accepted, "files": per_file, "warnings": warnings, "errors": errors}));
            }
        }
        // the first file listed twice (second time in another spelling), with the other files before, between and after the
        // two mentions: the same program, so the same verdict, contents and warnings in every arrangement
        let mut dup_runs: Vec<Value> = Vec::new();
        if n >= 2 && self.counter % 2 == 0 {
            let again = format!("./{}", names[0]);
            let rest: Vec<String> = names[1..].to_vec();
            let orders: Vec<Vec<String>> = vec![
                [vec![names[0].clone(), again.clone()], rest.clone()].concat(),
                [vec![names[0].clone()], rest.clone(), vec![again.clone()]].concat(),
                [rest.clone(), vec![names[0].clone(), again.clone()]].concat(),
            ];
            for sources in orders {
                let options = SliceOptions { sources: sources.clone(), ..Default::default() };
                let state = slicec::compile_from_options(&options);
                let accepted = !state.diagnostics.has_errors();
                let mut per_file = serde_json::Map::new();
                if accepted {
                    for f in &state.files {
                        per_file.insert(f.relative_path.clone(), json!(hash_str(&format!("{}{}", ast_project::file(f), ast_project::comments(f))).to_string()));
                    }
                }
                let diags = state.into_diagnostics(&options);
                let mut warnings: Vec<String> = diags.iter().filter(|d| d.level() == DiagnosticLevel::Warning).map(|d| format!("{}|{}", d.code(), d.message())).collect();
                warnings.sort();
                let mut errors: Vec<String> = diags.iter().filter(|d| d.level() == DiagnosticLevel::Error).map(|d| d.code().to_owned()).collect();
                errors.sort();
                errors.dedup();
                dup_runs.push(json!({"order": sources, "roles": 0, "accepted": accepted, "files": per_file, "warnings": warnings, "errors": errors}));
            }
        }
        if let Some(p) = prev {
            let _ = std::env::set_current_dir(p);
        }
        emit_event("repro", &json!({"ev": "perm", "n": n, "runs": runs}));
        if !dup_runs.is_empty() {
            emit_event("repro", &json!({"ev": "perm", "n": n, "dup": true, "runs": dup_runs}));
        }
        // repeated runs of the binary in fresh processes: byte-identical diagnostics and generator requests
        let reruns = std::env::var("VERIF_REPRO_RERUNS").ok().and_then(|v| v.parse::<usize>().ok()).unwrap_or(3);
        if self.counter % 4 == 1 {
            let gen = dir.join("gen1");
            if std::fs::hard_link(crate::fam_driver::fakegen_bin(), &gen).is_err() {
                let _ = std::fs::copy(crate::fam_driver::fakegen_bin(), &gen);
            }
            std::fs::write(dir.join("gen1.json"), json!({"beh": "ok0", "index": 1}).to_string()).unwrap();
            let mut stderrs = Vec::new();
            let mut requests = Vec::new();
            let mut exits = Vec::new();
            for _ in 0..reruns {
                let _ = std::fs::remove_file(dir.join("gen1.stdin"));
                let mut argv: Vec<String> = names.clone();
                argv.extend(["--diagnostic-format".into(), "json".into(), "-G".into(), format!("{},namespace=Demo.Generated,visibility=internal,nullable,indent=4,line-ending=lf,header=none,k=v", gen.display())]);
                let res = crate::fam_driver::run_limited(std::process::Command::new(crate::fam_driver::slicec_bin()).args(&argv).current_dir(&dir), std::time::Duration::from_secs(20));
                stderrs.push(crate::util::hash_bytes(&res.stderr).to_string());
                requests.push(std::fs::read(dir.join("gen1.stdin")).map(|b| crate::util::hash_bytes(&b).to_string()).unwrap_or_else(|_| "none".into()));
                exits.push(res.status.and_then(|s| s.code()).unwrap_or(-1));
            }
            // the last file as a reference instead of a source: the same verdict, and a request of the same size (every
            // file is transmitted whole in either role; only the list it stands in changes)
            let mut lens: Vec<i64> = Vec::new();
            let mut role_exits = Vec::new();
            // (one more file that declares a module - with an attribute - and nothing else: it is a file like any other)
            let only = "zz_only_a_module.slice".to_owned();
            std::fs::write(dir.join(&only), "[cs::attr(\"x\")] module OnlyAModule\n").unwrap();
            let mut all: Vec<String> = names.clone();
            all.push(only);
            for as_ref in [None, Some(n - 1), Some(n)] {
                let _ = std::fs::remove_file(dir.join("gen1.stdin"));
                let mut argv: Vec<String> = Vec::new();
                for (i, f) in all.iter().enumerate() {
                    if as_ref == Some(i) {
                        argv.extend(["-R".to_owned(), f.clone()]);
                    } else {
                        argv.push(f.clone());
                    }
                }
                argv.extend(["--diagnostic-format".into(), "json".into(), "-G".into(), gen.display().to_string()]);
                let res = crate::fam_driver::run_limited(std::process::Command::new(crate::fam_driver::slicec_bin()).args(&argv).current_dir(&dir), std::time::Duration::from_secs(20));
                lens.push(std::fs::read(dir.join("gen1.stdin")).map(|b| b.len() as i64).unwrap_or(-1));
                role_exits.push(res.status.and_then(|s| s.code()).unwrap_or(-1));
            }
            emit_event("repro", &json!({"ev": "rerun", "stderr": stderrs, "request": requests, "exit": exits, "role_request_len": lens, "role_exit": role_exits}));
        }
        let _ = std::fs::remove_dir_all(&dir);
        Outcome { fail: None, nontrivial: n >= 2, key, rendered }
    }
}
