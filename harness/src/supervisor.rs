// Worker processes and their supervisor.
//
// A worker executes cases under catch_unwind; aborts, stack overflows and hangs kill only the worker, and the
// supervisor attributes the death to the case in flight (results come back in order, so the first unanswered case
// is the culprit), records it, restarts the worker and carries on with the remaining cases.

use crate::{make_family, Outcome};
use serde_json::{json, Value};
use std::collections::{HashSet, VecDeque};
use std::io::{BufRead, BufReader, Read, Write};
use std::process::{Child, Command, Stdio};
use std::sync::mpsc::{channel, sync_channel, Receiver, RecvTimeoutError};
use std::sync::{Arc, Mutex};
use std::time::{Duration, Instant};

thread_local! {
    static LAST_PANIC: std::cell::RefCell<String> = const { std::cell::RefCell::new(String::new()) };
}

pub fn install_quiet_panic_hook() {
    std::panic::set_hook(Box::new(|info| {
        let msg = format!("{info}");
        LAST_PANIC.with(|p| *p.borrow_mut() = msg);
    }));
}

pub fn take_panic_message() -> String {
    LAST_PANIC.with(|p| std::mem::take(&mut *p.borrow_mut()))
}

pub fn worker_main(family: &str) -> i32 {
    let Some(mut fam) = make_family(family) else {
        eprintln!("unknown family {family}");
        return 2;
    };
    install_quiet_panic_hook();
    let stdin = std::io::stdin();
    let stdout = std::io::stdout();
    let mut out = std::io::BufWriter::new(stdout.lock());
    let mut samples_left = 3;
    for line in stdin.lock().lines() {
        let Ok(line) = line else { break };
        if line.is_empty() {
            continue;
        }
        let case: Value = match serde_json::from_str(&line) {
            Ok(v) => v,
            Err(e) => {
                let _ = writeln!(out, "{}", json!({"f": {"kind": "bad-case", "msg": e.to_string()}, "n": false, "k": 0, "r": null}));
                let _ = out.flush();
                continue;
            }
        };
        let t0 = Instant::now();
        let res = std::panic::catch_unwind(std::panic::AssertUnwindSafe(|| fam.run(&case)));
        let ms = t0.elapsed().as_millis() as u64;
        let line = match res {
            Ok(Outcome { fail, nontrivial, key, mut rendered }) => {
                // families may attach coverage tags to a case (which model features it exercises)
                let tags = rendered.as_object_mut().and_then(|o| o.remove("_tags")).unwrap_or(Value::Null);
                let send_r = fail.is_some() || (nontrivial && samples_left > 0);
                if fail.is_none() && nontrivial && samples_left > 0 {
                    samples_left -= 1;
                }
                json!({"f": fail, "n": nontrivial, "k": key, "r": if send_r { rendered } else { Value::Null }, "ms": ms, "t": tags})
            }
            Err(_) => {
                let msg = take_panic_message();
                // The family object may be in an odd state after a panic: rebuild it.
                fam = make_family(family).unwrap();
                json!({"f": {"kind": "panic", "msg": msg}, "n": true, "k": 0, "r": null, "ms": ms})
            }
        };
        let _ = writeln!(out, "{line}");
        let _ = out.flush();
    }
    0
}

struct Opts {
    jobs: usize,
    timeout_ms: u64,
    summary: Option<String>,
    tlclog: Option<String>,
    maxfail: usize,
}

#[derive(Default)]
struct Summary {
    total: u64,
    ok: u64,
    failed: u64,
    nontrivial: u64,
    keys: HashSet<u64>,
    nt_keys: HashSet<u64>,
    failures: Vec<Value>,
    groups: std::collections::HashMap<String, u64>,
    tags: std::collections::BTreeMap<String, u64>,
    samples: Vec<Value>,
    max_ms: u64,
    restarts: u64,
    /// cases not executed because the run had already lost HARD_LIMIT workers (crashes / hangs): the run is a failure
    /// anyway, and every further hang would cost another full time limit
    skipped: u64,
}

const HARD_LIMIT: u64 = 24;

enum FromChild {
    Line(String),
    Eof,
}

struct Running {
    child: Child,
    rx: Receiver<FromChild>,
    stderr_tail: Arc<Mutex<Vec<u8>>>,
    /// cases go to the worker through a writer thread: a worker that has stopped reading (it hangs in a case) must not
    /// block its manager in a write to a full pipe - the manager has to stay free to time the worker out
    to_child: Option<std::sync::mpsc::Sender<String>>,
}

impl Running {
    fn send(&self, line: &str) {
        if let Some(tx) = &self.to_child {
            let _ = tx.send(line.to_owned());
        }
    }
}

fn spawn_worker(family: &str) -> Running {
    let exe = std::env::current_exe().expect("current_exe");
    let mut child = Command::new(exe)
        .arg("worker")
        .arg(family)
        .stdin(Stdio::piped())
        .stdout(Stdio::piped())
        .stderr(Stdio::piped())
        .spawn()
        .expect("spawn worker");
    let stdout = child.stdout.take().unwrap();
    let mut stderr = child.stderr.take().unwrap();
    let mut stdin = child.stdin.take().unwrap();
    let (to_child, lines) = channel::<String>();
    std::thread::spawn(move || {
        for line in lines {
            if stdin.write_all(line.as_bytes()).and_then(|_| stdin.write_all(b"\n")).and_then(|_| stdin.flush()).is_err() {
                return;
            }
        }
        // the sender is gone: closing stdin tells the worker to finish
    });
    let (tx, rx) = channel();
    std::thread::spawn(move || {
        let r = BufReader::new(stdout);
        for l in r.lines() {
            match l {
                Ok(l) => {
                    if tx.send(FromChild::Line(l)).is_err() {
                        return;
                    }
                }
                Err(_) => break,
            }
        }
        let _ = tx.send(FromChild::Eof);
    });
    let stderr_tail = Arc::new(Mutex::new(Vec::new()));
    let tail = stderr_tail.clone();
    std::thread::spawn(move || {
        let mut buf = [0u8; 4096];
        loop {
            match stderr.read(&mut buf) {
                Ok(0) | Err(_) => break,
                Ok(n) => {
                    let mut t = tail.lock().unwrap();
                    t.extend_from_slice(&buf[..n]);
                    let len = t.len();
                    if len > 4096 {
                        t.drain(..len - 4096);
                    }
                }
            }
        }
    });
    Running { child, rx, stderr_tail, to_child: Some(to_child) }
}

fn manager(family: String, work: Arc<Mutex<Receiver<(u64, String)>>>, opts: Arc<Opts>, summary: Arc<Mutex<Summary>>) {
    const WINDOW: usize = 32;
    let mut run = spawn_worker(&family);
    let mut inflight: VecDeque<(u64, String)> = VecDeque::new();
    let mut retried: std::collections::HashSet<u64> = std::collections::HashSet::new();
    let mut work_done = false;
    let mut last_progress = Instant::now();
    let mut cpu_at_progress: u64 = 0;
    loop {
        if summary.lock().unwrap().restarts >= HARD_LIMIT {
            // give up: drop what is in flight and drain the queue without executing anything
            let mut dropped = inflight.len() as u64;
            inflight.clear();
            loop {
                let item = work.lock().unwrap().recv_timeout(Duration::from_millis(50));
                match item {
                    Ok(_) => dropped += 1,
                    Err(RecvTimeoutError::Timeout) => continue,
                    Err(RecvTimeoutError::Disconnected) => break,
                }
            }
            summary.lock().unwrap().skipped += dropped;
            let _ = run.child.kill();
            let _ = run.child.wait();
            return;
        }
        // Fill the window.
        while !work_done && inflight.len() < WINDOW {
            // Never block on the shared queue while results may be pending, and never hold its lock for long.
            let item = if inflight.is_empty() {
                let rx = work.lock().unwrap();
                match rx.recv_timeout(Duration::from_millis(10)) {
                    Ok(x) => Ok(x),
                    Err(RecvTimeoutError::Timeout) => Err(false),
                    Err(RecvTimeoutError::Disconnected) => Err(true),
                }
            } else {
                match work.try_lock() {
                    Ok(rx) => match rx.try_recv() {
                        Ok(x) => Ok(x),
                        Err(std::sync::mpsc::TryRecvError::Empty) => Err(false),
                        Err(std::sync::mpsc::TryRecvError::Disconnected) => Err(true),
                    },
                    Err(_) => Err(false),
                }
            };
            match item {
                Ok((idx, line)) => {
                    if inflight.is_empty() {
                        last_progress = Instant::now();
                        cpu_at_progress = crate::util::proc_tree_cpu_ms(run.child.id()).unwrap_or(0);
                    }
                    run.send(&line);
                    inflight.push_back((idx, line));
                }
                Err(done) => {
                    work_done = done;
                    break;
                }
            }
        }
        if inflight.is_empty() {
            if work_done {
                break;
            }
            continue;
        }
        // The limit is a CPU-time limit for a worker that is computing and a wall-clock limit for one that is idle:
        // on a busy machine a computing worker gets up to eight times the limit in wall-clock time.
        let deadline = last_progress + Duration::from_millis(opts.timeout_ms);
        let wait = deadline.saturating_duration_since(Instant::now());
        let mut ev = run.rx.recv_timeout(wait);
        while matches!(ev, Err(RecvTimeoutError::Timeout)) {
            let wall = last_progress.elapsed().as_millis() as u64;
            let cpu = crate::util::proc_tree_cpu_ms(run.child.id()).map(|c| c.saturating_sub(cpu_at_progress));
            let give_up = match cpu {
                None => true,
                // over the limit in CPU time; or far over it in wall-clock time; or idle - asleep (not merely waiting for a CPU on a
                // busy machine) with next to no CPU time used, for twice the limit
                Some(c) => {
                    wall >= 8 * opts.timeout_ms * crate::util::overload().min(4)
                        || c >= opts.timeout_ms
                        || (wall >= 2 * opts.timeout_ms && c * 32 * crate::util::overload() < wall && crate::util::proc_state(run.child.id()) != 'R')
                }
            };
            if give_up {
                break;
            }
            ev = run.rx.recv_timeout(Duration::from_millis(500));
        }
        match ev {
            Ok(FromChild::Line(l)) => {
                last_progress = Instant::now();
                cpu_at_progress = crate::util::proc_tree_cpu_ms(run.child.id()).unwrap_or(0);
                let (idx, case_line) = inflight.pop_front().unwrap();
                let v: Value = serde_json::from_str(&l).unwrap_or(json!({"f": {"kind": "bad-result", "raw": l}, "n": false, "k": 0}));
                let mut s = summary.lock().unwrap();
                s.total += 1;
                let key = v["k"].as_u64().unwrap_or(0);
                let nt = v["n"].as_bool().unwrap_or(false);
                let ms = v["ms"].as_u64().unwrap_or(0);
                if ms > s.max_ms {
                    s.max_ms = ms;
                }
                if key != 0 {
                    s.keys.insert(key);
                }
                if let Some(tags) = v["t"].as_array() {
                    for tag in tags {
                        if let Some(tag) = tag.as_str() {
                            *s.tags.entry(tag.to_owned()).or_insert(0) += 1;
                        }
                    }
                }
                if nt {
                    s.nontrivial += 1;
                    if key != 0 {
                        s.nt_keys.insert(key);
                    }
                }
                if v["f"].is_null() {
                    s.ok += 1;
                    if nt && !v["r"].is_null() && s.samples.len() < 4 {
                        let case: Value = serde_json::from_str(&case_line).unwrap_or(Value::Null);
                        s.samples.push(json!({"case": case, "rendered": v["r"]}));
                    }
                } else {
                    s.failed += 1;
                    // keep a few examples of every kind of failure rather than the first N failures
                    let group = format!("{} {}", v["f"]["kind"].as_str().unwrap_or("?"), v["f"]["what"].as_str().unwrap_or(""));
                    let seen = s.groups.entry(group).or_insert(0);
                    *seen += 1;
                    if (*seen <= 4 || opts.maxfail >= 1000) && s.failures.len() < opts.maxfail {
                        let case: Value = serde_json::from_str(&case_line).unwrap_or(Value::Null);
                        s.failures.push(json!({"idx": idx, "family": family, "case": case, "rendered": v["r"], "detail": v["f"], "ms": ms}));
                    }
                }
            }
            Ok(FromChild::Eof) | Err(RecvTimeoutError::Timeout) | Err(RecvTimeoutError::Disconnected) => {
                let timed_out = matches!(ev, Err(RecvTimeoutError::Timeout));
                if timed_out {
                    let _ = run.child.kill();
                }
                let status = run.child.wait().ok();
                // Give the stderr thread a moment to collect the tail.
                std::thread::sleep(Duration::from_millis(20));
                let tail = String::from_utf8_lossy(&run.stderr_tail.lock().unwrap()).to_string();
                // A timeout is only a finding when it happens twice: the case goes to a fresh worker once more (a case that
                // hangs, hangs again; a stall of the machine or of the plumbing does not repeat).
                if timed_out && !retried.contains(&inflight.front().map(|x| x.0).unwrap_or(0)) {
                    retried.insert(inflight.front().map(|x| x.0).unwrap_or(0));
                    summary.lock().unwrap().restarts += 1;
                    run = spawn_worker(&family);
                    last_progress = Instant::now();
                    cpu_at_progress = 0;
                    for (_, line) in inflight.iter() {
                        run.send(line);
                    }
                    continue;
                }
                let (idx, case_line) = inflight.pop_front().unwrap();
                let case: Value = serde_json::from_str(&case_line).unwrap_or(Value::Null);
                let detail = if timed_out {
                    json!({"kind": "timeout", "limit_ms": opts.timeout_ms})
                } else {
                    use std::os::unix::process::ExitStatusExt;
                    let sig = status.and_then(|s| s.signal());
                    let code = status.and_then(|s| s.code());
                    let kind = if tail.contains("overflowed its stack") { "stack-overflow" } else { "crash" };
                    json!({"kind": kind, "signal": sig, "code": code, "stderr": tail})
                };
                {
                    let mut s = summary.lock().unwrap();
                    s.total += 1;
                    s.failed += 1;
                    s.nontrivial += 1;
                    s.restarts += 1;
                    if s.failures.len() < opts.maxfail {
                        s.failures.push(json!({"idx": idx, "family": family, "case": case, "rendered": null, "detail": detail}));
                    }
                }
                run = spawn_worker(&family);
                last_progress = Instant::now();
                cpu_at_progress = 0;
                for (_, line) in inflight.iter() {
                    run.send(line);
                }
            }
        }
    }
    run.to_child = None;
    let _ = run.child.wait();
}

/// Extracts the JSON text of a case from a TLC output line `<<"CASE", "....">>` (TLC prints the string with
/// backslash escapes for quotes and backslashes, which is also valid JSON string syntax).
fn extract_case(line: &str) -> Option<String> {
    let t = line.trim_end();
    if t.starts_with('{') {
        return Some(t.to_owned());
    }
    let rest = t.strip_prefix("<<\"CASE\", ")?;
    let inner = rest.strip_suffix(">>")?;
    serde_json::from_str::<String>(inner).ok()
}

pub fn replay_main(family: &str, rest: &[String]) -> i32 {
    let mut opts = Opts { jobs: 8, timeout_ms: 20_000, summary: None, tlclog: None, maxfail: 200 };
    let mut i = 0;
    while i < rest.len() {
        let v = rest.get(i + 1).cloned().unwrap_or_default();
        match rest[i].as_str() {
            "--jobs" => opts.jobs = v.parse().unwrap_or(8),
            "--timeout-ms" => opts.timeout_ms = v.parse().unwrap_or(20_000),
            "--summary" => opts.summary = Some(v),
            "--tlclog" => opts.tlclog = Some(v),
            "--maxfail" => opts.maxfail = v.parse().unwrap_or(50),
            other => {
                eprintln!("unknown option {other}");
                return 2;
            }
        }
        i += 2;
    }
    if make_family(family).is_none() {
        eprintln!("unknown family {family}");
        return 2;
    }
    let opts = Arc::new(opts);
    let summary = Arc::new(Mutex::new(Summary::default()));
    let (tx, rx) = sync_channel::<(u64, String)>(8192);
    let rx = Arc::new(Mutex::new(rx));
    let mut handles = Vec::new();
    for _ in 0..opts.jobs {
        let (f, r, o, s) = (family.to_owned(), rx.clone(), opts.clone(), summary.clone());
        handles.push(std::thread::spawn(move || manager(f, r, o, s)));
    }
    let t0 = Instant::now();
    let mut tlclog = opts.tlclog.as_ref().map(|p| std::io::BufWriter::new(std::fs::File::create(p).expect("tlclog")));
    let stdin = std::io::stdin();
    let mut idx = 0u64;
    let mut unparsed = 0u64;
    for line in stdin.lock().lines() {
        let Ok(line) = line else { break };
        if let Some(case) = extract_case(&line) {
            idx += 1;
            if tx.send((idx, case)).is_err() {
                break;
            }
        } else {
            if line.starts_with("<<\"CASE\"") {
                unparsed += 1;
            }
            if let Some(w) = tlclog.as_mut() {
                let _ = writeln!(w, "{line}");
            }
        }
    }
    drop(tx);
    for h in handles {
        let _ = h.join();
    }
    if let Some(mut w) = tlclog {
        let _ = w.flush();
    }
    let s = summary.lock().unwrap();
    let out = json!({
        "family": family,
        "cases_read": idx,
        "unparsed_case_lines": unparsed,
        "total": s.total,
        "ok": s.ok,
        "failed": s.failed,
        "nontrivial": s.nontrivial,
        "distinct": s.keys.len(),
        "distinct_nontrivial": s.nt_keys.len(),
        "failures": s.failures,
        "failure_groups": s.groups,
        "tags": s.tags,
        "samples": s.samples,
        "max_case_ms": s.max_ms,
        "worker_restarts": s.restarts,
        "skipped_after_too_many_crashes": s.skipped,
        "wall_s": t0.elapsed().as_secs_f64(),
    });
    let text = serde_json::to_string(&out).unwrap();
    if let Some(p) = &opts.summary {
        // keys of the distinct non-trivial inputs, so that the runner can count distinct inputs across runs
        let mut raw = Vec::with_capacity(s.nt_keys.len() * 8);
        for k in s.nt_keys.iter() {
            raw.extend_from_slice(&k.to_le_bytes());
        }
        std::fs::write(format!("{p}.keys"), raw).expect("write keys");
    }
    match &opts.summary {
        Some(p) => std::fs::write(p, text).expect("write summary"),
        None => println!("{text}"),
    }
    0
}
