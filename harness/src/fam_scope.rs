// C03: arrangements printed by MC_NameTable: same-named definitions T over nested modules, one reference.
// case: {"placed": [kind|"none" x5], "box": 0|i, "scope": [segs], "at": i, "segs": [..], "global": bool, "pos": position, "rev": bool,
//        "expect": {"res": "bound", "key": [segs], "kind"} | {"res": "E033"} | {"res": "E017"}}

use crate::ast_project;
use crate::util::{hash_str, mismatch, strs};
use crate::{Family, Outcome};
use serde_json::{json, Value};
use slicec::diagnostics::DiagnosticLevel;
use slicec::grammar::*;

#[derive(Default)]
pub struct Scope;


fn def_of(kind: &str) -> &'static str {
    match kind {
        "struct" => "compact struct T { v: int32 }\n",
        "enum" => "enum T : uint8 { X }\n",
        "custom" => "custom T\n",
        "alias" => "typealias T = int32\n",
        "interface" => "interface T {}\n",
        _ => "",
    }
}

fn use_of(pos: &str, r: &str, own: bool) -> String {
    if own {
        // the member that holds the reference (and the operation / an enumerator) is itself named T
        return match pos {
            "field" => format!("struct Use {{ T: {r} }}\n"),
            "param" => format!("interface Use {{ T(T: {r}) }}\n"),
            "return" => format!("interface Use {{ T() -> {r} }}\n"),
            "elem" => format!("struct Use {{ T: Sequence<{r}> }}\n"),
            "key" => format!("struct Use {{ T: Dictionary<{r}, bool> }}\n"),
            "value" => format!("struct Use {{ T: Dictionary<string, {r}> }}\n"),
            "resarm" => format!("struct Use {{ T: Result<bool, {r}> }}\n"),
            "underlying" => format!("enum Use : {r} {{ T }}\n"),
            _ => use_of(pos, r, false),
        };
    }
    match pos {
        "field" => format!("struct Use {{ f: {r} }}\n"),
        "param" => format!("interface IUse {{ op(p: {r}) }}\n"),
        "return" => format!("interface IUse {{ op() -> {r} }}\n"),
        "elem" => format!("struct Use {{ f: Sequence<{r}> }}\n"),
        "key" => format!("struct Use {{ f: Dictionary<{r}, bool> }}\n"),
        "value" => format!("struct Use {{ f: Dictionary<string, {r}> }}\n"),
        "resarm" => format!("struct Use {{ f: Result<bool, {r}> }}\n"),
        "alias" => format!("typealias Use = {r}\n"),
        "underlying" => format!("enum Use : {r} {{ Y }}\n"),
        _ => format!("interface IUse : {r} {{}}\n"),
    }
}

/// The binding of the reference, read from the AST: a projected type, or the base / underlying target.
fn binding(file: &slicec::slice_file::SliceFile, pos: &str) -> Value {
    let Some(d) = file.contents.first() else { return Value::Null };
    let tr_json = |tr: &TypeRef| ast_project::type_ref(tr)["t"].clone();
    match (d, pos) {
        (Definition::Struct(s), "field") => tr_json(s.borrow().fields()[0].data_type()),
        (Definition::Struct(s), "elem") => match s.borrow().fields()[0].data_type().concrete_type() {
            Types::Sequence(q) => tr_json(&q.element_type),
            _ => Value::Null,
        },
        (Definition::Struct(s), "key") | (Definition::Struct(s), "value") => match s.borrow().fields()[0].data_type().concrete_type() {
            Types::Dictionary(q) => tr_json(if pos == "key" { &q.key_type } else { &q.value_type }),
            _ => Value::Null,
        },
        (Definition::Struct(s), "resarm") => match s.borrow().fields()[0].data_type().concrete_type() {
            Types::ResultType(q) => tr_json(&q.failure_type),
            _ => Value::Null,
        },
        (Definition::Interface(i), "param") => tr_json(i.borrow().operations()[0].parameters()[0].data_type()),
        (Definition::Interface(i), "return") => tr_json(i.borrow().operations()[0].return_members()[0].data_type()),
        (Definition::Interface(i), "base") => {
            let i = i.borrow();
            let b = i.bases[0].definition();
            json!({"f": "named", "target": b.module_scoped_identifier(), "tk": "interface", "name": b.identifier()})
        }
        (Definition::TypeAlias(a), "alias") => tr_json(&a.borrow().underlying),
        (Definition::Enum(e), "underlying") => json!({"f": "prim", "n": e.borrow().underlying.as_ref().map(|u| u.definition().kind()).unwrap_or("?")}),
        _ => Value::Null,
    }
}

/// every type a visitor is shown, projected
#[derive(Default)]
struct AllTypes {
    seen: Vec<Value>,
}
impl slicec::visitor::Visitor for AllTypes {
    fn visit_type_ref(&mut self, x: &TypeRef) {
        self.seen.push(ast_project::type_ref(x)["t"].clone());
    }
}

/// MC_WrongKind: a base list / an underlying type written with something of another kind (or a keyword, or an anonymous type)
fn run_wrong_kind(case: &Value) -> Outcome {
    let pos = case["pos"].as_str().unwrap_or("base");
    let w = case["written"].as_str().unwrap_or("J");
    let decl = match pos {
        "base" => format!("interface Use : {w} {{}}"),
        "base_second" => format!("interface Use : J2, {w} {{}}"),
        "base_first_of_two" => format!("interface Use : {w}, J2 {{}}"),
        _ => format!("enum Use : {w} {{ Y }}"),
    };
    let text = format!("module M\ninterface J {{}}\ninterface K {{}}\ninterface J2 {{}}\nstruct S {{}}\ntypealias Small = uint8\ntypealias Wide = Sequence<uint8>\n{decl}\n");
    let rendered = json!({"files": [text]});
    let key = hash_str(&text);
    let state = slicec::compile_from_strings(&[&text], None);
    let clean = !state.diagnostics.has_errors();
    let bases = state.ast.find_element::<Interface>("M::Use").ok().map(|i| i.bases.len());
    let underlying = state.ast.find_element::<Enum>("M::Use").ok().and_then(|e| e.underlying.as_ref().map(|u| if clean { u.definition().kind().to_owned() } else { String::new() }));
    let want_ok = case["accepted"] == true;
    let fail = if clean != want_ok {
        Some(mismatch("a base list / underlying type naming something unsuitable is an error, something suitable is not", json!(want_ok), json!(clean)))
    } else if clean && pos != "underlying" && bases.map(|b| b as u64) != case["bases"].as_u64() {
        Some(mismatch("number of base interfaces of the accepted interface (every one that was written)", case["bases"].clone(), json!(bases)))
    } else if clean && pos == "underlying" && underlying.as_deref().map(|k| k.is_empty()).unwrap_or(true) {
        Some(mismatch("the underlying type of the accepted enum is bound", json!("a built-in type"), json!(underlying)))
    } else {
        None
    };
    Outcome { fail, nontrivial: true, key, rendered }
}

impl Family for Scope {
    fn run(&mut self, case: &Value) -> Outcome {
        if case["wrongkind"] == true {
            return run_wrong_kind(case);
        }
        let placed = strs(&case["placed"]);
        let boxm = case["box"].as_u64().unwrap_or(0) as usize;
        let pos = case["pos"].as_str().unwrap_or("field");
        let mut files: Vec<String> = Vec::new();
        // the module paths are the model's (transmitted with every case)
        let mods: Vec<String> = case["mods"].as_array().cloned().unwrap_or_default().iter().map(|m| strs(m).join("::")).collect();
        for (i, kind) in placed.iter().enumerate() {
            if kind != "none" || boxm == i + 1 {
                let mut text = format!("module {}\n", mods[i]);
                text.push_str(def_of(kind));
                if boxm == i + 1 {
                    text.push_str("struct Box { T: bool }\n");
                }
                files.push(text);
            }
        }
        // one reference (MC_NameTable: fields of the case itself) or several (MC_TwoRefs: "refs"), each in a file of its own
        let ref_cases: Vec<Value> = match case.get("refs").and_then(|r| r.as_array()) {
            Some(a) => a.clone(),
            None => vec![json!({"scope": case["scope"], "segs": case["segs"], "global": case["global"], "expect": case["expect"]})],
        };
        let mut ref_files: Vec<usize> = Vec::new();
        for r in &ref_cases {
            let written = format!("{}{}", if r["global"] == true { "::" } else { "" }, strs(&r["segs"]).join("::"));
            let scope = strs(&r["scope"]).join("::");
            files.push(format!("module {scope}\n{}", use_of(pos, &written, case["own"] == true)));
            ref_files.push(files.len() - 1);
        }
        if case["rev"] == true {
            files.reverse();
            let n = files.len();
            for f in ref_files.iter_mut() {
                *f = n - 1 - *f;
            }
        }
        let refs: Vec<&str> = files.iter().map(|s| s.as_str()).collect();
        let rendered = json!({"files": files});
        let key = hash_str(&rendered.to_string());
        let state = slicec::compile_from_strings(&refs, None);
        let clean = !state.diagnostics.has_errors();
        let bounds: Vec<Value> = ref_files.iter().map(|f| if clean { binding(&state.files[*f], pos) } else { Value::Null }).collect();
        // C20 on the same arrangements (VERIF_SCOPE_MODE=visit): the types a visitor is shown while walking each referencing file
        let visit_mode = std::env::var("VERIF_SCOPE_MODE").map(|m| m == "visit").unwrap_or(false);
        let shown: Vec<Vec<Value>> = ref_files
            .iter()
            .map(|f| {
                let mut w = AllTypes::default();
                if clean && visit_mode {
                    state.files[*f].visit_with(&mut w);
                }
                w.seen
            })
            .collect();
        let diags = state.into_diagnostics(&Default::default());
        let errs: Vec<(String, String)> = diags
            .iter()
            .filter(|d| d.level() == DiagnosticLevel::Error)
            .map(|d| (d.code().to_owned(), d.span().map(|s| s.file.clone()).unwrap_or_default()))
            .collect();
        let mut fail = None;
        for (k, r) in ref_cases.iter().enumerate() {
            let expect = &r["expect"];
            // the error codes reported in the file of this reference
            let mut codes: Vec<String> = errs.iter().filter(|(_, f)| *f == format!("string-{}", ref_files[k])).map(|(c, _)| c.clone()).collect();
            codes.sort();
            codes.dedup();
            let f = match expect["res"].as_str().unwrap_or("") {
                "bound" => {
                    let key = strs(&expect["key"]);
                    let want = if expect["kind"] == "alias" {
                        json!({"f": "prim", "n": "int32"})
                    } else {
                        json!({"f": "named", "target": key.join("::"), "tk": expect["kind"], "name": key.last()})
                    };
                    if !codes.is_empty() {
                        Some(mismatch("a reference that designates a suitable entity was rejected", want, json!(codes)))
                    } else if clean && bounds[k] != want {
                        Some(mismatch("the reference is bound to another entity than the scoping rules designate", want, json!({"reference": k, "bound": bounds[k]})))
                    } else if clean && visit_mode && !matches!(pos, "base" | "underlying") && !shown[k].contains(&want) {
                        // (bases and underlying types are not presented by the visitor)
                        Some(mismatch("a visitor walking the file is shown the type the reference designates", want, json!({"reference": k, "shown": shown[k]})))
                    } else {
                        None
                    }
                }
                code => {
                    if codes != [code.to_owned()] {
                        Some(mismatch("a reference that designates nothing / something of the wrong kind", json!([code]), json!({"reference": k, "codes": codes, "bound": bounds[k]})))
                    } else {
                        None
                    }
                }
            };
            if f.is_some() {
                fail = f;
                break;
            }
        }
        // an error anywhere else (not in a referencing file) is no business of these arrangements
        if fail.is_none() {
            if let Some((c, f)) = errs.iter().find(|(_, f)| !ref_files.iter().any(|r| *f == format!("string-{r}"))) {
                fail = Some(mismatch("an error outside the referencing files", json!([]), json!([c, f])));
            }
        }
        let nontrivial = placed.iter().filter(|k| *k != "none").count() >= 1;
        Outcome { fail, nontrivial, key, rendered }
    }
}

// ---------------------------------------------------------------------------------------------------------------------
// alias chains printed by MC_AliasChain: {"chain": [{"attr": bool, "next": 0..n}], "term": kind,
//   "expect": {"res": "bound", "attrs": [link indices], "term"} | {"res": "rejected", "codes": [..]}}

#[derive(Default)]
pub struct AliasChain;

/// C20 on alias chains: the types a visitor is shown for the field `M::Use::f` - its own type, then what is nested inside,
/// through the aliases
#[derive(Default)]
struct TypeWalk {
    on: bool,
    seen: Vec<Value>,
}
impl slicec::visitor::Visitor for TypeWalk {
    fn visit_field(&mut self, x: &Field) {
        self.on = x.parser_scoped_identifier() == "M::Use::f";
    }
    fn visit_type_ref(&mut self, x: &TypeRef) {
        if self.on {
            self.seen.push(ast_project::type_ref(x));
        }
    }
}
/// a type tree in pre-order: the type, then element / key, value / success, failure
fn preorder(v: &Value, out: &mut Vec<Value>) {
    out.push(v.clone());
    for child in ["e", "k", "v", "s", "x"] {
        if let Some(c) = v["t"].get(child) {
            preorder(c, out);
        }
    }
}

impl Family for AliasChain {
    fn run(&mut self, case: &Value) -> Outcome {
        let chain = case["chain"].as_array().cloned().unwrap_or_default();
        let term = case["term"].as_str().unwrap_or("int32");
        let term_text = match term {
            "int32" => "int32",
            "struct" => "S",
            "seq" => "Sequence<bool?>",
            "enum" => "E",
            "custom" => "C",
            "dict" => "Dictionary<string, S>",
            _ => "Missing",
        };
        let mut texts = [String::from("module M\nstruct S {}\nenum E { X }\ncustom C\n"), String::from("module N\nstruct S {}\nenum E { X }\ncustom C\n")];
        let mod_of = |i: usize| -> &str { chain[i]["mod"].as_str().unwrap_or("M") };
        // layout: every link and the use site carry their own directive (x::a0, x::a1, ..), or all of them the same one
        // (x::a) with different arguments - what is accumulated is every written attribute, not one per directive
        let same_directive = (hash_str(&case["chain"].to_string()) >> 3) % 2 == 0; // (the lowest bit of hash_str is always set)
        let dir = |i: usize| -> String { if same_directive { "x::a".to_owned() } else { format!("x::a{i}") } };
        let spell = |from: &str, j: usize| -> String {
            if mod_of(j - 1) == from { format!("L{j}") } else { format!("::{}::L{j}", mod_of(j - 1)) }
        };
        for (i, link) in chain.iter().enumerate() {
            let next = link["next"].as_u64().unwrap_or(0) as usize;
            let target = if next == 0 { term_text.to_owned() } else { spell(mod_of(i), next) };
            let attr = if link["attr"] == true { format!("[{}(\"v{}\")] ", dir(i + 1), i + 1) } else { String::new() };
            texts[if mod_of(i) == "M" { 0 } else { 1 }].push_str(&format!("typealias L{} = {}{}\n", i + 1, attr, target));
        }
        texts[0].push_str(&format!("struct Use {{ f: [{}] {}? }}\n", dir(0), spell("M", 1)));
        let rendered = json!({"files": texts});
        let key = hash_str(&rendered.to_string());
        let state = slicec::compile_from_strings(&[&texts[0], &texts[1]], None);
        let clean = !state.diagnostics.has_errors();
        let observed = if clean {
            match state.files[0].contents.last() {
                Some(Definition::Struct(s)) => ast_project::type_ref(s.borrow().fields()[0].data_type()),
                _ => Value::Null,
            }
        } else {
            Value::Null
        };
        let mut walk = TypeWalk::default();
        if clean {
            state.files[0].visit_with(&mut walk);
        }
        let diags = state.into_diagnostics(&Default::default());
        let mut codes: Vec<String> = diags.iter().filter(|d| d.level() == DiagnosticLevel::Error).map(|d| d.code().to_owned()).collect();
        codes.sort();
        codes.dedup();
        let expect = &case["expect"];
        let tmod = expect["tmod"].as_str().unwrap_or("M").to_owned();
        let fail = if expect["res"] == "bound" {
            let mut attrs = vec![json!({"d": dir(0), "args": []})];
            for i in expect["attrs"].as_array().cloned().unwrap_or_default() {
                attrs.push(json!({"d": dir(i.as_u64().unwrap_or(0) as usize), "args": [format!("v{i}")]}));
            }
            let t = match term {
                "int32" => json!({"f": "prim", "n": "int32"}),
                "struct" => json!({"f": "named", "target": format!("{tmod}::S"), "tk": "struct", "name": "S"}),
                "enum" => json!({"f": "named", "target": format!("{tmod}::E"), "tk": "enum", "name": "E"}),
                "custom" => json!({"f": "named", "target": format!("{tmod}::C"), "tk": "custom", "name": "C"}),
                "seq" => json!({"f": "seq", "e": {"opt": true, "attrs": [], "t": {"f": "prim", "n": "bool"}}}),
                _ => json!({"f": "dict", "k": {"opt": false, "attrs": [], "t": {"f": "prim", "n": "string"}},
                            "v": {"opt": false, "attrs": [], "t": {"f": "named", "target": format!("{tmod}::S"), "tk": "struct", "name": "S"}}}),
            };
            let want = json!({"opt": true, "attrs": attrs, "t": t});
            if !clean {
                Some(mismatch("a resolvable alias chain was rejected", want, json!(codes)))
            } else {
                let mut shown = Vec::new();
                preorder(&want, &mut shown);
                crate::fam_syntax::first_diff(&want, &observed, "f")
                    .map(|d| json!({"kind": "mismatch", "what": "alias not replaced transparently (target / attributes / optionality)", "at": d}))
                    .or_else(|| {
                        crate::fam_syntax::first_diff(&json!(shown), &json!(walk.seen), "visited")
                            .map(|d| json!({"kind": "mismatch", "what": "types a visitor is shown for the field (its type, then the types nested in it, through the aliases)", "at": d}))
                    })
            }
        } else {
            let mut want = strs(&expect["codes"]);
            want.sort();
            if codes != want {
                Some(mismatch("alias loop / dangling alias", json!(want), json!(codes)))
            } else {
                None
            }
        };
        Outcome { fail, nontrivial: chain.len() >= 2, key, rendered }
    }
}
